(* C19 -- PackManifest / Pack produce a valid, self-consistent, pushable manifest.
   Only statements closed by [exact]; the lemmas live in Proofs/Pack.v, the model
   in Model/Pack.v.  mediaTypeRegexp and the oras constants are Generated/GC19.v
   (re-translated from pack.go on every run).

   Parameters of the statements (external behaviour, not modelled):
     marshal : manifest -> str     json.Marshal of the manifest document
     H       : str -> str          digest.FromBytes(..).String()
     H empty_json = empty_json_digest   (the digest of "{}" is the constant of image-spec)
   Where a statement needs the digest to be collision-free this is an explicit
   premise of that clause. *)
From Coq Require Import Sorting.Permutation.
From Oras Require Import Base.Prelude Base.Regex Base.StrCheck Generated.GC19 Model.Pack Proofs.Pack Proofs.PackTime Proofs.PackJson Proofs.PackTie Model.PackEnc Model.PackSha Proofs.PackEnc Proofs.PackNum.

(* The media-type check accepts exactly RFC 6838 section 4.2:
   restricted-name "/" restricted-name, each 1..127 characters. *)
Theorem C19_media_type_grammar :
  forall s, valid_media_type s = true <-> RFC6838 s.
Proof. exact media_type_grammar. Qed.
Print Assumptions C19_media_type_grammar.

(* The order of validations, storage operations and the created step in every function of pack.go,
   re-read from the source on every run, is the order the model executes. *)
Theorem C19_call_order_as_in_source :
  calls_PackManifest = [b "packManifestV1_0"; b "packManifestV1_1"] /\
  calls_Pack = [b "packManifestV1_1_RC2"; b "packArtifact"] /\
  calls_packArtifact = [b "ensureAnnotationCreated"; b "pushManifest"] /\
  calls_packManifestV1_0 =
    [b "validateMediaType"; b "validateMediaType"; b "pushCustomEmptyConfig"; b "ensureAnnotationCreated"; b "pushManifest"] /\
  calls_packManifestV1_1_RC2 = [b "pushCustomEmptyConfig"; b "ensureAnnotationCreated"; b "pushManifest"] /\
  calls_packManifestV1_1 =
    [b "validateMediaType"; b "validateMediaType"; b "pushIfNotExist"; b "ensureAnnotationCreated"; b "pushIfNotExist"; b "pushManifest"] /\
  calls_pushIfNotExist = [b "ros.Exists"; b "pusher.Push"] /\
  calls_pushManifest = [b "json.Marshal"; b "content.NewDescriptorFromBytes"; b "pusher.Push"] /\
  calls_pushCustomEmptyConfig = [b "content.NewDescriptorFromBytes"; b "pushIfNotExist"] /\
  calls_ensureAnnotationCreated = [b "validateRFC3339"; b "maps.Copy"; b "time.Now"] /\
  calls_validateRFC3339 = [b "time.Parse"] /\
  calls_validateMediaType = [b "mediaTypeRegexp.MatchString"].
Proof. exact call_order_as_modelled. Qed.
Print Assumptions C19_call_order_as_in_source.

(* The JSON names, their order and omitempty flags of the structs json.Marshal works from, re-read on
   every run (spec.Artifact from the repository, the image-spec structs from the module cache at the
   version of go.mod), are the ones the modelled encoder writes. *)
Theorem C19_json_struct_tags_as_in_source :
  Artifact_json_tags =
    [(b "mediaType", false); (b "artifactType", false); (b "blobs", true); (b "subject", true); (b "annotations", true)] /\
  Manifest_json_tags =
    [(b "<embedded specs.Versioned>", false); (b "mediaType", true); (b "artifactType", true); (b "config", false);
     (b "layers", false); (b "subject", true); (b "annotations", true)] /\
  Versioned_json_tags = [(b "schemaVersion", false)] /\
  Descriptor_json_tags =
    [(b "mediaType", false); (b "digest", false); (b "size", false); (b "urls", true); (b "annotations", true);
     (b "data", true); (b "platform", true); (b "artifactType", true)] /\
  Platform_json_tags =
    [(b "architecture", false); (b "os", false); (b "os.version", true); (b "os.features", true); (b "variant", true)].
Proof. exact json_tags_as_modelled. Qed.
Print Assumptions C19_json_struct_tags_as_in_source.

(* Every decision of the modelled functions of pack.go, as source text, re-read on every run. *)
Theorem C19_decisions_as_in_source :
  conds_PackManifest =
    [b "case PackManifestVersion1_0";
     b "case PackManifestVersion1_1";
     b "default"] /\
  conds_Pack =
    [b "opts.PackImageManifest"] /\
  conds_packArtifact =
    [b "artifactType == """"";
     b "err != nil"] /\
  conds_packManifestV1_0 =
    [b "opts.Subject != nil";
     b "opts.ConfigDescriptor != nil";
     b "err := validateMediaType(opts.ConfigDescriptor.MediaType); err != nil";
     b "artifactType == """"";
     b "err := validateMediaType(artifactType); err != nil";
     b "err != nil";
     b "err != nil";
     b "opts.Layers == nil"] /\
  conds_packManifestV1_1_RC2 =
    [b "configMediaType == """"";
     b "opts.ConfigDescriptor != nil";
     b "err != nil";
     b "err != nil";
     b "layers == nil"] /\
  conds_packManifestV1_1 =
    [b "artifactType == """" && (opts.ConfigDescriptor == nil || opts.ConfigDescriptor.MediaType == ocispec.MediaTypeEmptyJSON)";
     b "artifactType != """"";
     b "err := validateMediaType(artifactType); err != nil";
     b "opts.ConfigDescriptor != nil";
     b "err := validateMediaType(opts.ConfigDescriptor.MediaType); err != nil";
     b "err := pushIfNotExist(ctx, pusher, configDesc, configBytes); err != nil";
     b "err != nil";
     b "len(opts.Layers) == 0";
     b "!emptyBlobExists";
     b "err := pushIfNotExist(ctx, pusher, layerDesc, layerData); err != nil"] /\
  conds_pushIfNotExist =
    [b "ros, ok := pusher.(content.ReadOnlyStorage); ok";
     b "err != nil";
     b "exists";
     b "err := pusher.Push(ctx, desc, bytes.NewReader(data)); err != nil && !errors.Is(err, errdef.ErrAlreadyExists)"] /\
  conds_pushManifest =
    [b "err != nil";
     b "err := pusher.Push(ctx, manifestDesc, bytes.NewReader(manifestJSON)); err != nil && !errors.Is(err, errdef.ErrAlreadyExists)"] /\
  conds_pushCustomEmptyConfig =
    [b "err := pushIfNotExist(ctx, pusher, configDesc, configBytes); err != nil"] /\
  conds_ensureAnnotationCreated =
    [b "createdTime, ok := annotations[annotationCreatedKey]; ok";
     b "err := validateRFC3339(createdTime); err != nil"] /\
  conds_validateMediaType =
    [b "!mediaTypeRegexp.MatchString(mediaType)"].
Proof. exact decisions_as_modelled. Qed.
Print Assumptions C19_decisions_as_in_source.

(* Every call of PackManifest / Pack ends in exactly one of five ways (rejected before any
   storage operation / malformed created / storage fault while handling "{}" / storage
   fault on the manifest push / success); this is the invariant the other theorems unfold. *)
Theorem C19_outcome :
  forall (marshal : manifest -> str) (H : str -> str), H empty_json = empty_json_digest ->
  forall f tc fa s at_ o now s' r,
    pack marshal H f tc fa s at_ o now = (s', r) -> outcome marshal H f tc fa s at_ o now s' r.
Proof. exact pack_outcome. Qed.
Print Assumptions C19_outcome.

(* Media types violating RFC 6838, a subject for version 1.0, a missing artifact type and
   an unknown version are rejected with the state untouched: no Exists, no Push, same store. *)
Theorem C19_reject_before_push :
  forall (marshal : manifest -> str) (H : str -> str), H empty_json = empty_json_digest ->
  forall f tc fa s at_ o now,
    must_reject f at_ o = true ->
    exists e, pack marshal H f tc fa s at_ o now = (s, Err e) /\ validation_err e.
Proof. exact reject_before_push. Qed.
Print Assumptions C19_reject_before_push.

(* ... with exactly the error the order of the checks in the source gives. *)
Theorem C19_reject_exact_error :
  forall (marshal : manifest -> str) (H : str -> str),
  forall f tc fa s at_ o now,
    must_reject f at_ o = true ->
    pack marshal H f tc fa s at_ o now = (s, Err (reject_err f at_ o)).
Proof. exact reject_exact. Qed.
Print Assumptions C19_reject_exact_error.

(* Progress: on a target that does not fail (no injected fault; not a file store, which may refuse a
   taken name) the input alone decides: rejected / malformed created / success.  A valid input succeeds. *)
Theorem C19_healthy_target_classification :
  forall (marshal : manifest -> str) (H : str -> str), H empty_json = empty_json_digest ->
  forall f tc s at_ o now s' r,
    t_key tc <> KFile ->
    pack marshal H f tc None s at_ o now = (s', r) ->
    (must_reject f at_ o = true /\ exists e, r = Err e /\ validation_err e /\ s' = s) \/
    (must_reject f at_ o = false /\ ensure_created (o_ann o) (created_key f) now = None /\ r = Err EInvalidDateTime) \/
    (must_reject f at_ o = false /\
     exists ann, ensure_created (o_ann o) (created_key f) now = Some ann /\
                 r = Ok (result_desc marshal H f (requested_manifest H f at_ o ann)) (requested_manifest H f at_ o ann)).
Proof. exact healthy_target_classification. Qed.
Print Assumptions C19_healthy_target_classification.

Theorem C19_valid_input_succeeds :
  forall (marshal : manifest -> str) (H : str -> str), H empty_json = empty_json_digest ->
  forall f tc s at_ o now ann s' r,
    t_key tc <> KFile ->
    must_reject f at_ o = false ->
    ensure_created (o_ann o) (created_key f) now = Some ann ->
    pack marshal H f tc None s at_ o now = (s', r) ->
    r = Ok (result_desc marshal H f (requested_manifest H f at_ o ann)) (requested_manifest H f at_ o ann).
Proof. exact valid_input_succeeds. Qed.
Print Assumptions C19_valid_input_succeeds.

(* ... and those errors never occur after a storage operation; a success implies that
   nothing had to be rejected. *)
Theorem C19_validation_error_only_before_push :
  forall (marshal : manifest -> str) (H : str -> str), H empty_json = empty_json_digest ->
  forall f tc fa s at_ o now s' e,
    pack marshal H f tc fa s at_ o now = (s', Err e) -> validation_err e ->
    s' = s /\ must_reject f at_ o = true.
Proof. exact validation_error_only_before_push. Qed.
Print Assumptions C19_validation_error_only_before_push.

Theorem C19_ok_not_rejected :
  forall (marshal : manifest -> str) (H : str -> str), H empty_json = empty_json_digest ->
  forall f tc fa s at_ o now s' d m,
    pack marshal H f tc fa s at_ o now = (s', Ok d m) -> must_reject f at_ o = false.
Proof. exact ok_not_rejected. Qed.
Print Assumptions C19_ok_not_rejected.

(* A created annotation that time.Parse(RFC3339) refuses: the call fails (with
   ErrInvalidDateTimeFormat unless it was rejected earlier, a storage fault was injected or the target is a
   file store, which may refuse a titled config first),
   every storage operation concerned the blob "{}" (no manifest push), and the store gained
   at most entries whose content is "{}". *)
Theorem C19_bad_created_no_manifest :
  forall (marshal : manifest -> str) (H : str -> str), H empty_json = empty_json_digest ->
  forall f tc fa s at_ o now s' r v,
    ann_get (created_key f) (o_ann o) = Some v -> rfc3339_ok v = false ->
    pack marshal H f tc fa s at_ o now = (s', r) ->
    (exists e, r = Err e /\ (must_reject f at_ o = false -> fa = None -> t_key tc <> KFile -> e = EInvalidDateTime)) /\
    (exists evs, steps s s' evs /\ Forall (blob_ev H) evs) /\
    only_empty_blob_added H (s_store s) (s_store s').
Proof. exact bad_created_no_manifest. Qed.
Print Assumptions C19_bad_created_no_manifest.

(* The created validation accepts exactly the RFC 3339 section 5.6 date-times written with
   upper-case "T"/"Z" and without leap second (field ranges and month lengths included) ... *)
Theorem C19_created_grammar :
  forall s, rfc3339_ok s = true <-> RFC3339_go s.
Proof. exact rfc3339_ok_spec. Qed.
Print Assumptions C19_created_grammar.

(* The model of validateRFC3339 is literally the code: time.Parse(time.RFC3339, v) (lenient
   recogniser) followed by the explicit checks translated from pack.go on every run; those checks
   are the three expected ones, and the combination equals the strict structural recogniser. *)
Theorem C19_created_validation_as_in_source :
  validateRFC3339_checks = expected_strict_checks /\ validateRFC3339_checks_layout = b "time.RFC3339".
Proof. exact strict_checks_as_modelled. Qed.
Print Assumptions C19_created_validation_as_in_source.

Theorem C19_created_validation_is_strict :
  forall s, rfc3339_ok s = rfc3339_gen true s.
Proof. exact rfc3339_ok_is_strict. Qed.
Print Assumptions C19_created_validation_is_strict.

(* Go panics on an index out of range; the model's [nth] would answer 0.  On every string time.Parse
   accepts, every index the three checks evaluate (in Go's order, short-circuits included) is in range. *)
Theorem C19_strict_checks_in_range :
  forall s, rfc3339_gen false s = true -> switch_safe s expected_strict_checks = true.
Proof. exact strict_checks_in_range. Qed.
Print Assumptions C19_strict_checks_in_range.

(* The calendar that recogniser and grammar share, read independently: the month table, the
   Gregorian leap rule, 365/366 days a year. *)
Theorem C19_calendar :
  (forall m y, 1 <= m <= 12 ->
     days_in m y = nth (N.to_nat m - 1) month_table 0 + (if (m =? 2) && is_leap y then 1 else 0)) /\
  (forall y, is_leap y = true <-> (y mod 4 = 0 /\ (y mod 100 <> 0 \/ y mod 400 = 0))) /\
  (forall y, days_in 1 y + days_in 2 y + days_in 3 y + days_in 4 y + days_in 5 y + days_in 6 y + days_in 7 y +
             days_in 8 y + days_in 9 y + days_in 10 y + days_in 11 y + days_in 12 y = if is_leap y then 366 else 365).
Proof. exact (conj days_in_table (conj is_leap_gregorian year_length)). Qed.
Print Assumptions C19_calendar.

(* ... hence refuses everything that is not an RFC 3339 date-time ... *)
Theorem C19_malformed_created_refused :
  forall s, ~ RFC3339 s -> rfc3339_ok s = false.
Proof. exact malformed_refused. Qed.
Print Assumptions C19_malformed_created_refused.

(* ... so a created annotation that is not RFC 3339 gives an error and no manifest push. *)
Theorem C19_malformed_created_no_manifest :
  forall (marshal : manifest -> str) (H : str -> str), H empty_json = empty_json_digest ->
  forall f tc fa s at_ o now s' r v,
    ann_get (created_key f) (o_ann o) = Some v -> ~ RFC3339 v ->
    pack marshal H f tc fa s at_ o now = (s', r) ->
    (exists e, r = Err e /\ (must_reject f at_ o = false -> fa = None -> t_key tc <> KFile -> e = EInvalidDateTime)) /\
    (exists evs, steps s s' evs /\ Forall (blob_ev H) evs) /\
    only_empty_blob_added H (s_store s) (s_store s').
Proof. exact malformed_created_no_manifest. Qed.
Print Assumptions C19_malformed_created_no_manifest.

(* History: before the fix recorded in known_findings.d/C19.json the validation was
   time.Parse(time.RFC3339, _) alone (rfc3339_ok_prefix), which takes strings that are not
   RFC 3339 -- the witness has a one-digit hour; replayed on the pre-fix tree it is accepted
   and ends up in the pushed manifest (corpus/C19/created-lenient.json). *)
Theorem C19_created_prefix_refuted :
  exists s, rfc3339_ok_prefix s = true /\ ~ RFC3339 s.
Proof. exact prefix_refuted. Qed.
Print Assumptions C19_created_prefix_refuted.

(* Success: the manifest is exactly the requested one (placeholders included), the
   descriptor is that of its bytes, the storage operations were operations on "{}" followed
   by the push of the manifest, the descriptor and every invented blob are in the target. *)
Theorem C19_consistent :
  forall (marshal : manifest -> str) (H : str -> str), H empty_json = empty_json_digest ->
  forall f tc fa s at_ o now s' d m,
    pack marshal H f tc fa s at_ o now = (s', Ok d m) ->
    exists ann evs,
      ensure_created (o_ann o) (created_key f) now = Some ann /\
      m = requested_manifest H f at_ o ann /\
      d = result_desc marshal H f m /\
      steps s s' (evs ++ [EvPush RManifest d (marshal m)]) /\ Forall (blob_ev H) evs /\
      stored (t_key tc) (s_store s') d = true /\
      Forall (fun x => stored (t_key tc) (s_store s') x = true) (invented H f at_ o).
Proof. exact ok_consistent. Qed.
Print Assumptions C19_consistent.

(* What can be read back.  json_roundtrip is the named premise about encoding/json: decoding the
   marshalled document gives it back with every string coerced to valid UTF-8 (utf8_san, executable,
   compared with encoding/json on every run).  The bytes stored under the returned descriptor decode
   to san_manifest of the requested manifest -- to the requested manifest itself exactly when its
   strings are valid UTF-8 (clean_manifest). *)
Theorem C19_stored_parses :
  forall (marshal : manifest -> str) (H : str -> str) (unmarshal : str -> option manifest),
    H empty_json = empty_json_digest -> (forall x y, H x = H y -> x = y) ->
    (forall m, unmarshal (marshal m) = Some (san_manifest m)) ->
  forall f tc fa s at_ o now s' d m,
    wf_store H (s_store s) ->
    pack marshal H f tc fa s at_ o now = (s', Ok d m) ->
    exists e, In e (s_store s') /\ same_key (t_key tc) d e = true /\
              unmarshal (e_bytes e) = Some (san_manifest m) /\
              (clean_manifest m -> unmarshal (e_bytes e) = Some m) /\
              (forall m', unmarshal (e_bytes e) = Some m' -> kind_mt (m_kind m') = d_mt d).
Proof. exact stored_parses. Qed.
Print Assumptions C19_stored_parses.

(* the media types PackManifest validated survive json.Marshal unchanged (they are ASCII) *)
Theorem C19_packmanifest_media_types_clean :
  forall (marshal : manifest -> str) (H : str -> str), H empty_json = empty_json_digest ->
  forall f tc fa s at_ o now s' d m,
    f = FV10 \/ f = FV11 ->
    pack marshal H f tc fa s at_ o now = (s', Ok d m) ->
    utf8_clean (m_at m) /\ forall c, m_config m = Some c -> utf8_clean (d_mt c).
Proof. exact pack_manifest_media_types_clean. Qed.
Print Assumptions C19_packmanifest_media_types_clean.

(* Known finding non-utf8-lossy: with a string that is not valid UTF-8 the clauses "exactly the
   requested ones" and "can be copied" fail.  Witness: Pack (rc2) with config media type a\xff/b on
   a memory target succeeds, the pushed config blob is keyed by the raw media type, the config
   descriptor of the manifest that is read back is not in the target. *)
Theorem C19_lossy_json_refuted :
  exists at_ o s' d m c,
    pack lossy_marshal lossy_H FRC2 (mkTcfg true KFull) None (init_state []) at_ o [50] = (s', Ok d m) /\
    m_config (san_manifest m) = Some c /\
    stored KFull (s_store s') c = false /\
    (exists c0, m_config m = Some c0 /\ stored KFull (s_store s') c0 = true).
Proof. exact lossy_json_refuted. Qed.
Print Assumptions C19_lossy_json_refuted.

(* Deviation from the property text: the rejection clauses hold for PackManifest only.  Pack
   (deprecated) validates nothing -- C19_reject_before_push is vacuous for it -- and succeeds with a
   media type that violates RFC 6838. *)
Theorem C19_pack_rejects_nothing_deviation :
  forall at_ o, must_reject FRC2 at_ o = false /\ must_reject FArtifact at_ o = false.
Proof. exact pack_rejects_nothing. Qed.
Print Assumptions C19_pack_rejects_nothing_deviation.

Theorem C19_pack_accepts_invalid_media_type_deviation :
  exists at_ o s' d m c,
    ~ RFC6838 at_ /\
    pack lossy_marshal lossy_H FRC2 (mkTcfg true KFull) None (init_state []) at_ o [50] = (s', Ok d m) /\
    m_config m = Some c /\ d_mt c = at_ /\ d_at d = at_ /\
    In (EvPush RBlob c empty_json) (s_events s').
Proof. exact pack_accepts_invalid_media_type. Qed.
Print Assumptions C19_pack_accepts_invalid_media_type_deviation.

(* The created annotation of the result exists and parses (the caller's value, or the clock's
   when the caller gave none); all other annotations are the caller's; the descriptor carries
   the manifest's annotations. *)
Theorem C19_created_filled :
  forall (marshal : manifest -> str) (H : str -> str), H empty_json = empty_json_digest ->
  forall f tc fa s at_ o now s' d m,
    rfc3339_ok now = true ->
    pack marshal H f tc fa s at_ o now = (s', Ok d m) ->
    (exists v, ann_get (created_key f) (m_ann m) = Some v /\ rfc3339_ok v = true /\
               (ann_get (created_key f) (o_ann o) = Some v \/
                ann_get (created_key f) (o_ann o) = None /\ v = now)) /\
    (forall k, k <> created_key f -> ann_get k (m_ann m) = ann_get k (o_ann o)) /\
    d_ann d = m_ann m.
Proof. exact ok_created. Qed.
Print Assumptions C19_created_filled.

(* The value Pack writes itself -- time.Now().UTC().Format(time.RFC3339), modelled on the broken-down
   UTC time (format_rfc3339_utc, compared with time.Format on every run) -- always passes Pack's own
   validation and is RFC 3339, for every valid civil time before the year 10000 ... *)
Theorem C19_clock_value_accepted :
  forall y mo d h mi s, civil_ok y mo d h mi s = true -> rfc3339_ok (format_rfc3339_utc y mo d h mi s) = true.
Proof. exact format_accepted. Qed.
Print Assumptions C19_clock_value_accepted.

(* ... so "a created timestamp filled in" needs no premise about the timestamp. *)
Theorem C19_created_filled_by_clock :
  forall (marshal : manifest -> str) (H : str -> str), H empty_json = empty_json_digest ->
  forall f tc fa s at_ o y mo d h mi sec s' dd m,
    civil_ok y mo d h mi sec = true ->
    pack marshal H f tc fa s at_ o (format_rfc3339_utc y mo d h mi sec) = (s', Ok dd m) ->
    (exists v, ann_get (created_key f) (m_ann m) = Some v /\ rfc3339_ok v = true /\ RFC3339 v /\
               (ann_get (created_key f) (o_ann o) = Some v \/
                ann_get (created_key f) (o_ann o) = None /\ v = format_rfc3339_utc y mo d h mi sec)) /\
    (forall k, k <> created_key f -> ann_get k (m_ann m) = ann_get k (o_ann o)) /\
    d_ann dd = m_ann m.
Proof. exact ok_created_clock. Qed.
Print Assumptions C19_created_filled_by_clock.

(* Digest, size and media type of the returned descriptor are those of the marshalled
   manifest, and the target holds under that descriptor content with that digest; for a
   collision-free digest, exactly those bytes and that size -- also when the manifest or a
   same-digest blob was already there (ErrAlreadyExists is swallowed). *)
Theorem C19_descriptor_describes_stored :
  forall (marshal : manifest -> str) (H : str -> str), H empty_json = empty_json_digest ->
  forall f tc fa s at_ o now s' d m,
    wf_store H (s_store s) ->
    pack marshal H f tc fa s at_ o now = (s', Ok d m) ->
    d_dg d = H (marshal m) /\ d_sz d = Z.of_nat (length (marshal m)) /\ d_mt d = kind_mt (m_kind m) /\
    exists e, In e (s_store s') /\ same_key (t_key tc) d e = true /\
              H (e_bytes e) = d_dg d /\
              ((forall x y, H x = H y -> x = y) -> e_bytes e = marshal m /\ e_sz e = d_sz d).
Proof. exact ok_descriptor_describes_stored. Qed.
Print Assumptions C19_descriptor_describes_stored.

(* Every blob Pack invented (empty config, placeholder layer) describes "{}" and is in the
   target with that content, whether pushed now or found there. *)
Theorem C19_invented_present :
  forall (marshal : manifest -> str) (H : str -> str), H empty_json = empty_json_digest ->
  forall f tc fa s at_ o now s' d m,
    wf_store H (s_store s) ->
    pack marshal H f tc fa s at_ o now = (s', Ok d m) ->
    forall x, In x (invented H f at_ o) ->
      d_dg x = H empty_json /\ d_sz x = 2%Z /\
      exists e, In e (s_store s') /\ same_key (t_key tc) x e = true /\ H (e_bytes e) = H empty_json /\
                ((forall a c, H a = H c -> a = c) -> e_bytes e = empty_json).
Proof. exact ok_invented_present. Qed.
Print Assumptions C19_invented_present.

(* Closure: every successor of the packed manifest is a descriptor the caller supplied or is
   present in the target -- the result can be copied as soon as the caller's own blobs are there. *)
Theorem C19_closed :
  forall (marshal : manifest -> str) (H : str -> str), H empty_json = empty_json_digest ->
  forall f tc fa s at_ o now s' d m,
    pack marshal H f tc fa s at_ o now = (s', Ok d m) ->
    forall x, In x (successors m) ->
      In x (supplied o) \/ stored (t_key tc) (s_store s') x = true.
Proof. exact ok_closed. Qed.
Print Assumptions C19_closed.

(* Schedules: on a healthy target (no fault, not a file store) the result of every call of a history is a
   function of that call's input alone (pure_result: the exact rejection error, ErrInvalidDateTimeFormat, or
   the descriptor and manifest) -- not of the target's content, of earlier calls or of the order; so the
   same calls made in any other order on any other healthy target return the same results, call for call. *)
Theorem C19_history_results_are_functions_of_the_calls :
  forall (marshal : manifest -> str) (H : str -> str), H empty_json = empty_json_digest ->
  forall tc cs s s' rs,
    t_key tc <> KFile ->
    run_calls marshal H tc None s cs = (s', rs) -> rs = map (pure_result marshal H) cs.
Proof. exact history_results_pure. Qed.
Print Assumptions C19_history_results_are_functions_of_the_calls.

Theorem C19_history_order_irrelevant :
  forall (marshal : manifest -> str) (H : str -> str), H empty_json = empty_json_digest ->
  forall tc1 tc2 cs cs' s1 s2 s1' s2' rs rs',
    t_key tc1 <> KFile -> t_key tc2 <> KFile ->
    Permutation cs cs' ->
    run_calls marshal H tc1 None s1 cs = (s1', rs) ->
    run_calls marshal H tc2 None s2 cs' = (s2', rs') ->
    Permutation rs rs' /\ (forall c r, In (c, r) (combine cs rs) -> In (c, r) (combine cs' rs')).
Proof. exact history_order_irrelevant. Qed.
Print Assumptions C19_history_order_irrelevant.

(* "so the result can be copied": with the caller's own descriptors present in the target, the new
   manifest and every successor of it answer Exists afterwards (source closed one level down from the
   new root; deeper levels are the caller's graph).  CopyGraph itself stays the harness oracle. *)
Theorem C19_closed_when_supplied_present :
  forall (marshal : manifest -> str) (H : str -> str), H empty_json = empty_json_digest ->
  forall f tc fa s at_ o now s' d m,
    Forall (fun x => stored (t_key tc) (s_store s) x = true) (supplied o) ->
    pack marshal H f tc fa s at_ o now = (s', Ok d m) ->
    stored (t_key tc) (s_store s') d = true /\
    Forall (fun x => stored (t_key tc) (s_store s') x = true) (successors m).
Proof. exact ok_closed_when_supplied_present. Qed.
Print Assumptions C19_closed_when_supplied_present.

(* Histories: any sequence of Pack / PackManifest calls on one target (any mix of packers, inputs,
   failures, one fault somewhere).  Content-addressed stores stay so, and whatever an earlier call
   returned is still there after all later calls. *)
Theorem C19_history_store_stays_content_addressed :
  forall (marshal : manifest -> str) (H : str -> str), H empty_json = empty_json_digest ->
  forall tc fa cs s s' rs,
    run_calls marshal H tc fa s cs = (s', rs) -> wf_store H (s_store s) -> wf_store H (s_store s').
Proof. exact history_preserves_wf. Qed.
Print Assumptions C19_history_store_stays_content_addressed.

Theorem C19_history_results_stay :
  forall (marshal : manifest -> str) (H : str -> str), H empty_json = empty_json_digest ->
  forall tc fa cs s s' rs d m,
    wf_store H (s_store s) ->
    run_calls marshal H tc fa s cs = (s', rs) ->
    In (Ok d m) rs ->
    stored (t_key tc) (s_store s') d = true /\
    d_dg d = H (marshal m) /\
    exists e, In e (s_store s') /\ same_key (t_key tc) d e = true /\ H (e_bytes e) = H (marshal m) /\
              ((forall x y, H x = H y -> x = y) -> e_bytes e = marshal m).
Proof. exact history_results_stay. Qed.
Print Assumptions C19_history_results_stay.

(* Whatever Pack pushes describes its own content, so content-addressed stores stay so. *)
Theorem C19_store_stays_content_addressed :
  forall (marshal : manifest -> str) (H : str -> str), H empty_json = empty_json_digest ->
  forall f tc fa s at_ o now s' r,
    pack marshal H f tc fa s at_ o now = (s', r) -> wf_store H (s_store s) -> wf_store H (s_store s').
Proof. exact pack_preserves_wf. Qed.
Print Assumptions C19_store_stays_content_addressed.

(* Which storage operations a call issues: Exists / Push of "{}" for descriptors Pack invented --
   nothing else -- and then, at most, the push of the manifest. *)
Theorem C19_operations_of_a_successful_call :
  forall (marshal : manifest -> str) (H : str -> str), H empty_json = empty_json_digest ->
  forall f tc fa s at_ o now s' d m,
    pack marshal H f tc fa s at_ o now = (s', Ok d m) ->
    exists evs, s_events s' = s_events s ++ evs ++ [EvPush RManifest d (marshal m)] /\
                Forall (inv_ev H f at_ o) evs.
Proof. exact ok_operations. Qed.
Print Assumptions C19_operations_of_a_successful_call.

Theorem C19_operations_of_a_failed_call :
  forall (marshal : manifest -> str) (H : str -> str), H empty_json = empty_json_digest ->
  forall f tc fa s at_ o now s' e,
    pack marshal H f tc fa s at_ o now = (s', Err e) ->
    exists evs, Forall (inv_ev H f at_ o) evs /\
                (s_events s' = s_events s ++ evs \/
                 exists d m, s_events s' = s_events s ++ evs ++ [EvPush RManifest d (marshal m)]).
Proof. exact err_operations. Qed.
Print Assumptions C19_operations_of_a_failed_call.

(* Idempotence ("targets that already hold the blobs"): on a memory store, an OCI layout or a registry,
   with or without Exists and whatever they held before, repeating a successful call with a fixed created
   annotation returns the same descriptor and manifest and leaves the store exactly as it was. *)
Theorem C19_repeat_call_changes_nothing :
  forall (marshal : manifest -> str) (H : str -> str), H empty_json = empty_json_digest ->
  forall f tc fa1 s at_ o now1 now2 s1 d m v s2 r2,
    t_key tc <> KFile ->
    ann_get (created_key f) (o_ann o) = Some v ->
    pack marshal H f tc fa1 s at_ o now1 = (s1, Ok d m) ->
    pack marshal H f tc None s1 at_ o now2 = (s2, r2) ->
    r2 = Ok d m /\ s_store s2 = s_store s1.
Proof. exact repeat_call_changes_nothing. Qed.
Print Assumptions C19_repeat_call_changes_nothing.

(* ... also after any number of other calls in between (a history): the repeat returns what the call
   returned the first time and stores nothing. *)
Theorem C19_history_repeat_changes_nothing :
  forall (marshal : manifest -> str) (H : str -> str), H empty_json = empty_json_digest ->
  forall tc c cs fa1 s s1 d m v sB rsB now' sC r,
    t_key tc <> KFile ->
    ann_get (created_key (c_fn c)) (o_ann (c_opts c)) = Some v ->
    pack marshal H (c_fn c) tc fa1 s (c_at c) (c_opts c) (c_now c) = (s1, Ok d m) ->
    run_calls marshal H tc None s1 cs = (sB, rsB) ->
    pack marshal H (c_fn c) tc None sB (c_at c) (c_opts c) now' = (sC, r) ->
    r = Ok d m /\ s_store sC = s_store sB.
Proof. exact history_repeat_changes_nothing. Qed.
Print Assumptions C19_history_repeat_changes_nothing.

(* ... and the premise is needed: a file store refuses to write a named manifest twice. *)
Theorem C19_repeat_call_file_store_refuted :
  exists o s1 d m s2,
    ann_get (created_key FArtifact) (o_ann o) = Some (b "2021-07-01T12:00:00Z") /\
    pack lossy_marshal lossy_H FArtifact (mkTcfg true KFile) None (init_state []) [] o [50] = (s1, Ok d m) /\
    pack lossy_marshal lossy_H FArtifact (mkTcfg true KFile) None s1 [] o [50] = (s2, Err EInjected).
Proof. exact repeat_call_file_store_refuted. Qed.
Print Assumptions C19_repeat_call_file_store_refuted.

(* Identical inputs with a fixed created annotation give the identical descriptor and
   manifest on any two targets, contents, clocks and fault plans. *)
Theorem C19_deterministic :
  forall (marshal : manifest -> str) (H : str -> str), H empty_json = empty_json_digest ->
  forall f at_ o v tc1 fa1 s1 now1 s1' d1 m1 tc2 fa2 s2 now2 s2' d2 m2,
    ann_get (created_key f) (o_ann o) = Some v ->
    pack marshal H f tc1 fa1 s1 at_ o now1 = (s1', Ok d1 m1) ->
    pack marshal H f tc2 fa2 s2 at_ o now2 = (s2', Ok d2 m2) ->
    d1 = d2 /\ m1 = m2.
Proof. exact deterministic. Qed.
Print Assumptions C19_deterministic.

(* Go maps carry no order and json.Marshal writes map keys sorted (hypothesis marshal_perm): listing
   the same manifest annotations in another order gives the same digest, size and media type, and
   the same descriptor up to the order of its annotations. *)
Theorem C19_annotation_order_independent :
  forall (marshal : manifest -> str) (H : str -> str), H empty_json = empty_json_digest ->
  (forall k c l sj a ann ann',
      NoDup (map fst ann) -> Permutation ann ann' ->
      marshal (mkManifest k c l sj a ann) = marshal (mkManifest k c l sj a ann')) ->
  forall f at_ o o' v tc1 fa1 s1 now1 s1' d1 m1 tc2 fa2 s2 now2 s2' d2 m2,
    NoDup (map fst (o_ann o)) -> Permutation (o_ann o) (o_ann o') -> same_but_ann o o' ->
    ann_get (created_key f) (o_ann o) = Some v ->
    pack marshal H f tc1 fa1 s1 at_ o now1 = (s1', Ok d1 m1) ->
    pack marshal H f tc2 fa2 s2 at_ o' now2 = (s2', Ok d2 m2) ->
    d_dg d1 = d_dg d2 /\ d_sz d1 = d_sz d2 /\ d_mt d1 = d_mt d2 /\ d_at d1 = d_at d2 /\
    d_extra d1 = d_extra d2 /\ Permutation (d_ann d1) (d_ann d2) /\
    m_config m1 = m_config m2 /\ m_layers m1 = m_layers m2 /\ m_subject m1 = m_subject m2 /\ m_at m1 = m_at m2.
Proof. exact deterministic_perm. Qed.
Print Assumptions C19_annotation_order_independent.

(* json.Marshal itself is modelled (Model/PackEnc.v json_manifest: struct field order, omitempty,
   string escaping, sorted map keys, base64; compared byte for byte with the stored manifest on every
   run).  For it the order independence is a theorem, not a premise: the marshalled bytes, hence digest
   and size, do not depend on the order in which a map's entries are listed ... *)
Theorem C19_json_marshal_order_independent :
  forall k c l sj a ann ann',
    NoDup (map fst ann) -> Permutation ann ann' ->
    json_manifest (mkManifest k c l sj a ann) = json_manifest (mkManifest k c l sj a ann').
Proof. exact json_manifest_perm. Qed.
Print Assumptions C19_json_marshal_order_independent.

(* For strings the json round trip is a theorem about the modelled encoder: reading back (json_unesc,
   the inverse escapes of encoding/json) what json.Marshal wrote gives exactly the UTF-8 coercion of
   the string -- the string itself when it is valid UTF-8 -- and clean strings never collide. *)
Theorem C19_json_string_roundtrip :
  forall s, json_unesc (json_esc s) = Some (utf8_san s).
Proof. exact json_string_roundtrip. Qed.
Print Assumptions C19_json_string_roundtrip.

Theorem C19_json_string_injective_on_valid_utf8 :
  forall s t, utf8_san s = s -> utf8_san t = t -> json_esc s = json_esc t -> s = t.
Proof. exact json_esc_injective_clean. Qed.
Print Assumptions C19_json_string_injective_on_valid_utf8.

(* The annotations object of a manifest (json_ann: sorted keys, escaped strings) reads back -- read_obj,
   encoding/json's object syntax on what the encoder produces -- as the requested annotations, coerced to
   UTF-8, in key order, whatever follows it in the document: for the part of the manifest the caller
   controls freely the premise json_roundtrip is a theorem. *)
Theorem C19_json_annotations_roundtrip :
  forall l rest, read_obj (json_ann l ++ rest) = Some (san_ann (kv_sort l), rest).
Proof. exact json_ann_roundtrip. Qed.
Print Assumptions C19_json_annotations_roundtrip.

(* "those bytes parse as a manifest of the returned media type", for the modelled json.Marshal and
   without the premise json_roundtrip: reading the head of the document (doc_media_type / doc_artifact_type:
   the mediaType field, after "schemaVersion":2 when present, and the artifactType field next to it) ... *)
Theorem C19_document_declares_media_type :
  forall m, doc_media_type (json_manifest m) = Some (kind_mt (m_kind m)).
Proof. exact doc_media_type_json. Qed.
Print Assumptions C19_document_declares_media_type.

Theorem C19_document_declares_artifact_type :
  forall m, doc_artifact_type (json_manifest m) =
            match m_kind m, m_at m with KImage, [] => None | _, a => Some (utf8_san a) end.
Proof. exact doc_artifact_type_json. Qed.
Print Assumptions C19_document_declares_artifact_type.

(* Numbers: the decimal json.Marshal writes for a natural number reads back as that number ... *)
Theorem C19_json_number_roundtrip :
  forall n rest,
    n < pow10 40 ->
    match rest with c :: _ => is_digit c = false | [] => True end ->
    read_digits (json_nat n ++ rest) 0 = (n, rest).
Proof. exact read_json_nat. Qed.
Print Assumptions C19_json_number_roundtrip.

(* ... and an image manifest document declares the requested config descriptor: its media type and digest
   (coerced to UTF-8) and its size, read from the head of "config":{...} *)
Theorem C19_document_declares_config :
  forall m c n,
    m_kind m = KImage -> m_config m = Some c -> d_sz c = Z.of_N n -> n < pow10 40 ->
    doc_config_head (json_manifest m) = Some (utf8_san (d_mt c), utf8_san (d_dg c), n).
Proof. exact doc_config_head_json. Qed.
Print Assumptions C19_document_declares_config.

(* ... so the document stored under the returned descriptor declares that descriptor's media type and
   the requested artifact type (for a collision-free digest). *)
Theorem C19_stored_document_declares :
  forall (H : str -> str), H empty_json = empty_json_digest -> (forall x y, H x = H y -> x = y) ->
  forall f tc fa s at_ o now s' d m,
    wf_store H (s_store s) ->
    pack json_manifest H f tc fa s at_ o now = (s', Ok d m) ->
    exists e, In e (s_store s') /\ same_key (t_key tc) d e = true /\
              doc_media_type (e_bytes e) = Some (d_mt d) /\
              doc_artifact_type (e_bytes e) =
                match m_kind m, m_at m with KImage, [] => None | _, a => Some (utf8_san a) end.
Proof. exact stored_document_declares. Qed.
Print Assumptions C19_stored_document_declares.

(* ... so Pack with the real marshalling is independent of the order of the manifest annotations. *)
Theorem C19_annotation_order_independent_json :
  forall (H : str -> str), H empty_json = empty_json_digest ->
  forall f at_ o o' v tc1 fa1 s1 now1 s1' d1 m1 tc2 fa2 s2 now2 s2' d2 m2,
    NoDup (map fst (o_ann o)) -> Permutation (o_ann o) (o_ann o') -> same_but_ann o o' ->
    ann_get (created_key f) (o_ann o) = Some v ->
    pack json_manifest H f tc1 fa1 s1 at_ o now1 = (s1', Ok d1 m1) ->
    pack json_manifest H f tc2 fa2 s2 at_ o' now2 = (s2', Ok d2 m2) ->
    d_dg d1 = d_dg d2 /\ d_sz d1 = d_sz d2 /\ d_mt d1 = d_mt d2 /\ d_at d1 = d_at d2 /\
    d_extra d1 = d_extra d2 /\ Permutation (d_ann d1) (d_ann d2) /\
    json_manifest m1 = json_manifest m2.
Proof. exact deterministic_perm_json. Qed.
Print Assumptions C19_annotation_order_independent_json.

(* The executable instance: json.Marshal (Model/PackEnc.v) and digest.FromBytes (SHA-256, Model/PackSha.v)
   are both modelled and compared with the implementation (stored bytes, descriptor size and, on a sample,
   the descriptor digest).  The one hypothesis about the digest holds for it by computation, so every
   theorem above applies to it; in particular the returned descriptor is computed by the model. *)
Theorem C19_sha256_of_empty_json :
  digest_of empty_json = empty_json_digest.
Proof. exact digest_of_empty_json. Qed.
Print Assumptions C19_sha256_of_empty_json.

Theorem C19_executable_instance_consistent :
  forall f tc fa s at_ o now s' d m,
    pack json_manifest digest_of f tc fa s at_ o now = (s', Ok d m) ->
    exists ann,
      ensure_created (o_ann o) (created_key f) now = Some ann /\
      m = requested_manifest digest_of f at_ o ann /\
      d_dg d = digest_of (json_manifest m) /\
      d_sz d = Z.of_nat (length (json_manifest m)) /\
      d_mt d = kind_mt (m_kind m) /\ d_ann d = m_ann m /\
      stored (t_key tc) (s_store s') d = true.
Proof. exact executable_instance_consistent. Qed.
Print Assumptions C19_executable_instance_consistent.

(* ---------- the hypotheses are satisfiable, the statements are not vacuous ---------- *)

(* a digest function with H "{}" = the image-spec constant, and collision-free *)
Definition toyH : str -> str := lossy_H.
Definition toy_marshal (m : manifest) : str :=
  b "manifest:" ++ m_at m ++ concat (map (fun kv => fst kv ++ snd kv) (m_ann m)).

Example toyH_empty : toyH empty_json = empty_json_digest.
Proof. reflexivity. Qed.

Example toyH_injective : forall x y, toyH x = toyH y -> x = y.
Proof. exact lossy_H_injective. Qed.

(* a marshal that satisfies marshal_perm (it ignores the annotations' order: it drops them) *)
Example toy_marshal_perm_satisfiable :
  let mar := fun m : manifest => b "manifest:" ++ m_at m in
  forall k c l sj a ann ann', NoDup (map fst ann) -> Permutation ann ann' ->
    mar (mkManifest k c l sj a ann) = mar (mkManifest k c l sj a ann').
Proof. reflexivity. Qed.

Definition ex_layer : desc := mkDesc (b "application/octet-stream") (b "sha256:aa") 5 [] [] no_extra.

(* v1.1, no config, no layers, target with Exists keyed by digest: Exists, push "{}", push manifest *)
Example ex_ok :
  exists s' d m,
    pack toy_marshal toyH FV11 (mkTcfg true KDigest) None (init_state []) (b "application/vnd.example")
         (mkOpts None None [] None []) (b "2024-02-29T12:00:00Z") = (s', Ok d m) /\
    length (s_events s') = 3%nat /\ length (s_store s') = 2%nat /\
    m_layers m = Some [DescriptorEmptyJSON] /\ wf_store toyH (s_store s').
Proof.
  eexists _, _, _. split; [vm_compute; reflexivity|]. repeat split; try reflexivity.
  repeat constructor.
Qed.

(* v1.0 with a subject, or an artifact type with a space, must be rejected *)
Example ex_reject :
  must_reject FV10 [] (mkOpts (Some ex_layer) None [] None []) = true /\
  must_reject FV11 (b "application/x y") (mkOpts None None [] None []) = true /\
  must_reject FV11 [] (mkOpts None (Some [ex_layer]) [] None []) = true /\
  must_reject FV11 (b "application/vnd.example") (mkOpts None None [] None []) = false.
Proof. vm_compute. repeat split; reflexivity. Qed.

(* a malformed created annotation (not a leap year) after a config push *)
Example ex_bad_created :
  let o := mkOpts None None [(AnnotationCreated, b "2023-02-29T12:00:00Z")] None [] in
  ann_get (created_key FV10) (o_ann o) = Some (b "2023-02-29T12:00:00Z") /\
  rfc3339_ok (b "2023-02-29T12:00:00Z") = false /\
  exists s', pack toy_marshal toyH FV10 (mkTcfg false KFull) None (init_state []) [] o (b "2024-02-29T12:00:00Z")
             = (s', Err EInvalidDateTime) /\ length (s_events s') = 1%nat.
Proof. vm_compute. repeat split; try reflexivity. eexists; split; reflexivity. Qed.

(* what the created validation takes and refuses, as the recogniser sees it *)
Example ex_times :
  rfc3339_ok (b "2006-01-02T15:04:05Z") = true /\
  rfc3339_ok (b "2024-02-29T23:59:59.5+07:30") = true /\
  rfc3339_ok (b "2006-01-02T1:04:05Z") = false /\        (* taken by time.Parse, not RFC 3339 *)
  rfc3339_ok (b "2006-01-02T15:04:05,5+24:60") = false /\ (* idem *)
  rfc3339_ok (b "2006-01-02t15:04:05z") = false /\
  rfc3339_ok (b "2006-01-02T15:04:60Z") = false /\
  rfc3339_ok (b "1900-02-29T00:00:00Z") = false /\
  rfc3339_ok (b "2006-01-02T15:04:05") = false.
Proof. vm_compute. repeat split; reflexivity. Qed.

Example ex_rfc3339 :
  RFC3339 (b "2024-02-29T23:59:59.5+07:30") /\ ~ RFC3339 (b "2006-01-02T1:04:05Z") /\
  RFC3339_go (b "2006-01-02T15:04:05Z").
Proof. exact rfc3339_examples. Qed.

(* other target kinds and a fault plan *)
Example ex_file_store_named_config :
  (exists s' d m, pack lossy_marshal lossy_H FV10 (mkTcfg true KFile) None (init_state []) []
                       (mkOpts None None [] None ex_titled_ann) [50] = (s', Ok d m) /\
                  map e_name (s_store s') = [b "cfg.json"; []]) /\
  (exists s', pack lossy_marshal lossy_H FV10 (mkTcfg true KFile) None (init_state [ex_named_entry (b "sha256:other")]) []
                   (mkOpts None None [] None ex_titled_ann) [50] = (s', Err EInjected) /\ length (s_events s') = 2%nat) /\
  (exists s' d m, pack lossy_marshal lossy_H FV10 (mkTcfg true KFile) None (init_state [ex_named_entry empty_json_digest]) []
                       (mkOpts None None [] None ex_titled_ann) [50] = (s', Ok d m) /\ length (s_events s') = 2%nat).
Proof. exact ex_file_store. Qed.

Example ex_registry_namespaces :
  stored KNamespace [mkEntry MediaTypeEmptyJSON empty_json_digest 2 empty_json []]
         (mkDesc MediaTypeImageManifest empty_json_digest 2 [] [] no_extra) = false /\
  stored KDigest [mkEntry MediaTypeEmptyJSON empty_json_digest 2 empty_json []]
         (mkDesc MediaTypeImageManifest empty_json_digest 2 [] [] no_extra) = true.
Proof. exact ex_registry_namespace. Qed.

Example ex_fault :
  exists s', pack lossy_marshal lossy_H FV11 (mkTcfg true KDigest) (Some 2%nat) (init_state []) (b "application/vnd.example")
                  (mkOpts None None [] None []) (b "2024-02-29T12:00:00Z") = (s', Err EInjected) /\
             length (s_events s') = 3%nat /\ length (s_store s') = 1%nat.
Proof. exact ex_fault_plan. Qed.

Example ex_media_types :
  RFC6838 (b "application/vnd.oci.image.manifest.v1+json") /\ ~ RFC6838 (b "application/x y") /\
  ~ RFC6838 (b "application") /\ ~ RFC6838 (b "a/b/c").
Proof.
  repeat split; [apply media_type_grammar; vm_compute; reflexivity | | | ];
    intro HR; apply media_type_grammar in HR; vm_compute in HR; discriminate.
Qed.
