From Oras Require Import Model.OciGC Proofs.OciGC.
Theorem C09_placeholder : True. Proof. exact placeholder_true. Qed.
Print Assumptions C09_placeholder.
