(* C09 -- OCI Delete / auto-GC / GC remove exactly the garbage, keep live data, terminate.
   Only statements closed by [exact]; definitions in Model/OciGC.v, lemmas in Proofs/OciGC.v.

   Universe (parameters of every theorem): [succ] = content.Successors, [subject] =
   manifestutil.Subject, [manifest] = descriptor.IsManifest of the stored bytes, with
     acyclic succ          : successors have smaller numbers (content addressing)
     subject_listed        : the subject is one of the successors
   Go's map iteration orders are the [ords]/[ord] arguments; the theorems hold for all of
   them ([same_elements]/[reorders] only say that an iteration visits the keys of the map). *)
From Coq Require Import List Arith Bool NArith.
Import ListNotations.
From Oras Require Import Model.OciGC Proofs.OciGC.
From Oras Require Model.GraphMem Proofs.GraphMem Proofs.OciGCGraph.

(* ---- GC ---- *)

(* On the source before the repair (F1) the subject walk of gcIndex has no exit: the model of
   the original loop returns "out of fuel" for every fuel, and GC hangs on
   push blob; push image; push referrer-of-image; GC. *)
Theorem C09_gc_terminates_refuted :
  (forall fuel, walk_orig subject_w [2; 1; 0] [] fuel 2 = None) /\
  snd (step succ_w subject_w manifest_w cfg_orig false (run_w cfg_orig [OPush 0; OPush 1; OPush 2]) OGC) = EHang.
Proof. exact gc_terminates_refuted_final. Qed.
Print Assumptions C09_gc_terminates_refuted.

(* GC of the repaired code returns Ok (never the fuel/hang result) in every state, for every
   iteration order of every pass. *)
Theorem C09_gc_terminates :
  forall succ subject manifest, acyclic succ -> subject_listed succ subject ->
  forall kl ords st, same_elements ords (candidates (idx st)) ->
  snd (gc succ subject manifest cfg_fixed kl ords st) = Ok.
Proof. exact gc_terminates_final. Qed.
Print Assumptions C09_gc_terminates.

(* GC keeps exactly the live set [Live]: the least set containing everything reachable
   (through stored content) from a tagged descriptor and, for every digest-indexed descriptor
   whose subject chain meets a live manifest, everything reachable from it (a blob named as
   subject keeps nothing alive).  Blob files and graph
   nodes afterwards = exactly Live; every tag is untouched; a live node's predecessors are
   exactly its live predecessors; stray files are removed iff they have a valid digest name in
   a known algorithm directory.  Independent of all iteration orders. *)
Theorem C09_gc_exact :
  forall succ subject manifest, acyclic succ -> subject_listed succ subject ->
  forall kl ords st, same_elements ords (candidates (idx st)) ->
  exists st',
    gc succ subject manifest cfg_fixed kl ords st = (st', Ok) /\
    (forall x, In x (blobs st') <-> In x (blobs st) /\ Live succ subject manifest st x) /\
    (forall x, In x (gnodes st') <-> Live succ subject manifest st x) /\
    (forall t n, In (RTag t, n) (idx st') <-> In (RTag t, n) (idx st)) /\
    (forall x p, In p (preds succ (gnodes st') x) <-> Live succ subject manifest st p /\ In x (succ p)) /\
    (forall s, In s (strays st') <-> In s (strays st) /\ (s_known s && s_valid s = false)) /\
    autogc st' = autogc st.
Proof. exact gc_exact_final. Qed.
Print Assumptions C09_gc_exact.

(* ... and the by-digest references after GC (the code as it is, kl = true): a descriptor is
   resolvable by digest afterwards iff it carries a tag, or it was resolvable by digest
   before and is live (swept content is never left listed; live content is never unlisted),
   or -- the one exception, found by the long-history stream -- it was resolvable by digest
   before, is a layer/config whose content is NOT stored and a live manifest lists it
   (graph.Exists is true for such leaves: IndexAll records them by reference; reachable only
   from an index.json that already named missing content, i.e. after AutoSaveIndex was off) *)
Theorem C09_gc_digest_refs :
  forall succ subject manifest, acyclic succ -> subject_listed succ subject ->
  forall ords st, same_elements ords (candidates (idx st)) ->
  let st' := fst (gc succ subject manifest cfg_fixed true ords st) in
  forall d r, In (RDig d, r) (idx st') <->
    d = r /\ ((exists t, In (RTag t, r) (idx st)) \/
              ((exists d', In (RDig d', r) (idx st)) /\
               (Live succ subject manifest st r \/
                (~ In r (blobs st) /\ manifest r = false /\
                 exists p, Live succ subject manifest st p /\ In r (succ p))))).
Proof. exact gc_digest_refs_final. Qed.
Print Assumptions C09_gc_digest_refs.

(* Before the repair (F13) one referrer pass made the result depend on the map order. *)
Theorem C09_gc_order_refuted :
  let st := run_w cfg_fixed [OPush 0; OPush 1; OPush 5; OPush 6; OPush 7; OTag 1 0] in
  In 7 (blobs (fst (gc succ_w subject_w manifest_w cfg_noF13 false (fun _ => [6; 7; 5]) st))) /\
  ~ In 7 (blobs (fst (gc succ_w subject_w manifest_w cfg_noF13 false (fun _ => [7; 6; 5]) st))) /\
  (forall n, In n [6; 7; 5] <-> In n (candidates (idx st))).
Proof. exact gc_noF13_order_dependent. Qed.
Print Assumptions C09_gc_order_refuted.

(* Reopening the store right after GC (index.json holds the rebuilt index) gives the same
   storage, the same references and the same graph, hence the same predecessors *)
Theorem C09_gc_reopen :
  forall succ subject manifest, acyclic succ -> subject_listed succ subject ->
  forall kl ords st st', same_elements ords (candidates (idx st)) ->
  gc succ subject manifest cfg_fixed kl ords st = (st', Ok) ->
  let st2 := fst (step succ subject manifest cfg_fixed kl st' OReopen) in
  blobs st2 = blobs st' /\ idx st2 = idx st' /\ strays st2 = strays st' /\
  (forall x, In x (gnodes st2) <-> In x (gnodes st')).
Proof. exact gc_reopen_final. Qed.
Print Assumptions C09_gc_reopen.

(* GC whose context is found done in the sweep, after [k] entries of the directory order
   [order] (the sweep tests the context before every entry; the index is rebuilt and saved
   before the sweep): the references and the graph are those of a complete GC, no live blob is
   removed, exactly the garbage among the handled entries is removed, the live set is the one
   before.  For every order of the directory, every k, every iteration order. *)
Theorem C09_gc_cancel_safe :
  forall succ subject manifest, acyclic succ -> subject_listed succ subject ->
  forall kl ords order k st, same_elements ords (candidates (idx st)) ->
  exists st',
    gc_cancel succ subject manifest cfg_fixed kl ords order k st = (st', ECanceled) /\
    idx st' = idx (fst (gc succ subject manifest cfg_fixed kl ords st)) /\
    gnodes st' = gnodes (fst (gc succ subject manifest cfg_fixed kl ords st)) /\
    (forall x, In x (gnodes st') <-> Live succ subject manifest st x) /\
    (forall x, In x (blobs st') <->
               In x (blobs st) /\ (Live succ subject manifest st x \/ swept_blob x (firstn k order) = false)) /\
    (forall s, In s (strays st') <->
               In s (strays st) /\ (s_known s && s_valid s = false \/
                                    swept_stray (s_id s) (firstn k order) = false)) /\
    autogc st' = autogc st /\
    (forall x, Live succ subject manifest st' x <-> Live succ subject manifest st x).
Proof. exact gc_cancel_final. Qed.
Print Assumptions C09_gc_cancel_safe.

(* a GC after a cancelled GC ends where the complete GC would have ended *)
Theorem C09_gc_resume :
  forall succ subject manifest, acyclic succ -> subject_listed succ subject ->
  forall kl ords order k st ords2,
  same_elements ords (candidates (idx st)) ->
  let sc := fst (gc_cancel succ subject manifest cfg_fixed kl ords order k st) in
  same_elements ords2 (candidates (idx sc)) ->
  let s1 := fst (gc succ subject manifest cfg_fixed kl ords st) in
  let s2 := fst (gc succ subject manifest cfg_fixed kl ords2 sc) in
  snd (gc succ subject manifest cfg_fixed kl ords2 sc) = Ok /\
  (forall x, In x (blobs s2) <-> In x (blobs s1)) /\
  (forall x, In x (gnodes s2) <-> In x (gnodes s1)) /\
  (forall t n, In (RTag t, n) (idx s2) <-> In (RTag t, n) (idx s1)).
Proof. exact gc_resume_final. Qed.
Print Assumptions C09_gc_resume.

(* GC is idempotent: a second GC removes nothing and keeps graph, tags and stray files *)
Theorem C09_gc_idempotent :
  forall succ subject manifest, acyclic succ -> subject_listed succ subject ->
  forall kl ords st ords2,
  same_elements ords (candidates (idx st)) ->
  let s1 := fst (gc succ subject manifest cfg_fixed kl ords st) in
  same_elements ords2 (candidates (idx s1)) ->
  let s2 := fst (gc succ subject manifest cfg_fixed kl ords2 s1) in
  (forall x, In x (blobs s2) <-> In x (blobs s1)) /\
  (forall x, In x (gnodes s2) <-> In x (gnodes s1)) /\
  (forall t n, In (RTag t, n) (idx s2) <-> In (RTag t, n) (idx s1)) /\
  (forall s, In s (strays s2) <-> In s (strays s1)).
Proof. exact gc_idempotent_final. Qed.
Print Assumptions C09_gc_idempotent.

(* ---- Delete ---- *)

(* Delete x with AutoGC on, x stored, in a state with [wfm] (graph nodes that are manifests or
   have a subject are stored; every state the store can reach: C09_persist_histories): for
   every iteration order it returns Ok and removes
   exactly [Gone]: the least set containing x, closed under "untagged manifest of the store
   whose subject (a manifest) was removed and all of whose holders were removed" and
   "untagged node of the store that had predecessors, all of which were removed" -- from the
   storage, from the graph and from the reference index: no reference to a removed node
   remains, every reference to a surviving node stays, the tags afterwards are exactly the
   tags of the nodes other than x, and the only new references are by-digest references of
   manifests (delete() lists a manifest that lost its last predecessor by its digest).  A holder of r is a
   predecessor that has r among its entries (manifests, layers, config, blobs): a referrer
   does not keep its subject alive through the subject field, every other link does. *)
Theorem C09_delete_exact :
  forall succ subject manifest, acyclic succ -> subject_listed succ subject ->
  forall st x, wfm subject manifest st -> autogc st = true -> In x (blobs st) ->
  forall ord, reorders ord ->
  exists st',
    delete succ subject manifest cfg_fixed ord st x = (st', Ok) /\
    (forall y, In y (blobs st') <-> In y (blobs st) /\ ~ Gone succ subject manifest st x y) /\
    (forall y, In y (gnodes st') <-> In y (gnodes st) /\ ~ Gone succ subject manifest st x y) /\
    (forall r n, In (r, n) (idx st') ->
       ~ Gone succ subject manifest st x n /\ (In (r, n) (idx st) \/ (r = RDig n /\ manifest n = true))) /\
    (forall r n, In (r, n) (idx st) -> ~ Gone succ subject manifest st x n -> In (r, n) (idx st')) /\
    (forall t n, In (RTag t, n) (idx st') <-> In (RTag t, n) (idx st) /\ n <> x) /\
    (forall r, ~ In (r, x) (idx st')) /\
    strays st' = strays st /\ autogc st' = autogc st /\
    (* exactly which by-digest references are new (when they name their own content, as in every
       reachable state): those of the surviving manifests of the graph that had predecessors,
       lost all of them to the cascade and had no by-digest reference *)
    ((forall d n, In (RDig d, n) (idx st) -> d = n) ->
     forall d, ~ In (RDig d, d) (idx st) ->
       (In (RDig d, d) (idx st') <->
        manifest d = true /\ In d (gnodes st) /\ ~ Gone succ subject manifest st x d /\
        (exists p, In p (gnodes st) /\ In d (succ p)) /\
        (forall p, In p (gnodes st) -> In d (succ p) -> Gone succ subject manifest st x p) /\
        (forall m, ~ In (RDig d, m) (idx st)))).
Proof. exact delete_exact_final. Qed.
Print Assumptions C09_delete_exact.

(* the work queue is exhausted within its fuel: Delete terminates *)
Theorem C09_delete_queue_terminates :
  forall succ subject manifest, acyclic succ -> subject_listed succ subject ->
  forall st x, wfm subject manifest st -> autogc st = true -> In x (blobs st) ->
  forall ord, reorders ord ->
  snd (delete succ subject manifest cfg_fixed ord st x) <> EHang.
Proof. exact delete_terminates_final. Qed.
Print Assumptions C09_delete_queue_terminates.

(* What the cascade never takes: a tagged node; a node outside the store's graph; a node
   that a surviving node still lists: every predecessor that has the removed node among its
   entries (manifests, layers, config, blobs -- [entries] = content.Successors minus the
   subject field; a node that is both subject and entry counts) is removed as well. *)
Theorem C09_delete_never :
  forall succ subject manifest st x y,
  Gone succ subject manifest st x y -> y <> x ->
  is_tagged st y = false /\ In y (gnodes st) /\
  (forall p, In p (gnodes st) -> In y (entries succ subject p) ->
             Gone succ subject manifest st x p).
Proof. exact delete_never_final. Qed.
Print Assumptions C09_delete_never.

(* Before the repair of the referrer rule: the referrer 2 of the deleted manifest 1 is removed
   although the surviving tagged index 4 lists it (repaired: 2 and 4 stay) *)
Theorem C09_delete_surviving_pred_refuted :
  let st := run_w cfg_fixed [OPush 0; OPush 1; OPush 2; OPush 4; OTag 4 0] in
  let st' := fst (delete succ_w subject_w manifest_w cfg_noHold ord_id st 1) in
  let fx' := fst (delete succ_w subject_w manifest_w cfg_fixed ord_id st 1) in
  snd (delete succ_w subject_w manifest_w cfg_noHold ord_id st 1) = Ok /\
  ~ In 2 (blobs st') /\ In 4 (gnodes st') /\ In 2 (succ_w 4) /\ subject_w 4 = None /\
  blobs fx' = [4; 2; 0].
Proof. exact delete_referrer_still_linked. Qed.
Print Assumptions C09_delete_surviving_pred_refuted.

(* AutoGC off: exactly the target (content, graph node, every reference to it); [del_idx] =
   the references not to x, plus a by-digest reference for every manifest that lost its last
   predecessor and had none *)
Theorem C09_delete_plain :
  forall succ subject manifest st x ord,
  reorders ord -> autogc st = false -> In x (blobs st) ->
  exists st',
    delete succ subject manifest cfg_fixed ord st x = (st', Ok) /\
    blobs st' = removeb x (blobs st) /\ gnodes st' = removeb x (gnodes st) /\
    idx st' = del_idx succ manifest st x /\
    strays st' = strays st /\ autogc st' = autogc st.
Proof. exact delete_plain_final. Qed.
Print Assumptions C09_delete_plain.

(* a target that is not stored: not found; the storage is untouched, but (as in Go's delete(),
   which runs before storage.Delete fails) the references to x and its graph node are gone *)
Theorem C09_delete_absent :
  forall succ subject manifest st x ord c,
  ~ In x (blobs st) ->
  snd (delete succ subject manifest c ord st x) = ENotFound /\
  blobs (fst (delete succ subject manifest c ord st x)) = blobs st /\
  gnodes (fst (delete succ subject manifest c ord st x)) = removeb x (gnodes st) /\
  idx (fst (delete succ subject manifest c ord st x)) = del_idx succ manifest st x.
Proof. exact delete_absent_final. Qed.
Print Assumptions C09_delete_absent.

(* Every state the repaired code can reach with ANY iteration orders of Delete and GC
   ([Hist]; [any] = true also allows reopening the store at arbitrary points, also on an
   index.json that names only the tagged descriptors: OReopen / OForeign, and a GC
   cancelled in the sweep for every directory order and every k) is well-formed
   (the hypothesis of C09_delete_exact) and free of stale tag-set entries; unless the store
   is reopened at an arbitrary point every stored blob is a graph node, so [Gone] and
   C09_delete_exact speak about the storage.  After an arbitrary reopen blobs that
   index.json does not reach are unknown to the graph: Delete ignores them (they wait for
   GC) -- outside the property's quantifier, run by the correspondence, not judged. *)
Theorem C09_histories :
  forall succ subject manifest, acyclic succ -> subject_listed succ subject ->
  forall kl any st, Hist succ subject manifest kl any st ->
  wf st /\ (forall n, is_tagged st n = true <-> exists t, In (RTag t, n) (idx st)) /\
  (any = false -> forall y, In y (blobs st) -> In y (gnodes st)).
Proof. exact hist_final. Qed.
Print Assumptions C09_histories.

(* the well-formedness hypothesis of C09_delete_exact holds after every history *)
Theorem C09_store_wf :
  forall succ subject manifest, acyclic succ -> subject_listed succ subject ->
  forall kl ops, wf (fold_left (fun st o => fst (step succ subject manifest cfg_fixed kl st o)) ops init).
Proof. exact wf_final. Qed.
Print Assumptions C09_store_wf.

(* Before the repairs: F3 (a tagged referrer and its tag are deleted) and F4 (the outcome of
   Delete depends on the iteration order: not found in the middle of the cascade) *)
Theorem C09_delete_tagged_refuted :
  let st := run_w cfg_fixed [OPush 0; OPush 1; OPush 2; OTag 2 0] in
  let st' := fst (delete succ_w subject_w manifest_w cfg_noF3 ord_id st 1) in
  is_tagged st 2 = true /\ In 2 (blobs st) /\ ~ In 2 (blobs st') /\ lookup (RTag 0) (idx st') = None.
Proof. exact delete_noF3_removes_tagged. Qed.
Print Assumptions C09_delete_tagged_refuted.

Theorem C09_delete_order_refuted :
  let st := run_w cfg_fixed [OPush 0; OPush 1; OPush 2; OPush 3] in
  snd (delete succ_w subject_w manifest_w cfg_noF4 ord_id st 1) = ENotFound /\
  snd (delete succ_w subject_w manifest_w cfg_noF4 ord_rev st 1) = Ok.
Proof. exact delete_noF4_order_dependent. Qed.
Print Assumptions C09_delete_order_refuted.

(* [is_tagged] (Store.isTagged) means "carries a tag" in every state the repaired code can
   reach: no stale tag-set entries exist *)
Theorem C09_is_tagged_exact :
  forall succ subject manifest kl ops,
  let st := fold_left (fun st o => fst (step succ subject manifest cfg_fixed kl st o)) ops init in
  forall n, is_tagged st n = true <-> exists t, In (RTag t, n) (idx st).
Proof. exact no_stale_final. Qed.
Print Assumptions C09_is_tagged_exact.

(* Before the repair of resolver.Memory.Tag: after tag 0 moved from 5 to 1, deleting the index
   6 that lists 5 leaves the untagged, no longer referenced 5 behind (repaired: removed) *)
Theorem C09_delete_stale_tag_refuted :
  let st := run_w cfg_noStale stale_ops in
  let st' := fst (delete succ_w subject_w manifest_w cfg_noStale ord_id st 6) in
  let fx := run_w cfg_fixed stale_ops in
  let fx' := fst (delete succ_w subject_w manifest_w cfg_fixed ord_id fx 6) in
  lookup (RTag 0) (idx st) = Some 1 /\ (forall t, ~ In (RTag t, 5) (idx st)) /\
  In 5 (blobs st') /\ (forall p, In p (gnodes st') -> ~ In 5 (succ_w p)) /\
  ~ In 5 (blobs fx') /\ blobs fx' = [1; 0].
Proof. exact delete_stale_tag_leaves_garbage. Qed.
Print Assumptions C09_delete_stale_tag_refuted.

(* Before the repair of the dangling-leaf abort: push image 1 without its config 0, tag, GC;
   Delete 1 returns not found (repaired: Ok) *)
Theorem C09_delete_absent_leaf_refuted :
  let st := run_w cfg_noLeaf leaf_ops in
  In 1 (blobs st) /\ In 0 (gnodes st) /\ ~ In 0 (blobs st) /\
  snd (delete succ_w subject_w manifest_w cfg_noLeaf ord_id st 1) = ENotFound /\
  snd (delete succ_w subject_w manifest_w cfg_fixed ord_id (run_w cfg_fixed leaf_ops) 1) = Ok.
Proof. exact delete_absent_leaf_aborts. Qed.
Print Assumptions C09_delete_absent_leaf_refuted.

(* Why the repair distinguishes holders from referrers: the naive variant -- queue a referrer
   only when every predecessor of it is already queued -- leaves the referrer chain
   1 <- 2 <- 8 behind (2 is "held" by its own referrer 8), although nothing else links to them *)
Theorem C09_delete_skip_linked_refuted :
  let st := run_w cfg_fixed [OPush 0; OPush 1; OPush 2; OPush 8] in
  blobs (fst (delete succ_w subject_w manifest_w cfg_skipLinked ord_id st 1)) = [8; 2; 0] /\
  blobs (fst (delete succ_w subject_w manifest_w cfg_fixed ord_id st 1)) = [] /\
  is_tagged st 2 = false /\ is_tagged st 8 = false.
Proof. exact delete_skip_linked_leaves_chain. Qed.
Print Assumptions C09_delete_skip_linked_refuted.

(* audit F-A: before the repair gcIndex kept a manifest whose subject is a (never stored)
   layer that the rebuilt graph knows by reference *)
Theorem C09_gc_blob_subject_refuted :
  blobs (fst (step succ_w subject_w manifest_w cfg_noSubjM false (run_w cfg_noSubjM subjm_ops) OGC)) = [11; 10; 0] /\
  blobs (fst (step succ_w subject_w manifest_w cfg_fixed false (run_w cfg_fixed subjm_ops) OGC)) = [10; 0] /\
  manifest_w 9 = false /\ subject_w 11 = Some 9.
Proof. exact gc_blob_subject_keeps_garbage. Qed.
Print Assumptions C09_gc_blob_subject_refuted.

(* audit F-C: before the repair a surviving index that lists a referrer and also names it as
   its subject did not hold it *)
Theorem C09_delete_subject_and_entry_refuted :
  let st := run_w cfg_fixed [OPush 0; OPush 1; OPush 2; OPush 12; OTag 12 0] in
  blobs (fst (delete succ_w subject_w manifest_w cfg_noEntry ord_id st 1)) = [12] /\
  blobs (fst (delete succ_w subject_w manifest_w cfg_fixed ord_id st 1)) = [12; 2; 0] /\
  In 2 (entries succ_w subject_w 12).
Proof. exact delete_subject_and_entry. Qed.
Print Assumptions C09_delete_subject_and_entry_refuted.

(* ---- end to end ---- *)

(* the outcome of Delete (AutoGC) and of GC does not depend on Go's map iteration orders *)
Theorem C09_order_independent :
  forall succ subject manifest, acyclic succ -> subject_listed succ subject ->
  (forall st x, wfm subject manifest st -> autogc st = true -> In x (blobs st) ->
     forall o1 o2, reorders o1 -> reorders o2 ->
     let a := fst (delete succ subject manifest cfg_fixed o1 st x) in
     let b := fst (delete succ subject manifest cfg_fixed o2 st x) in
     (forall y, In y (blobs a) <-> In y (blobs b)) /\ (forall y, In y (gnodes a) <-> In y (gnodes b)) /\
     (forall t n, In (RTag t, n) (idx a) <-> In (RTag t, n) (idx b))) /\
  (forall kl st o1 o2, same_elements o1 (candidates (idx st)) -> same_elements o2 (candidates (idx st)) ->
     let a := fst (gc succ subject manifest cfg_fixed kl o1 st) in
     let b := fst (gc succ subject manifest cfg_fixed kl o2 st) in
     (forall y, In y (blobs a) <-> In y (blobs b)) /\ (forall y, In y (gnodes a) <-> In y (gnodes b)) /\
     (forall t n, In (RTag t, n) (idx a) <-> In (RTag t, n) (idx b))).
Proof. exact order_independent_final. Qed.
Print Assumptions C09_order_independent.

(* "keep live data": a stored descriptor that carries a tag survives, with its tag, every
   Delete of another descriptor (AutoGC on or off, target stored or not, every iteration
   order) and, with everything reachable from it, every GC -- complete or cancelled *)
Theorem C09_tagged_kept :
  forall succ subject manifest, acyclic succ -> subject_listed succ subject ->
  forall st n t, wfm subject manifest st -> In (RTag t, n) (idx st) -> In n (blobs st) ->
  (forall x ord, reorders ord -> x <> n ->
     let st' := fst (delete succ subject manifest cfg_fixed ord st x) in
     In n (blobs st') /\ In (RTag t, n) (idx st')) /\
  (forall kl ords order k, same_elements ords (candidates (idx st)) ->
     let s1 := fst (gc succ subject manifest cfg_fixed kl ords st) in
     let s2 := fst (gc_cancel succ subject manifest cfg_fixed kl ords order k st) in
     forall y, Reach succ (blobs st) n y ->
       In y (blobs s1) /\ In y (blobs s2) /\ In (RTag t, n) (idx s1) /\ In (RTag t, n) (idx s2)).
Proof. exact tagged_kept_final. Qed.
Print Assumptions C09_tagged_kept.

(* ---- persistence: index.json, AutoSaveIndex, SaveIndex, a new Store on the directory ---- *)

(* The order of effects the persistence model relies on, read off the call sequences that the
   translator regenerates from Store.GC and Store.delete on every run (Generated/GC09.v):
   GC writes index.json before it removes the first blob and tests the context before every
   removal; delete() writes index.json before it unlinks the blob.  The model's [pstep] is
   configured by these three booleans, the theorems below use them as lemmas: a reordering of
   the Go source changes the model and breaks the proofs. *)
Theorem C09_effect_order :
  gc_saves_before_sweep = true /\ gc_tests_ctx_before_remove = true /\ delete_saves_before_unlink = true.
Proof. exact effect_order_final. Qed.
Print Assumptions C09_effect_order.

(* loadIndex after saveIndex gives back the reference map (minus stale tag-set entries) *)
Theorem C09_index_load_save :
  forall ix e, refs_ok ix ->
  (In e (load_form (save_form ix)) <-> In e ix /\ nonstale e = true).
Proof. exact load_save_final. Qed.
Print Assumptions C09_index_load_save.

(* As long as AutoSaveIndex is never switched off, after every history of Push / Tag / Untag /
   Delete / GC (complete or cancelled) / AutoGC / stray files / SaveIndex / reopen / foreign
   index, index.json holds exactly what saveIndex writes for the current reference map: Delete
   and GC never leave index.json behind the memory *)
Theorem C09_index_json_current :
  forall succ subject manifest, acyclic succ -> subject_listed succ subject ->
  forall kl ops, Forall (fun o => o <> PAutoSave false) ops ->
  let p := fold_left (fun p o => fst (pstep succ subject manifest cfg_fixed kl p o)) ops pinit in
  (forall e, In e (disk p) <-> In e (save_form (idx (mem p)))) /\
  refs_ok (idx (mem p)) /\ autosave p = true.
Proof. exact index_json_current_final. Qed.
Print Assumptions C09_index_json_current.

(* every state of every history of the persistence layer -- complete and cancelled GCs,
   SaveIndex, AutoSaveIndex on or off, reloads from whatever index.json holds, failed pushes,
   and Deletes of plain layers/configs by the blob descriptor Resolve(<digest>) returns
   (PDeleteAlt; [plain_alt]: the deleted node is no manifest and has no subject) -- satisfies
   [wfm], the hypothesis of C09_delete_exact / C09_tagged_kept / C09_order_independent: the
   graph nodes that are manifests or have a subject are stored (a layer may be a stale graph
   node without content: C09_delete_alt_stale_node); and [is_tagged] means "carries a tag" *)
Theorem C09_persist_histories :
  forall succ subject manifest, acyclic succ -> subject_listed succ subject ->
  forall kl ops, Forall (plain_alt subject manifest) ops ->
  let p := fold_left (fun p o => fst (pstep succ subject manifest cfg_fixed kl p o)) ops pinit in
  wfm subject manifest (mem p) /\
  (forall n, is_tagged (mem p) n = true <-> exists t, In (RTag t, n) (idx (mem p))).
Proof. exact phistories2_final. Qed.
Print Assumptions C09_persist_histories.

(* [wfm] is weaker than [wf] (C09_histories, C09_store_wf give [wf]) *)
Theorem C09_wf_wfm : forall subject manifest st, wf st -> wfm subject manifest st.
Proof. exact wf_wfm_final. Qed.
Print Assumptions C09_wf_wfm.

(* The Delete theorems without a premise on the state: in EVERY state of every history of the
   persistence layer (pushes, tags, deletes, complete/cancelled/blocked GCs, saves, reloads,
   failed pushes, Deletes of plain leaves by the blob descriptor), Delete x of a stored x with
   AutoGC on returns Ok and removes exactly [Gone] from storage and graph and x's tags from
   the index, for every iteration order, with order-independent outcome; and a stored tagged
   descriptor survives every Delete of another descriptor (AutoGC on or off) *)
Theorem C09_delete_in_histories :
  forall succ subject manifest,
  acyclic succ -> subject_listed succ subject ->
  forall kl ops, Forall (plain_alt subject manifest) ops ->
  let st := mem (fold_left (fun p o => fst (pstep succ subject manifest cfg_fixed kl p o)) ops pinit) in
  (forall x ord, autogc st = true -> In x (blobs st) -> reorders ord ->
     exists st',
       delete succ subject manifest cfg_fixed ord st x = (st', Ok) /\
       (forall y, In y (blobs st') <-> In y (blobs st) /\ ~ Gone succ subject manifest st x y) /\
       (forall y, In y (gnodes st') <-> In y (gnodes st) /\ ~ Gone succ subject manifest st x y) /\
       (forall t n, In (RTag t, n) (idx st') <-> In (RTag t, n) (idx st) /\ n <> x) /\
       (forall r, ~ In (r, x) (idx st'))) /\
  (forall n t x ord, In (RTag t, n) (idx st) -> In n (blobs st) -> reorders ord -> x <> n ->
     let st' := fst (delete succ subject manifest cfg_fixed ord st x) in
     In n (blobs st') /\ In (RTag t, n) (idx st')) /\
  (forall x o1 o2, autogc st = true -> In x (blobs st) -> reorders o1 -> reorders o2 ->
     let a := fst (delete succ subject manifest cfg_fixed o1 st x) in
     let b := fst (delete succ subject manifest cfg_fixed o2 st x) in
     (forall y, In y (blobs a) <-> In y (blobs b)) /\ (forall y, In y (gnodes a) <-> In y (gnodes b)) /\
     (forall t n, In (RTag t, n) (idx a) <-> In (RTag t, n) (idx b))).
Proof. exact reachable_delete_final. Qed.
Print Assumptions C09_delete_in_histories.

(* Delete of the layer 0 with the blob descriptor leaves the graph node 0 without content
   (the state is not [wf], it is [wfm]); GC removes the stale node; a second such Delete is
   ErrNotFound.  C09_delete_after_alt: in that state Delete of the image 1 (AutoGC on)
   removes 1 and its referrer 2, as C09_delete_exact says -- the stale node is no storage *)
Example C09_delete_after_alt :
  let p := prun_w [PO (OAuto true); PO (OPush 0); PO (OPush 1); PO (OPush 2); PDeleteAlt 0] in
  let r := pstep succ_w subject_w manifest_w cfg_fixed true p (PO (ODelete 1)) in
  blobs (mem p) = [2; 1] /\ gnodes (mem p) = [2; 1; 0] /\
  snd r = Ok /\ blobs (mem (fst r)) = [] /\ gnodes (mem (fst r)) = [0].
Proof. vm_compute. repeat split. Qed.
Print Assumptions C09_delete_after_alt.

Theorem C09_delete_alt_stale_node :
  let p := prun_w [PO (OPush 0); PO (OPush 1); PDeleteAlt 0] in
  blobs (mem p) = [1] /\ In 0 (gnodes (mem p)) /\ ~ In 0 (blobs (mem p)) /\
  gnodes (mem (prun_w [PO (OPush 0); PO (OPush 1); PO (OTag 1 0); PDeleteAlt 0; PO OGC])) = [1] /\
  snd (pstep succ_w subject_w manifest_w cfg_fixed true (prun_w [PO (OPush 0); PO (OPush 1)]) (PDeleteAlt 0)) = Ok /\
  snd (pstep succ_w subject_w manifest_w cfg_fixed true p (PDeleteAlt 0)) = ENotFound.
Proof. exact delete_alt_stale_node. Qed.
Print Assumptions C09_delete_alt_stale_node.

(* the same as an invariant of one step (any state with a current index.json) *)
Theorem C09_index_json_step :
  forall succ subject manifest, acyclic succ -> subject_listed succ subject ->
  forall kl p o, pstate_ok p -> o <> PAutoSave false ->
  pstate_ok (fst (pstep succ subject manifest cfg_fixed kl p o)).
Proof. exact index_json_step_final. Qed.
Print Assumptions C09_index_json_step.

(* with a current index.json a new Store on the directory is the OReopen of the theorems
   (C09_gc_reopen, C09_histories): same storage, references, graph *)
Theorem C09_reload_is_reopen :
  forall succ subject manifest, acyclic succ -> subject_listed succ subject ->
  forall kl p, pstate_ok p ->
  let a := mem (fst (pstep succ subject manifest cfg_fixed kl p (PO OReopen))) in
  let b := fst (step succ subject manifest cfg_fixed kl (mem p) OReopen) in
  blobs a = blobs b /\ (forall e, In e (idx a) <-> In e (idx b)) /\
  (forall x, In x (gnodes a) <-> In x (gnodes b)) /\
  strays a = strays b /\ autogc a = autogc b.
Proof. exact reload_is_reopen_final. Qed.
Print Assumptions C09_reload_is_reopen.

(* the hypothesis is needed: with AutoSaveIndex off and no SaveIndex a restart forgets the tag,
   and the next GC sweeps the manifest (documented: "unsaved index will be lost"); SaveIndex
   before the restart keeps both *)
Theorem C09_unsaved_index_refuted :
  let ops := [PO (OPush 0); PO (OPush 1); PO (OTag 1 0); PO OReopen; PO OGC] in
  blobs (mem (prun_w (PAutoSave false :: ops))) = [] /\
  lookup (RTag 0) (idx (mem (prun_w (PAutoSave false :: ops)))) = None /\
  blobs (mem (prun_w ops)) = [1; 0] /\
  lookup (RTag 0) (idx (mem (prun_w ops))) = Some 1 /\
  blobs (mem (prun_w (PAutoSave false :: [PO (OPush 0); PO (OPush 1); PO (OTag 1 0); PSave; PO OReopen; PO OGC]))) = [1; 0].
Proof. exact unsaved_index_lost. Qed.
Print Assumptions C09_unsaved_index_refuted.

(* ---- tables regenerated from the source ---- *)

(* The case lists of the media-type switches of manifestutil.Subject, registry.Referrers and
   content.Successors and of descriptor.IsManifest (Generated/GC09.v) are what the model
   assumes: Subject and Referrers accept the same media types (the model has one subject
   function for both), exactly the manifest media types have successors, every media type
   with a subject is a manifest; kinds 0..5 = blob, image, docker manifest, index, docker
   manifest list, artifact manifest.  The driver masks the subject of a node by
   [kind_has_subject], so the model follows the switch. *)
Theorem C09_media_type_tables :
  subject_tables_agree = true /\
  map kind_has_subject [0; 1; 2; 3; 4; 5] = [false; true; false; true; false; true] /\
  map is_manifest_kind [0; 1; 2; 3; 4; 5] = [false; true; true; true; true; true].
Proof. exact media_type_tables_final. Qed.
Print Assumptions C09_media_type_tables.

(* Delete and GC hold the store's write lock for their whole body, every other operation the
   read lock (regenerated call sequences): the justification of "sequential histories" --
   under sync.RWMutex no other operation of the store overlaps a Delete or a GC *)
Theorem C09_lock_discipline : lock_discipline = true.
Proof. exact lock_discipline_final. Qed.
Print Assumptions C09_lock_discipline.

(* ---- the graph abstraction ---- *)

(* The C09 model represents graph.Memory by its node set and derives predecessors and
   danglings from it.  This is sound for the concrete model of internal/graph/memory.go
   (Model/GraphMem.v, property C07: nodes, predecessors map, successors map, Index and Remove
   statement by statement): on every concrete state with C07's representation invariant
   (proved there for all histories) Predecessors, the danglings Remove reports -- for every
   iteration order of the successor set -- and the node sets after Remove and index are
   exactly what the C09 model computes ([absn] = the node set, keys N there, nat here). *)
Theorem C09_graph_abstraction :
  forall (succ : nat -> list nat) (g : GraphMem.graph),
  Proofs.GraphMem.Inv (OciGCGraph.contentN succ) g ->
  (forall n p, In p (GraphMem.predecessors g n) <->
               In (N.to_nat p) (preds succ (OciGCGraph.absn g) (N.to_nat n))) /\
  (forall n order, Permutation.Permutation order (GraphMem.getd (GraphMem.g_succs g) n) ->
     Proofs.GraphMem.Inv (OciGCGraph.contentN succ) (fst (GraphMem.remove_ord g n order)) /\
     (forall d, In d (snd (GraphMem.remove_ord g n order)) <->
                In (N.to_nat d) (danglings succ (OciGCGraph.absn g) (N.to_nat n))) /\
     (forall x, In x (OciGCGraph.absn (fst (GraphMem.remove_ord g n order))) <->
                In x (removeb (N.to_nat n) (OciGCGraph.absn g)))) /\
  (forall n x, In x (OciGCGraph.absn (GraphMem.index g n (OciGCGraph.contentN succ n))) <->
               x = N.to_nat n \/ In x (OciGCGraph.absn g)).
Proof. exact OciGCGraph.graph_bridge_final. Qed.
Print Assumptions C09_graph_abstraction.

(* ---- the hypotheses are satisfiable on non-trivial instances ---- *)
Example C09_hyps_satisfiable : acyclic succ_w /\ subject_listed succ_w subject_w.
Proof. exact hyps_satisfiable. Qed.

Example C09_example_gc :
  let st := run_w cfg_fixed [OPush 0; OPush 1; OPush 2; OPush 3; OPush 5; OPush 6; OPush 7; OTag 1 0; ODelete 3] in
  let st' := fst (step succ_w subject_w manifest_w cfg_fixed false st OGC) in
  blobs st' = [7; 6; 5; 1; 0] /\ snd (step succ_w subject_w manifest_w cfg_fixed false st OGC) = Ok.
Proof. exact example_gc. Qed.

Example C09_example_delete :
  let st := run_w cfg_fixed [OPush 0; OPush 1; OPush 2; OPush 3; OPush 5; OPush 6; OPush 7; OTag 5 0] in
  autogc st = true /\ In 1 (blobs st) /\
  blobs (fst (step succ_w subject_w manifest_w cfg_fixed false st (ODelete 1))) = [7; 5; 0] /\
  snd (step succ_w subject_w manifest_w cfg_fixed false st (ODelete 1)) = Ok.
Proof. exact example_delete. Qed.

Example C09_example_cancel_resume :
  blobs (mem (prun_w (cancel_pre ++ [PGCCancel false cancel_order 1]))) = [7; 2; 1; 0] /\
  snd (pstep succ_w subject_w manifest_w cfg_fixed true (prun_w cancel_pre) (PGCCancel false cancel_order 1)) = ECanceled /\
  blobs (mem (prun_w (cancel_pre ++ [PGCCancel false cancel_order 3]))) = [2; 1; 0] /\
  blobs (mem (prun_w (cancel_pre ++ [PGCCancel false cancel_order 1; PO OGC]))) = [2; 1; 0] /\
  blobs (mem (prun_w (cancel_pre ++ [PO OGC]))) = [2; 1; 0] /\
  disk (prun_w (cancel_pre ++ [PGCCancel false cancel_order 1])) = disk (prun_w (cancel_pre ++ [PO OGC])).
Proof. exact example_cancel_resume. Qed.

Example C09_example_pstate_ok : pstate_ok (prun_w (cancel_pre ++ [PGCCancel false cancel_order 1])).
Proof. exact example_pstate_ok. Qed.
