(* C20 -- References parse exactly per grammar, round-trip, and stay in their URL slot.
   Only statements closed by [exact]; the lemmas live in Proofs/Reference.v.
   The regular expressions are Generated/Regexes.v (re-translated from
   registry/reference.go on every run). *)
From Oras Require Import Base.Prelude Base.Regex Generated.GC20 Model.Reference Model.RefOps Proofs.Reference Proofs.RefOps Proofs.RefURL Proofs.RefGrammar Model.NetURL Proofs.NetURL Proofs.RefDescOps Model.RefURLGen Proofs.RefURLGen.

(* ParseReference accepts exactly the grammar (any registry predicate). *)
Theorem C20_parse_iff_grammar :
  forall (avail valid_registry : str -> bool) s r,
    parse avail valid_registry s = Some r <-> RefGrammar avail valid_registry s r.
Proof. exact parse_iff_grammar. Qed.
Print Assumptions C20_parse_iff_grammar.

(* format then parse gives the same reference *)
Theorem C20_roundtrip :
  forall (avail valid_registry : str -> bool) s r,
    parse avail valid_registry s = Some r -> parse avail valid_registry (format avail r) = Some r.
Proof. exact parse_roundtrip. Qed.
Print Assumptions C20_roundtrip.

(* the tag regular expression is exactly the documented rule *)
Theorem C20_tag_grammar :
  forall s, valid_tag s = true <->
    exists c t, s = c :: t /\ word_char c = true /\ (length t <= 127)%nat /\
                Forall (fun x => tag_char x = true) t.
Proof. exact tag_grammar. Qed.
Print Assumptions C20_tag_grammar.

(* the repository regular expression is exactly the documented repository-name rule (inductive
   grammar RepoName of Proofs/RefGrammar.v: components of [a-z0-9]+ runs joined by '.', '_', '__'
   or dashes, components joined by '/'), and the digest check is exactly: a table algorithm that
   is linked, ':' and lower-case hex of the algorithm's length *)
Theorem C20_repository_grammar :
  forall s, valid_repository s = true <-> RepoName s.
Proof. exact repository_grammar. Qed.
Print Assumptions C20_repository_grammar.

Theorem C20_digest_grammar :
  forall (avail : str -> bool) s,
    valid_digest avail s = true <->
    exists alg n enc, In (alg, n) alg_table /\ avail alg = true /\ s = alg ++ [c_colon] ++ enc /\
                      length enc = n /\ Forall (fun c => hexlower c = true) enc.
Proof. exact digest_grammar. Qed.
Print Assumptions C20_digest_grammar.

Example C20_repository_grammar_examples :
  RepoName (b "a__b/c--d.e") /\ ~ RepoName (b "a___b") /\ ~ RepoName (b "a-_b") /\ ~ RepoName (b "a//b") /\ ~ RepoName (b "Org/app").
Proof. exact repository_grammar_examples. Qed.

(* a reference whose digest algorithm is not linked is not a digest reference at all: with
   only sha256 linked a sha512 reference is rejected, with everything linked it is accepted *)
Example C20_digest_linking :
  let d := b "sha512:" ++ repeat 97 128 in
  valid_digest (fun a => str_eqb a (b "sha256")) d = false /\ valid_digest (fun _ => true) d = true /\
  parse (fun a => str_eqb a (b "sha256")) (fun _ => true) (b "localhost/a@" ++ d) = None.
Proof. vm_compute. repeat split. Qed.

(* Repository.ParseReference: the six accepted forms give the same reference: tag, B:tag, digest,
   B@digest, <dropped>@digest (the dropped part is anything without '/' and '@') and
   B:<dropped>@digest (anything without '@') *)
Theorem C20_repo_forms_agree :
  forall (avail valid_registry : str -> bool) breg brepo,
    ok_registry valid_registry breg -> valid_repository brepo = true ->
    (forall t, valid_tag t = true ->
       repo_parse avail valid_registry breg brepo t = Some (mkRef breg brepo t) /\
       repo_parse avail valid_registry breg brepo (breg ++ [c_slash] ++ brepo ++ [c_colon] ++ t)
         = Some (mkRef breg brepo t)) /\
    (forall d, valid_digest avail d = true ->
       repo_parse avail valid_registry breg brepo d = Some (mkRef breg brepo d) /\
       repo_parse avail valid_registry breg brepo (breg ++ [c_slash] ++ brepo ++ [c_at] ++ d)
         = Some (mkRef breg brepo d) /\
       (forall junk, contains c_slash junk = false -> contains c_at junk = false ->
         repo_parse avail valid_registry breg brepo (junk ++ [c_at] ++ d) = Some (mkRef breg brepo d)) /\
       (forall junk, contains c_at junk = false ->
         repo_parse avail valid_registry breg brepo (breg ++ [c_slash] ++ brepo ++ [c_colon] ++ junk ++ [c_at] ++ d)
         = Some (mkRef breg brepo d))).
Proof. exact repo_forms_agree. Qed.
Print Assumptions C20_repo_forms_agree.

(* other registries / repositories and empty references are rejected; whatever is
   accepted lies in the base repository and has a valid non-empty reference *)
Theorem C20_repo_rejects_foreign :
  forall (avail valid_registry : str -> bool) breg brepo s r,
    parse avail valid_registry s = Some r ->
    (r_registry r <> breg \/ r_repository r <> brepo) ->
    repo_parse avail valid_registry breg brepo s = None.
Proof. exact repo_parse_other_rejected. Qed.
Print Assumptions C20_repo_rejects_foreign.

(* "rejects other registries or repositories", full strength: a string with a path in it (a '/')
   is accepted ONLY if it is a valid fully qualified reference of the base repository itself, i.e.
   <base registry>/<base repository> followed by ':' or '@'.  Foreign references are rejected
   whether or not they are themselves well formed (a malformed path in front of a valid digest
   used to be re-targeted to the base: C20_repo_rejects_other_paths_prefix_refuted). *)
Theorem C20_repo_rejects_other_paths :
  forall (avail valid_registry : str -> bool) breg brepo s r,
    repo_parse avail valid_registry breg brepo s = Some r -> contains c_slash s = true ->
    (parse avail valid_registry s = Some r /\ r_registry r = breg /\ r_repository r = brepo) /\
    exists c t, s = breg ++ [c_slash] ++ brepo ++ c :: t /\ (c = c_colon \/ c = c_at).
Proof. exact repo_rejects_other_paths. Qed.
Print Assumptions C20_repo_rejects_other_paths.

(* the code before the fix (model repo_parse_prefix) violated it *)
Theorem C20_repo_rejects_other_paths_prefix_refuted :
  exists avail vr breg brepo s r,
    ok_registry vr breg /\ valid_repository brepo = true /\
    repo_parse_prefix avail vr breg brepo s = Some r /\ contains c_slash s = true /\ parse avail vr s = None.
Proof. exact repo_parse_prefix_retargets. Qed.
Print Assumptions C20_repo_rejects_other_paths_prefix_refuted.

(* Repository.ParseReference accepts EXACTLY (inductive RepoRefGrammar, Proofs/Reference.v): a
   tag; a digest; <dropped>@digest with the dropped part free of '/' and '@'; or a fully qualified
   reference of the base repository with a non-empty reference -- for every base, valid or not *)
Theorem C20_repo_parse_iff_grammar :
  forall (avail valid_registry : str -> bool) breg brepo s r,
    repo_parse avail valid_registry breg brepo s = Some r <-> RepoRefGrammar avail valid_registry breg brepo s r.
Proof. exact repo_parse_iff_grammar. Qed.
Print Assumptions C20_repo_parse_iff_grammar.

Theorem C20_repo_result_in_base :
  forall (avail valid_registry : str -> bool) breg brepo s r,
    repo_parse avail valid_registry breg brepo s = Some r ->
    r_registry r = breg /\ r_repository r = brepo /\ r_reference r <> [] /\
    (valid_tag (r_reference r) = true \/ valid_digest avail (r_reference r) = true).
Proof. exact repo_parse_result_in_base. Qed.
Print Assumptions C20_repo_result_in_base.

(* URLs: last path segment is literally the reference; no structural characters *)
Theorem C20_url_slot :
  forall (avail valid_registry : str -> bool) plain r,
    wf_ref avail valid_registry r -> r_reference r <> [] ->
    url_clean (r_repository r) /\ seg_clean (r_reference r) /\
    after_last c_slash (url_manifest plain r) = r_reference r /\
    after_last c_slash (url_blob plain r) = r_reference r /\
    after_last c_slash (url_referrers plain r) = r_reference r.
Proof. exact url_slot. Qed.
Print Assumptions C20_url_slot.

(* URL slot at full strength.  [url_is u plain r seg] (Proofs/RefURL.v) says, under the generic URL
   syntax of RFC 3986 (Model url_split: authority ends at the first '/', '?', '#'; path at the first
   '?', '#'): u splits into scheme, authority = exactly the registry's host (no '@', so no
   user-info; non-empty), path = /v2/<repository>/<seg>/<reference> whose '/'-segments are exactly
   "", "v2", the repository's components, seg, the reference -- and NO query and NO fragment.
   The single fact about net/url used: an accepted registry is non-empty and contains none of
   controls/space # % / ? @ \ DEL ([reg_clean]); the harness checks it on every reference the
   implementation accepts (oracle signature registry-charset). *)
Theorem C20_url_exact :
  forall (avail valid_registry : str -> bool) plain r,
    (forall reg, valid_registry reg = true -> reg_clean reg = true) ->
    wf_ref avail valid_registry r -> r_reference r <> [] ->
    url_is (url_manifest plain r) plain r (b "manifests") /\
    url_is (url_blob plain r) plain r (b "blobs") /\
    url_is (url_referrers plain r) plain r (b "referrers").
Proof. exact url_exact. Qed.
Print Assumptions C20_url_exact.

Theorem C20_url_exact_noref :
  forall (avail valid_registry : str -> bool) plain r,
    (forall reg, valid_registry reg = true -> reg_clean reg = true) -> wf_ref avail valid_registry r ->
    url_split (url_taglist plain r)
    = Some (mkParts (scheme plain) (host_of (r_registry r)) (b "/v2/" ++ r_repository r ++ b "/tags/list") None None) /\
    url_split (url_upload plain r)
    = Some (mkParts (scheme plain) (host_of (r_registry r)) (b "/v2/" ++ r_repository r ++ b "/blobs/uploads/") None None).
Proof. exact url_exact_noref. Qed.
Print Assumptions C20_url_exact_noref.

(* the registry hypothesis is needed: with an unconstrained registry predicate the whole path of
   a "well-formed" reference lands in the query/fragment (this is why C20_url_slot alone, which
   holds for any registry predicate, does not give the slot) *)
Theorem C20_url_exact_unconstrained_registry_refuted :
  exists (avail valid_registry : str -> bool) r,
    wf_ref avail valid_registry r /\ r_reference r <> [] /\
    url_split (url_manifest false r)
    = Some (mkParts (b "https") (b "h") [] (Some (b "x")) (Some (b "y/v2/a/manifests/t"))).
Proof. exact url_exact_unconstrained_registry_refuted. Qed.
Print Assumptions C20_url_exact_unconstrained_registry_refuted.

Example C20_url_exact_nonvacuous :
  (forall reg, reg_clean reg = true -> reg_clean reg = true) /\
  reg_clean (b "localhost:5000") = true /\ reg_clean (b "[::1]:5000") = true /\ reg_clean (b "h?x") = false /\
  url_split (url_manifest true (mkRef (b "localhost:5000") (b "hello/world") (b "v1")))
  = Some (mkParts (b "http") (b "localhost:5000") (b "/v2/hello/world/manifests/v1") None None) /\
  split_on c_slash (b "/v2/hello/world/manifests/v1") = [[]; b "v2"; b "hello"; b "world"; b "manifests"; b "v1"].
Proof. repeat split; auto; vm_compute; reflexivity. Qed.

(* every request of every reference-taking operation: exact path in the base repository, no
   query / fragment / user-info (x is the resolved reference or the digest of the descriptor
   being tagged) *)
Theorem C20_op_requests_exact_paths :
  forall (avail valid_registry : str -> bool) op plain breg brepo s d reqs,
    (forall reg, valid_registry reg = true -> reg_clean reg = true) ->
    ok_registry valid_registry breg -> valid_repository brepo = true -> valid_digest avail d = true ->
    op_requests avail valid_registry op plain breg brepo s d = Some reqs ->
    exists r, repo_parse avail valid_registry breg brepo s = Some r /\
      Forall (fun mu => exists seg x,
                (seg = b "manifests" \/ seg = b "blobs") /\ (x = r_reference r \/ x = d) /\
                url_is (snd mu) plain (mkRef breg brepo x) seg) reqs.
Proof. exact op_requests_exact_paths. Qed.
Print Assumptions C20_op_requests_exact_paths.

(* every reference-taking Repository operation (Resolve, FetchReference, Tag, PushReference on
   manifests; Resolve, FetchReference on blobs) that accepts a reference string builds its
   requests from the *resolved* reference: the reference-carrying request is in the list, its
   last path segment is literally the resolved reference (tag dropped before a digest, base
   stripped from a fully-qualified form), and no request targets anything but the manifest/blob
   URL of the resolved reference or the manifest URL of the descriptor being tagged *)
Theorem C20_op_requests_use_resolved :
  forall (avail valid_registry : str -> bool) op plain breg brepo s d reqs,
    ok_registry valid_registry breg -> valid_repository brepo = true ->
    op_requests avail valid_registry op plain breg brepo s d = Some reqs ->
    exists r, repo_parse avail valid_registry breg brepo s = Some r /\
      r_registry r = breg /\ r_repository r = brepo /\
      In (ref_request op plain r) reqs /\
      Forall (fun mu => snd mu = url_manifest plain r \/ snd mu = url_blob plain r \/
                        snd mu = url_manifest plain (mkRef breg brepo d)) reqs /\
      after_last c_slash (snd (ref_request op plain r)) = r_reference r.
Proof. exact op_requests_use_resolved. Qed.
Print Assumptions C20_op_requests_use_resolved.

(* ... and the equivalent forms of one reference send identical requests *)
Theorem C20_op_requests_forms_agree :
  forall (avail valid_registry : str -> bool) op plain breg brepo d0,
    ok_registry valid_registry breg -> valid_repository brepo = true ->
    (forall t, valid_tag t = true ->
       op_requests avail valid_registry op plain breg brepo (breg ++ [c_slash] ++ brepo ++ [c_colon] ++ t) d0
       = op_requests avail valid_registry op plain breg brepo t d0) /\
    (forall d, valid_digest avail d = true ->
       op_requests avail valid_registry op plain breg brepo (breg ++ [c_slash] ++ brepo ++ [c_at] ++ d) d0
       = op_requests avail valid_registry op plain breg brepo d d0 /\
       (forall junk, contains c_slash junk = false -> contains c_at junk = false ->
         op_requests avail valid_registry op plain breg brepo (junk ++ [c_at] ++ d) d0
         = op_requests avail valid_registry op plain breg brepo d d0) /\
       (forall junk, contains c_at junk = false ->
         op_requests avail valid_registry op plain breg brepo (breg ++ [c_slash] ++ brepo ++ [c_colon] ++ junk ++ [c_at] ++ d) d0
         = op_requests avail valid_registry op plain breg brepo d d0)).
Proof. exact op_requests_forms_agree. Qed.
Print Assumptions C20_op_requests_forms_agree.

Example C20_op_nonvacuous :
  op_requests (fun _ => true) (fun _ => true) OpTag false (b "localhost:5000") (b "hello/world") (b "v1@sha256:e3b0c44298fc1c149afbf4c8996fb92427ae41e4649b934ca495991b7852b855")
              (b "sha256:e3b0c44298fc1c149afbf4c8996fb92427ae41e4649b934ca495991b7852b855")
  = Some [(b "GET", b "https://localhost:5000/v2/hello/world/manifests/sha256:e3b0c44298fc1c149afbf4c8996fb92427ae41e4649b934ca495991b7852b855");
          (b "PUT", b "https://localhost:5000/v2/hello/world/manifests/sha256:e3b0c44298fc1c149afbf4c8996fb92427ae41e4649b934ca495991b7852b855")].
Proof. vm_compute. reflexivity. Qed.

(* non-vacuity: a concrete reference meets the hypotheses *)
Example C20_nonvacuous :
  parse (fun _ => true) (fun _ => true) (b "localhost:5000/hello/world:v1.0")
  = Some (mkRef (b "localhost:5000") (b "hello/world") (b "v1.0")).
Proof. vm_compute. reflexivity. Qed.

(* ---------- the registry check itself (Model/NetURL.v: net/url of go1.26.8) ---------- *)

(* whatever ValidateRegistry accepts is a clean URL authority: non-empty, no control character,
   space, '#', '%', '/', '?', '@' (no user-info), backslash -- for every behaviour of
   netip.ParseAddr.  This discharges the hypothesis of C20_url_exact for the modelled validator. *)
Theorem C20_registry_clean :
  forall (ip6_ok : str -> bool) reg,
    go_valid_registry ip6_ok reg = true -> reg_clean reg = true /\ contains c_slash reg = false.
Proof. exact go_valid_registry_clean. Qed.
Print Assumptions C20_registry_clean.

(* registries without brackets (reg-name [":" port]) are characterised exactly *)
Theorem C20_registry_regname_iff :
  forall (ip6_ok : str -> bool) reg,
    contains 91 reg = false ->
    (go_valid_registry ip6_ok reg = true <->
     reg <> [] /\ forallb hostcb reg = true /\
     (forall i, last_index_of 58 reg = Some i -> forallb is_digit_c (skipn (S i) reg) = true)).
Proof. exact registry_regname_iff. Qed.
Print Assumptions C20_registry_regname_iff.

(* ... and so are the bracketed IP literals: '[' host ']' [':' digits] with host bytes inside the
   brackets, no further bracket, and an inside that netip.ParseAddr accepts as a non-IPv4 address.
   Together with C20_registry_regname_iff this is the complete grammar of accepted registries. *)
Theorem C20_registry_bracket_iff :
  forall (ip6_ok : str -> bool) reg,
    contains 91 reg = true ->
    (go_valid_registry ip6_ok reg = true <->
     exists h port,
       reg = 91 :: h ++ 93 :: port /\ contains 91 h = false /\ contains 91 port = false /\ contains 93 port = false /\
       forallb hostcb h = true /\ ip6_ok h = true /\ valid_optional_port port = true).
Proof. exact registry_bracket_iff. Qed.
Print Assumptions C20_registry_bracket_iff.

(* go_valid_registry answers "rejected" at once when the registry contains '?', '/' or '@'; that is
   sound: it equals the step-by-step rendering of url.ParseRequestURI (query cut at the first '?',
   authority up to the first '/', user-info before the last '@', Host compared with the registry),
   whatever the user-info and path checks it leaves abstract answer *)
Theorem C20_registry_shortcuts_sound :
  forall (ip6_ok : str -> bool) (other_ok : str -> option str -> bool) reg,
    (forall a, contains 64 a = false -> other_ok a None = true) ->
    go_valid_registry_faithful ip6_ok other_ok reg = go_valid_registry ip6_ok reg.
Proof. exact go_valid_registry_faithful_eq. Qed.
Print Assumptions C20_registry_shortcuts_sound.

(* the URL clauses with the modelled validator: no hypothesis about the registry left *)
Theorem C20_url_exact_go :
  forall (avail ip6_ok : str -> bool) plain s r,
    parse avail (go_valid_registry ip6_ok) s = Some r -> r_reference r <> [] ->
    url_is (url_manifest plain r) plain r (b "manifests") /\
    url_is (url_blob plain r) plain r (b "blobs") /\
    url_is (url_referrers plain r) plain r (b "referrers").
Proof. exact url_exact_go. Qed.
Print Assumptions C20_url_exact_go.

Theorem C20_url_exact_noref_go :
  forall (avail ip6_ok : str -> bool) plain s r,
    parse avail (go_valid_registry ip6_ok) s = Some r ->
    url_split (url_taglist plain r)
    = Some (mkParts (scheme plain) (host_of (r_registry r)) (b "/v2/" ++ r_repository r ++ b "/tags/list") None None) /\
    url_split (url_upload plain r)
    = Some (mkParts (scheme plain) (host_of (r_registry r)) (b "/v2/" ++ r_repository r ++ b "/blobs/uploads/") None None).
Proof. exact url_exact_noref_go. Qed.
Print Assumptions C20_url_exact_noref_go.

Theorem C20_op_requests_exact_paths_go :
  forall (avail ip6_ok : str -> bool) op plain breg brepo s d reqs,
    go_valid_registry ip6_ok breg = true -> valid_repository brepo = true -> valid_digest avail d = true ->
    op_requests avail (go_valid_registry ip6_ok) op plain breg brepo s d = Some reqs ->
    exists r, repo_parse avail (go_valid_registry ip6_ok) breg brepo s = Some r /\
      Forall (fun mu => exists seg x,
                (seg = b "manifests" \/ seg = b "blobs") /\ (x = r_reference r \/ x = d) /\
                url_is (snd mu) plain (mkRef breg brepo x) seg) reqs.
Proof. exact op_requests_exact_paths_go. Qed.
Print Assumptions C20_op_requests_exact_paths_go.

(* ... and with the complete model of the validator (netip.ParseAddr modelled too: go_registry):
   the property's URL clause with no parameter and no hypothesis left *)
Theorem C20_url_exact_full :
  forall (avail : str -> bool) plain s r,
    parse avail go_registry s = Some r -> r_reference r <> [] ->
    url_is (url_manifest plain r) plain r (b "manifests") /\
    url_is (url_blob plain r) plain r (b "blobs") /\
    url_is (url_referrers plain r) plain r (b "referrers").
Proof. exact (fun avail => url_exact_go avail go_ip6_ok). Qed.
Print Assumptions C20_url_exact_full.

Example C20_registry_ip6_examples :
  go_registry (b "[::1]:5000") = true /\ go_registry (b "[1.2.3.4]") = false /\
  go_registry (b "[::ffff:1.2.3.4]") = true /\ go_registry (b "[fe80::1%25en0]") = false /\
  go_registry (b "[1:2:3:4:5:6:7:8]") = true /\ go_registry (b "[1:2:3:4:5:6:7:8:9]") = false /\
  go_registry (b "[::1::]") = false /\ go_registry (b "[1:2:3:4:5:6:1.2.3.4]") = true /\
  go_registry (b "[1:2:3:4:5:1.2.3.4]") = false /\ go_registry (b "[12345::]") = false /\
  go_registry (b "[::01.2.3.4]") = false /\ go_registry (b "[]") = false /\ go_registry (b "a[::1]") = false.
Proof. vm_compute. repeat split. Qed.

Example C20_registry_examples :
  go_valid_registry (fun _ => true) (b "localhost:5000") = true /\
  go_valid_registry (fun _ => true) (b "[::1]:5000") = true /\
  go_valid_registry (fun _ => false) (b "[::1]:5000") = false /\
  go_valid_registry (fun _ => true) (b "reg:") = true /\
  go_valid_registry (fun _ => true) (b "u@h") = false /\ go_valid_registry (fun _ => true) (b "h?x") = false /\
  go_valid_registry (fun _ => true) (b "a%41") = false /\ go_valid_registry (fun _ => true) (b "h:80:90") = true /\
  go_valid_registry (fun _ => true) (b "[fe80::1%25en0]") = false /\ go_valid_registry (fun _ => true) (b "h:5a") = false /\
  parse (fun _ => true) (go_valid_registry (fun _ => true)) (b "localhost:5000/hello/world:v1")
  = Some (mkRef (b "localhost:5000") (b "hello/world") (b "v1")).
Proof. vm_compute. repeat split. Qed.

(* ---------- the two query-carrying URL builders ---------- *)

(* url.QueryEscape is inverted by url.QueryUnescape (all byte strings) *)
Theorem C20_query_escape_roundtrip :
  forall s, Forall (fun c => (c < 256)%N) s -> query_unescape (query_escape s) = Some s.
Proof. exact query_escape_roundtrip. Qed.
Print Assumptions C20_query_escape_roundtrip.

(* referrers URL with an artifactType filter: exact path; the query is exactly
   artifactType=<escaped value>; the escaped value has no '&', '=', '#', '?' and decodes to the
   requested artifact type; no fragment -- for EVERY artifact type string *)
Theorem C20_url_referrers_at_exact :
  forall (avail vr : str -> bool) plain r at_,
    (forall reg, vr reg = true -> reg_clean reg = true) ->
    wf_ref avail vr r -> r_reference r <> [] -> at_ <> [] -> Forall (fun c => (c < 256)%N) at_ ->
    url_split (url_referrers_at plain r at_)
    = Some (mkParts (scheme plain) (host_of (r_registry r))
              (b "/v2/" ++ r_repository r ++ b "/referrers/" ++ r_reference r)
              (Some (b "artifactType=" ++ query_escape at_)) None) /\
    query_unescape (query_escape at_) = Some at_ /\
    contains 38 (query_escape at_) = false /\ contains 61 (query_escape at_) = false /\
    contains c_hash (query_escape at_) = false /\ contains c_qm (query_escape at_) = false.
Proof. exact (fun avail vr plain r at_ H => url_referrers_at_exact avail vr H plain r at_). Qed.
Print Assumptions C20_url_referrers_at_exact.

(* blob mount URL (valid digest, valid source repository): exact path, query exactly
   mount=<digest>&from=<repository>, and neither value needs escaping *)
Theorem C20_url_mount_exact :
  forall (avail vr : str -> bool) plain r d from,
    (forall reg, vr reg = true -> reg_clean reg = true) ->
    wf_ref avail vr r -> valid_digest avail d = true -> valid_repository from = true ->
    url_split (url_mount plain r d from)
    = Some (mkParts (scheme plain) (host_of (r_registry r)) (b "/v2/" ++ r_repository r ++ b "/blobs/uploads/")
              (Some (b "mount=" ++ d ++ b "&from=" ++ from)) None) /\
    Forall (fun x => contains x d = false /\ contains x from = false) [38; 61; c_hash; c_pct; 43; c_qm].
Proof. exact (fun avail vr plain r d from H => url_mount_exact avail vr H plain r d from). Qed.
Print Assumptions C20_url_mount_exact.

Example C20_query_examples :
  query_escape (b "a b&c=d/e#f?") = b "a+b%26c%3Dd%2Fe%23f%3F" /\
  url_referrers_at false (mkRef (b "h") (b "a") (b "t")) (b "x/y z") = b "https://h/v2/a/referrers/t?artifactType=x%2Fy+z" /\
  url_referrers_at false (mkRef (b "h") (b "a") (b "t")) [] = b "https://h/v2/a/referrers/t".
Proof. vm_compute. repeat split. Qed.

(* ---------- descriptor-driven operations (Fetch, Delete, Referrers, Mount, Push, Tags) ---------- *)

(* setQueryParams / url.Values.Encode output is decoded by url.ParseQuery to exactly the
   parameters that were put in, for all byte strings as keys and values *)
Theorem C20_parse_query_encode :
  forall ps, ps <> [] -> params_bytes ps -> parse_query (encode_params ps) = Some ps.
Proof. exact parse_query_encode. Qed.
Print Assumptions C20_parse_query_encode.

(* every such operation sends one request, of the documented method, to exactly the operation's
   slot /v2/<base repository>/<slot> of the base registry (authority = host, no user-info, no
   fragment, exact segments); no query where none is documented, otherwise a query that decodes
   to exactly the documented parameters (referrers: artifactType, n; tags: n, last; mount: mount,
   from) -- for every artifact type / last tag byte string, every page size string, every valid
   digest, every valid base *)
Theorem C20_desc_op_requests_exact :
  forall (avail vr : str -> bool) op plain breg brepo d a1 num,
    (forall reg, vr reg = true -> reg_clean reg = true) ->
    vr breg = true -> valid_repository brepo = true -> valid_digest avail d = true ->
    bytes a1 -> bytes num -> (op = DMount -> valid_repository a1 = true) ->
    exists u q,
      desc_op_requests op plain (mkRef breg brepo []) d a1 num = [(desc_op_method op, u)] /\
      url_split u = Some (mkParts (scheme plain) (host_of breg) (path_of brepo (desc_op_slot op d)) q None) /\
      split_on c_slash (path_of brepo (desc_op_slot op d)) = [[]; b "v2"] ++ split_on c_slash brepo ++ desc_op_slot op d /\
      contains c_at (host_of breg) = false /\
      match desc_op_params op d a1 num with
      | [] => q = None
      | ps => exists qs, q = Some qs /\ parse_query qs = Some ps
      end.
Proof. exact (fun avail vr op plain breg brepo d a1 num H => desc_op_requests_exact avail vr H op plain breg brepo d a1 num). Qed.
Print Assumptions C20_desc_op_requests_exact.

Example C20_desc_op_examples :
  desc_op_requests DTags true (mkRef (b "localhost:5000") (b "a/b") []) [] (b "x y&z") (b "50")
  = [(b "GET", b "http://localhost:5000/v2/a/b/tags/list?n=50&last=x+y%26z")] /\
  desc_op_requests DReferrers false (mkRef (b "docker.io") (b "library/x") []) (b "sha256:ab") (b "a/b") []
  = [(b "GET", b "https://registry-1.docker.io/v2/library/x/referrers/sha256:ab?artifactType=a%2Fb")] /\
  parse_query (b "n=50&last=x+y%26z") = Some [(b "n", b "50"); (b "last", b "x y&z")].
Proof. vm_compute. repeat split. Qed.

(* ---------- tie to the Go source ---------- *)

(* the URL builders assembled (Sprintf / Join model) from the string literals the translator reads
   off registry/remote/url.go and Reference.Host on every run are the closed forms the theorems
   above are stated about; the correspondence check runs the assembled ones *)
Theorem C20_generated_builders_agree :
  forall plain r d from at_,
    gen_url_base plain r = url_base plain r /\ gen_url_catalog plain r = url_catalog plain r /\
    gen_url_repo_base plain r = url_repo_base plain r /\ gen_url_taglist plain r = url_taglist plain r /\
    gen_url_manifest plain r = url_manifest plain r /\ gen_url_blob plain r = url_blob plain r /\
    gen_url_upload plain r = url_upload plain r /\ gen_url_referrers plain r = url_referrers plain r /\
    gen_url_mount plain r d from = url_mount plain r d from /\
    gen_url_referrers_at plain r at_ = url_referrers_at plain r at_ /\
    nth 0 ValidateRegistry_lits [] = b "dummy://".
Proof. exact generated_builders_agree. Qed.
Print Assumptions C20_generated_builders_agree.

(* ---------- Reference.Validate ---------- *)

Theorem C20_parse_validate :
  forall (avail ip6_ok : str -> bool) s r,
    parse avail (go_valid_registry ip6_ok) s = Some r -> validate avail (go_valid_registry ip6_ok) r = true.
Proof. exact parse_validate. Qed.
Print Assumptions C20_parse_validate.

(* the round trip holds for every Reference VALUE that passes Validate, not only for parsed ones *)
Theorem C20_validate_roundtrip :
  forall (avail ip6_ok : str -> bool) r,
    validate avail (go_valid_registry ip6_ok) r = true ->
    parse avail (go_valid_registry ip6_ok) (format avail r) = Some r.
Proof. exact validate_roundtrip. Qed.
Print Assumptions C20_validate_roundtrip.

(* ---------- every history of calls on one Repository ---------- *)

(* whatever sequence of reference-taking and descriptor-driven operations is called on a Repository
   with a valid base (reference strings arbitrary; descriptors with valid digests), every request
   ever sent goes to the base registry's host (no user-info), under /v2/<base repository>/, with
   exactly the segments listed, and has no fragment *)
Theorem C20_session_in_base :
  forall (avail vr : str -> bool) plain breg brepo cs,
    (forall reg, vr reg = true -> reg_clean reg = true) ->
    vr breg = true -> valid_repository brepo = true ->
    Forall (call_ok avail) cs ->
    Forall (fun mu => in_base_slot plain breg brepo (snd mu)) (session_requests avail vr plain breg brepo cs).
Proof. exact (fun avail vr plain breg brepo cs H Hb Hp => session_in_base avail vr H plain breg brepo Hb Hp cs). Qed.
Print Assumptions C20_session_in_base.

Example C20_session_example :
  session_requests (fun _ => true) go_registry false (b "localhost:5000") (b "a/b")
    [CRef OpMResolve (b "ghcr.io/Org/app@sha256:e3b0c44298fc1c149afbf4c8996fb92427ae41e4649b934ca495991b7852b855") [];
     CRef OpMResolve (b "v1") []; CDesc DTags [] (b "v 1") []]
  = [(b "HEAD", b "https://localhost:5000/v2/a/b/manifests/v1");
     (b "GET", b "https://localhost:5000/v2/a/b/tags/list?last=v+1")].
Proof. vm_compute. reflexivity. Qed.

(* ---------- every Repository / Registry value the library constructs ---------- *)

(* remote.NewRepository(s) succeeds exactly like ParseReference(s) (same model function) and the
   base of the value it returns satisfies the hypotheses of all Repository theorems above: the
   "valid base" of C20_repo_*, C20_op_*, C20_desc_op_requests_exact and C20_session_in_base is
   what the constructors guarantee, not an assumption about callers *)
Theorem C20_new_repository_base_ok :
  forall (avail vr : str -> bool) s base,
    new_repository avail vr s = Some base ->
    vr (r_registry base) = true /\ valid_repository (r_repository base) = true.
Proof. exact new_repository_base_ok. Qed.
Print Assumptions C20_new_repository_base_ok.

Theorem C20_registry_repository_base_ok :
  forall (vr : str -> bool) name sub reg base,
    new_registry vr name = Some reg -> registry_repository reg sub = Some base ->
    base = mkRef name sub [] /\ vr name = true /\ valid_repository sub = true.
Proof. exact registry_repository_base_ok. Qed.
Print Assumptions C20_registry_repository_base_ok.

(* Registry.Ping / Registry.Repositories: one GET to exactly /v2/ resp. /v2/_catalog *)
Theorem C20_reg_op_requests_exact :
  forall (vr : str -> bool) op plain reg a1 num,
    (forall r, vr r = true -> reg_clean r = true) -> vr reg = true -> bytes a1 -> bytes num ->
    exists u q,
      reg_op_requests op plain reg a1 num = [(m_get, u)] /\
      url_split u = Some (mkParts (scheme plain) (host_of reg) (reg_op_path op) q None) /\
      contains c_at (host_of reg) = false /\
      match reg_op_params op a1 num with
      | [] => q = None
      | ps => exists qs, q = Some qs /\ parse_query qs = Some ps
      end.
Proof. exact reg_op_requests_exact. Qed.
Print Assumptions C20_reg_op_requests_exact.

(* the hand model of Digest.Validate is of exactly this source: go.sum pins go-digest's content *)
Example C20_go_digest_pinned :
  go_digest_pin = (b "v1.0.0", b "h1:apOUWs51W5PlhuyGyz9FCeeBIOUDA/6nW8Oi/yOhh5U=").
Proof. vm_compute. reflexivity. Qed.

(* the characters at which ParseReference / Repository.ParseReference / ValidateReference split are
   the ones of the model: the one-character string literals of those functions, read off the Go
   source on every run *)
Example C20_separators_pinned :
  filter (fun l => Nat.eqb (length l) 1) ParseReference_lits = [[c_slash]; [c_at]; [c_colon]; [c_colon]] /\
  filter (fun l => Nat.eqb (length l) 1) String_lits = [[c_slash]; [c_at]; [c_colon]] /\
  filter (fun l => Nat.eqb (length l) 1) setQueryParams_lits = [[38]; [61]; [61]; [38]].
Proof. vm_compute. repeat split. Qed.

(* ---------- oras.Tag / oras.TagN on a remote Repository (content.go) ---------- *)

(* whatever source / destination strings are passed and whatever the registry serves, every request
   of oras.Tag / oras.TagN on a Repository with a valid base stays in the base repository *)
Theorem C20_oras_tag_in_base :
  forall (avail vr : str -> bool) plain breg brepo src dsts served,
    (forall reg, vr reg = true -> reg_clean reg = true) ->
    vr breg = true -> valid_repository brepo = true ->
    Forall (fun mu => in_base_slot plain breg brepo (snd mu))
           (oras_tag_requests avail vr plain breg brepo src dsts served).
Proof. exact (fun avail vr plain breg brepo src dsts served H Hb Hp => oras_tag_in_base avail vr H plain breg brepo Hb Hp src dsts served). Qed.
Print Assumptions C20_oras_tag_in_base.

(* tag@digest as source and a fully qualified destination send exactly the requests of the bare
   digest and the bare tag *)
Theorem C20_oras_tag_forms_agree :
  forall (avail vr : str -> bool) plain breg brepo t dg d2 served,
    (forall reg, vr reg = true -> reg_clean reg = true) ->
    vr breg = true -> valid_repository brepo = true ->
    valid_tag t = true -> valid_digest avail dg = true -> valid_tag d2 = true ->
    oras_tag_requests avail vr plain breg brepo (t ++ [c_at] ++ dg) [breg ++ [c_slash] ++ brepo ++ [c_colon] ++ d2] served
    = oras_tag_requests avail vr plain breg brepo dg [d2] served.
Proof. exact (fun avail vr plain breg brepo t dg d2 served H Hb Hp => oras_tag_forms_agree avail vr H plain breg brepo Hb Hp t dg d2 served). Qed.
Print Assumptions C20_oras_tag_forms_agree.

(* the hypotheses of the operation theorems are satisfiable together (with the complete validator) *)
Example C20_operation_hypotheses_satisfiable :
  go_registry (b "localhost:5000") = true /\ valid_repository (b "hello/world") = true /\
  valid_digest (fun _ => true) (b "sha256:e3b0c44298fc1c149afbf4c8996fb92427ae41e4649b934ca495991b7852b855") = true /\
  bytes (b "x y&z") /\ valid_repository (b "library/x") = true /\
  new_repository (fun _ => true) go_registry (b "localhost:5000/hello/world:v1")
  = Some (mkRef (b "localhost:5000") (b "hello/world") (b "v1")) /\
  oras_tag_requests (fun _ => true) go_registry false (b "localhost:5000") (b "hello/world") (b "v1")
    [b "localhost:5000/hello/world:v2"; b "ghcr.io/Org/app@sha256:00"; b "v3"] (b "sha256:00")
  = [(b "GET", b "https://localhost:5000/v2/hello/world/manifests/v1");
     (b "PUT", b "https://localhost:5000/v2/hello/world/manifests/v2")].
Proof. repeat split; try (vm_compute; reflexivity). repeat constructor. Qed.

(* ---------- Digest.Validate tied to go-digest's source ---------- *)

(* the digest check assembled from go-digest's own algorithm table (names, hash sizes, anchored
   regexes of the encoded part, read off the pinned module's algorithm.go on every run; this is
   what the correspondence runs) is the closed form valid_digest all theorems are stated about *)
Theorem C20_digest_from_source :
  forall (avail : str -> bool) s, valid_digest_gen avail s = valid_digest avail s.
Proof. exact valid_digest_gen_eq. Qed.
Print Assumptions C20_digest_from_source.

Example C20_go_digest_table :
  map (fun p => (fst (fst p), snd (fst p))) go_digest_algorithms
  = [(b "sha256", 64%nat); (b "sha384", 96%nat); (b "sha512", 128%nat)].
Proof. vm_compute. reflexivity. Qed.

(* ---------- the operation theorems with the modelled validator: no premise about the registry ---------- *)

Theorem C20_desc_op_requests_exact_go :
  forall (avail ip6_ok : str -> bool) op plain breg brepo d a1 num,
    go_valid_registry ip6_ok breg = true -> valid_repository brepo = true -> valid_digest avail d = true ->
    bytes a1 -> bytes num -> (op = DMount -> valid_repository a1 = true) ->
    exists u q,
      desc_op_requests op plain (mkRef breg brepo []) d a1 num = [(desc_op_method op, u)] /\
      url_split u = Some (mkParts (scheme plain) (host_of breg) (path_of brepo (desc_op_slot op d)) q None) /\
      split_on c_slash (path_of brepo (desc_op_slot op d)) = [[]; b "v2"] ++ split_on c_slash brepo ++ desc_op_slot op d /\
      contains c_at (host_of breg) = false /\
      match desc_op_params op d a1 num with
      | [] => q = None
      | ps => exists qs, q = Some qs /\ parse_query qs = Some ps
      end.
Proof. exact desc_op_requests_exact_go. Qed.
Print Assumptions C20_desc_op_requests_exact_go.

Theorem C20_reg_op_requests_exact_go :
  forall (ip6_ok : str -> bool) op plain reg a1 num,
    go_valid_registry ip6_ok reg = true -> bytes a1 -> bytes num ->
    exists u q,
      reg_op_requests op plain reg a1 num = [(m_get, u)] /\
      url_split u = Some (mkParts (scheme plain) (host_of reg) (reg_op_path op) q None) /\
      contains c_at (host_of reg) = false /\
      match reg_op_params op a1 num with
      | [] => q = None
      | ps => exists qs, q = Some qs /\ parse_query qs = Some ps
      end.
Proof. exact reg_op_requests_exact_go. Qed.
Print Assumptions C20_reg_op_requests_exact_go.

(* end to end: a Repository made by remote.NewRepository(s0) for ANY string s0 that it accepts,
   then ANY history of calls (reference strings arbitrary, descriptors with valid digests), resp.
   oras.Tag / oras.TagN with arbitrary arguments: every request stays in that repository.  No
   premise about the registry or the base is left. *)
Theorem C20_new_repository_session_in_base :
  forall (avail ip6_ok : str -> bool) s0 base plain cs,
    new_repository avail (go_valid_registry ip6_ok) s0 = Some base -> Forall (call_ok avail) cs ->
    Forall (fun mu => in_base_slot plain (r_registry base) (r_repository base) (snd mu))
           (session_requests avail (go_valid_registry ip6_ok) plain (r_registry base) (r_repository base) cs).
Proof. exact new_repository_session_in_base. Qed.
Print Assumptions C20_new_repository_session_in_base.

Theorem C20_new_repository_oras_tag_in_base :
  forall (avail ip6_ok : str -> bool) s0 base plain src dsts served,
    new_repository avail (go_valid_registry ip6_ok) s0 = Some base ->
    Forall (fun mu => in_base_slot plain (r_registry base) (r_repository base) (snd mu))
           (oras_tag_requests avail (go_valid_registry ip6_ok) plain (r_registry base) (r_repository base) src dsts served).
Proof. exact new_repository_oras_tag_in_base. Qed.
Print Assumptions C20_new_repository_oras_tag_in_base.

Theorem C20_url_referrers_at_exact_go :
  forall (avail ip6_ok : str -> bool) plain s r at_,
    parse avail (go_valid_registry ip6_ok) s = Some r -> r_reference r <> [] -> at_ <> [] -> bytes at_ ->
    url_split (url_referrers_at plain r at_)
    = Some (mkParts (scheme plain) (host_of (r_registry r))
              (b "/v2/" ++ r_repository r ++ b "/referrers/" ++ r_reference r)
              (Some (b "artifactType=" ++ query_escape at_)) None) /\
    query_unescape (query_escape at_) = Some at_.
Proof. exact url_referrers_at_exact_go. Qed.
Print Assumptions C20_url_referrers_at_exact_go.

(* ---------- net/url's escaping table tied to the toolchain source ---------- *)

Theorem C20_neturl_classes_from_source :
  forall c, (c < 256)%N ->
    host_plain c = mem_c c neturl_encodeHost /\ host_plain c = mem_c c neturl_encodeZone /\
    query_plain c = mem_c c neturl_encodeQueryComponent /\ is_hex_c c = mem_c c neturl_hexChar.
Proof. exact neturl_classes_from_source. Qed.
Print Assumptions C20_neturl_classes_from_source.
