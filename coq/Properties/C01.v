(* C01 -- Copy replicates the whole rooted DAG and tags the root.
   Only statements closed by [exact]; the lemmas live in Proofs/CopySpec.v.  The
   transition system is Model/CopySpec.v (trace acceptor of copy.go's visible events);
   [accepts g c d0 tr = Some st] says: tr is a run of Copy/CopyGraph on the content
   universe g, configuration c (concurrency, mode, root, initial proxy cache), started
   with the destination holding the nodes d0.  Quantifying over tr quantifies over every
   interleaving of the visible events of every schedule. *)
From Oras Require Import Base.Prelude Generated.GC01 Model.CopySpec Model.CopyTop Model.CopyOpt
  Model.CopyCancel Model.CopyLinks Proofs.CopySpec Proofs.CopyAcct Proofs.CopyOpt Proofs.CopyCancel
  Proofs.CopyLinks Proofs.CopyCode Model.CopyBytes Proofs.CopyBytes Model.CopyExt Proofs.CopyExt.
Local Open Scope nat_scope.

(* Success => every node reachable from the root (foreign layers cut) is in the
   destination -- for every graph, root, link-closed initial destination, concurrency,
   mode and accepted trace.  [mt_consistent] is needed for digest-keyed destinations
   only (it holds trivially when g_dkey is injective, e.g. the memory store). *)
Theorem C01_closure :
  forall (g : graph) (c : cfg) (d0 : list node) (tr : list event) (st : state),
    closed_nodes g d0 -> mt_consistent g ->
    accepts g c d0 tr = Some st -> returned st = Some true ->
    forall n, reach g (c_root c) n -> has g (dst st) n = true.
Proof. exact closure_lemma. Qed.
Print Assumptions C01_closure.

(* ... and the final destination is exactly the deterministic copy_result (content
   addressing makes the graph well-founded: rank). *)
Theorem C01_copy_result :
  forall (g : graph) (c : cfg) (d0 : list node) (rank : node -> nat),
    (forall n x, In x (succ' g n) -> rank x < rank n) ->
    forall (tr : list event) (st : state) (fuel : nat),
    c_xroots c = [] ->   (* Copy / CopyGraph: one root *)
    closed_nodes g d0 -> mt_consistent g -> rank (c_root c) < fuel ->
    accepts g c d0 tr = Some st -> returned st = Some true ->
    forall n, has g (dst st) n = has g (copy_result g d0 fuel (c_root c)) n.
Proof. exact copy_result_lemma. Qed.
Print Assumptions C01_copy_result.

(* Copy: after a successful return the destination reference is the root, for Tagger
   and ReferencePusher destinations, root copied, already present or mounted.  [tag_ok]
   holds for the current code: c_tagmounted = true since the fix of finding
   mounted-root-untagged (before it, only when the root cannot be mounted). *)
Theorem C01_tagged :
  forall (g : graph) (c : cfg) (d0 : list node) (tr : list event) (st : state),
    accepts g c d0 tr = Some st -> returned st = Some true -> c_mode c <> MGraph ->
    tag_ok g c = true ->
    tag st = Some (c_root c).
Proof. exact tagged_lemma. Qed.
Print Assumptions C01_tagged.

(* the same at the level of Copy's arguments (the configuration copy_cfg is that of the
   current code, c_tagmounted = true): the effective reference (the source reference
   when the destination reference is blank) resolves to the (mapped) root that Copy
   returns, for every destination kind including Mounter destinations; the concurrency
   default is the constant regenerated from copy.go *)
Theorem C01_tagged_top :
  forall (g : graph) (opt : Z) (refpusher mount : bool) (root : node)
         (cached0 d0 : list node) (tags0 : str -> option node) (srcRef dstRef : str) tr st,
    accepts g (copy_cfg defaultConcurrency opt refpusher mount root cached0) d0 tr = Some st ->
    returned st = Some true ->
    tags_after tags0 (eff_ref srcRef dstRef) st (eff_ref srcRef dstRef) = Some root.
Proof. exact (fun g => copy_tagged_lemma g defaultConcurrency). Qed.
Print Assumptions C01_tagged_top.

Theorem C01_blank_reference : forall srcRef, eff_ref srcRef [] = srcRef.
Proof. exact eff_ref_blank. Qed.
Print Assumptions C01_blank_reference.

(* F12: without mt_consistent the closure statement is false for the model of the
   current code (digest-keyed destination pre-populated with a manifest's bytes under
   another media type). *)
Theorem C01_closure_refuted_without_mt_consistency :
  exists g c d0 tr st,
    closed_nodes g d0 /\ accepts g c d0 tr = Some st /\ returned st = Some true /\
    exists n, reach g (c_root c) n /\ has g (dst st) n = false.
Proof. exact closure_refuted_without_mt_consistency. Qed.
Print Assumptions C01_closure_refuted_without_mt_consistency.

(* the code before the fix (c_tagmounted = false): a blob root that gets mounted
   triggers OnMounted, which prepareCopy did not wrap, so Copy returned success without
   tagging -- the finding mounted-root-untagged, repaired by a `fix:` commit *)
Theorem C01_tagged_refuted_for_mounted_blob_root_prefix :
  exists g c d0 tr st,
    c_tagmounted c = false /\
    closed_nodes g d0 /\ accepts g c d0 tr = Some st /\ returned st = Some true /\
    c_mode c <> MGraph /\ tag st <> Some (c_root c).
Proof. exact tagged_refuted_for_mounted_blob_root. Qed.
Print Assumptions C01_tagged_refuted_for_mounted_blob_root_prefix.

(* F12 does not need a pre-populated destination: EMPTY digest-keyed destination, source
   graph in which a manifest's bytes also occur as a (reachable) blob; the blob is pushed
   first, Exists(manifest) then answers true.  So [mt_consistent] is a restriction of the
   property's quantifier over SOURCE graphs ("same bytes under two media types" is covered
   only when both descriptors have the same successors, e.g. both are blobs) for digest-keyed
   destinations -- known finding twin-digest-exists. *)
Theorem C01_closure_refuted_in_call :
  exists g c tr st,
    closed_nodes g [] /\ accepts g c [] tr = Some st /\ returned st = Some true /\
    tag st = Some (c_root c) /\
    exists n, reach g (c_root c) n /\ has g (dst st) n = false.
Proof. exact closure_refuted_in_call. Qed.
Print Assumptions C01_closure_refuted_in_call.

(* hypotheses are satisfiable: a concrete 4-node run (shared blob, duplicate successor,
   one node already present, Tagger destination) *)
Example C01_example :
  closed_nodes g_ex [1] /\ mt_consistent g_ex /\
  (forall n x, In x (succ' g_ex n) -> x < n) /\
  exists st, accepts g_ex c_ex [1] tr_ex = Some st /\ returned st = Some true /\
             tag st = Some 3 /\ present_nodes g_ex (dst st) = [0; 1; 2; 3].
Proof. exact example_run. Qed.

(* ---- optional callbacks (Model/CopyOpt.v) ----
   [cs : cbset] says which of PreCopy / PostCopy / OnCopySkipped / OnMounted are set
   (cs = fun _ => false: the default options).  [accepts_opt cs g c d0 tr = Some (st, full)]:
   the recorded trace tr, which contains no event of a nil callback, is a run of
   Copy/CopyGraph; full is its elaboration (the nil callbacks' invocation points made
   explicit), accepted by the transition system.  The three C01 statements hold for every
   choice of cs. *)
Theorem C01_closure_any_callbacks :
  forall (cs : cbset) (g : graph) (c : cfg) (d0 : list node) (tr : list event) (st : state)
         (full : list event),
    closed_nodes g d0 -> mt_consistent g ->
    accepts_opt cs g c d0 tr = Some (st, full) -> returned st = Some true ->
    forall n, reach g (c_root c) n -> has g (dst st) n = true.
Proof. exact closure_opt. Qed.
Print Assumptions C01_closure_any_callbacks.

Theorem C01_copy_result_any_callbacks :
  forall (cs : cbset) (g : graph) (c : cfg) (d0 : list node) (rank : node -> nat),
    (forall n x, In x (succ' g n) -> rank x < rank n) ->
    forall (tr : list event) (st : state) (full : list event) (fuel : nat),
    c_xroots c = [] ->
    closed_nodes g d0 -> mt_consistent g -> rank (c_root c) < fuel ->
    accepts_opt cs g c d0 tr = Some (st, full) -> returned st = Some true ->
    forall n, has g (dst st) n = has g (copy_result g d0 fuel (c_root c)) n.
Proof. exact copy_result_opt. Qed.
Print Assumptions C01_copy_result_any_callbacks.

(* the tag: root copied, already present or mounted, Tagger or ReferencePusher, and the
   user's PostCopy / OnCopySkipped / OnMounted hook nil or set *)
Theorem C01_tagged_any_callbacks :
  forall (cs : cbset) (g : graph) (c : cfg) (d0 : list node) (tr : list event) (st : state)
         (full : list event),
    accepts_opt cs g c d0 tr = Some (st, full) -> returned st = Some true ->
    c_mode c <> MGraph -> tag_ok g c = true -> tag st = Some (c_root c).
Proof. exact tagged_opt. Qed.
Print Assumptions C01_tagged_any_callbacks.

(* the recorded trace is the elaborated one minus the nil callbacks' events *)
Theorem C01_elaboration :
  forall (cs : cbset) (g : graph) (c : cfg) (d0 : list node) (tr : list event) (st : state)
         (full : list event),
    accepts_opt cs g c d0 tr = Some (st, full) ->
    accepts g c d0 full = Some st /\ erase cs full = tr.
Proof. exact elaboration_lemma. Qed.
Print Assumptions C01_elaboration.

(* satisfiable with the default options: the root is already present in a Tagger destination,
   no hook is set, and the only events are Exists and Tag *)
Example C01_example_default_options :
  exists st full,
    accepts_opt (fun _ => false) g_ex c_ex [0; 1; 2; 3] [ExB 3; ExE 3 true; TagB 3; TagE 3; Ret true]
      = Some (st, full) /\
    returned st = Some true /\ tag st = Some 3 /\ In (Cb CSkip 3) full.
Proof. exact example_default_options. Qed.

(* WithTargetPlatform on a manifest list (platform.SelectManifest / Match, modelled in
   Model/CopyTop.v and compared with the implementation on every generated platform case):
   the mapped root is exactly the first entry whose platform matches; no entry matches =>
   Copy fails before copying (prologue) *)
Theorem C01_platform_selection :
  forall (entries : list (node * option plat)) (want : plat) (n : node),
    select_manifest entries want = Some n <->
    exists l1 p l2, entries = l1 ++ (n, p) :: l2 /\ plat_match p want = true /\
                    forall m q, In (m, q) l1 -> plat_match q want = false.
Proof. exact select_manifest_spec. Qed.
Print Assumptions C01_platform_selection.

Theorem C01_platform_no_match :
  forall (entries : list (node * option plat)) (want : plat),
    select_manifest entries want = None <->
    forall m q, In (m, q) entries -> plat_match q want = false.
Proof. exact select_manifest_none. Qed.
Print Assumptions C01_platform_no_match.

(* satisfiable also for: ReferencePusher with the root already present (re-push with the reference),
   a Mounter destination that mounts the (blob) root and tags it, and two roots (ExtendedCopyGraph) *)
Example C01_examples_refpusher_mount_tworoots :
  (exists st, accepts g_ex (mkCfg 2 MRefPush 3 false true [] []) [0; 1; 2; 3]
                [ExB 3; ExE 3 true; SFB 3; SFE 3; PuB 3 true; PuE 3 true PExists; SFC 3; Ret true] = Some st /\
              returned st = Some true /\ tag st = Some 3) /\
  (exists st, accepts g_blob (mkCfg 3 MTagger 0 true true [] []) []
                [ExB 0; ExE 0 false; Cb CMountFrom 0; MtB 0; MtE 0 MMounted; Cb CMounted 0;
                 TagB 0; TagE 0; Ret true] = Some st /\
              returned st = Some true /\ tag st = Some 0 /\ present_nodes g_blob (dst st) = [0]) /\
  (exists st, accepts g_ex (mkCfg 2 MGraph 3 false true [] [2]) [0; 1; 2; 3]
                [ExB 3; ExE 3 true; Cb CSkip 3; ExB 2; ExE 2 true; Cb CSkip 2; Ret true] = Some st /\
              returned st = Some true).
Proof. exact example_runs_more. Qed.

(* ---- the caller's context ends during (or before) the call (Model/CopyCancel.v) ----
   [caccepts_opt cs g c d0 tr = Some (s, full)]: tr is a recorded run with [Cancel] marks where
   the harness ended the context; after a Cancel an error return is accepted in any state
   (abandoned tasks), a SUCCESSFUL return still needs the root Done and nothing in progress --
   the content of syncutil.Go's final "return context.Cause(ctx)".  So success means closure
   and tag whatever cancellation did, and success without any event on the root is impossible
   (the run "context ended before the root task started, yet nil" is not a run). *)
Theorem C01_closure_under_cancellation :
  forall (cs : cbset) (g : graph) (c : cfg) (d0 : list node) (tr : list cevent) (s : cstate)
         (full : list event),
    closed_nodes g d0 -> mt_consistent g ->
    caccepts_opt cs g c d0 tr = Some (s, full) -> returned (cs_st s) = Some true ->
    forall n, reach g (c_root c) n -> has g (dst (cs_st s)) n = true.
Proof. exact closure_under_cancellation. Qed.
Print Assumptions C01_closure_under_cancellation.

Theorem C01_tagged_under_cancellation :
  forall (cs : cbset) (g : graph) (c : cfg) (d0 : list node) (tr : list cevent) (s : cstate)
         (full : list event),
    caccepts_opt cs g c d0 tr = Some (s, full) -> returned (cs_st s) = Some true ->
    c_mode c <> MGraph -> tag_ok g c = true -> tag (cs_st s) = Some (c_root c).
Proof. exact tagged_under_cancellation. Qed.
Print Assumptions C01_tagged_under_cancellation.

Theorem C01_no_success_without_work :
  forall (cs : cbset) (g : graph) (c : cfg) (d0 : list node) (tr : list cevent) (s : cstate)
         (full : list event),
    caccepts_opt cs g c d0 tr = Some (s, full) -> returned (cs_st s) = Some true ->
    exists e, In (Ev e) tr /\ ev_node e = Some (c_root c).
Proof. exact no_success_without_work. Qed.
Print Assumptions C01_no_success_without_work.

(* satisfiable: an already-ended context gives an error return with no event at all; a context
   that ends after the work is done does not prevent success *)
Example C01_examples_cancellation :
  (exists s, caccepts_opt all_set g_ex c_ex [1] [Cancel; Ev (Ret false)] = Some (s, []) /\
             returned (cs_st s) = Some false) /\
  (exists s full, caccepts_opt (fun _ => false) g_ex c_ex [0; 1; 2; 3]
                    [Ev (ExB 3); Ev (ExE 3 true); Ev (TagB 3); Cancel; Ev (TagE 3); Ev (Ret true)] = Some (s, full) /\
                  returned (cs_st s) = Some true /\ tag (cs_st s) = Some 3).
Proof. exact examples_cancellation. Qed.

(* ---- the links (Model/CopyLinks.v) ----
   The successor function is no longer only a parameter: [successors] applies the link schema
   that tools/gosrc2v regenerates from the five cases of content.Successors (successors_schema)
   to a manifest's decoded fields; [linked] is the property's own link relation ("config,
   layer, blob, manifest-list and subject links", per media type as the OCI / Docker
   specifications define them).  The two coincide, for every media type and every field
   contents; an edit to content.Successors that drops, adds or conditions a link breaks the
   translation or this theorem. *)
Theorem C01_link_schema_is_spec :
  forall (f : mfields) (x : node), linked f x <-> In x (successors f).
Proof. exact schema_is_spec. Qed.
Print Assumptions C01_link_schema_is_spec.

(* descriptor.IsManifest (what copyGraph reads through the caching proxy) names exactly the media
   types that content.Successors decodes; none of them is a foreign layer type *)
Theorem C01_manifest_types_have_schema :
  forall mt, is_manifest_mt mt = true <-> lookup_schema successors_schema mt <> None.
Proof. exact schema_labels_are_manifests. Qed.
Print Assumptions C01_manifest_types_have_schema.

Theorem C01_manifest_not_foreign :
  forall mt, is_manifest_mt mt = true -> is_foreign_mt mt = false.
Proof. exact manifest_not_foreign. Qed.
Print Assumptions C01_manifest_not_foreign.

(* closure stated over the property's links, with the content universe built from the nodes'
   fields by the generated tables (successors, IsManifest, IsForeignLayer): success => every node
   reachable through config / layer / blob / manifest-list / subject links, foreign layers cut, is
   in the destination *)
Theorem C01_closure_over_links :
  forall (n : nat) (flds : node -> mfields) (dkey : node -> nat) (c : cfg) (d0 : list node)
         (tr : list event) (st : state),
    closed_nodes (graph_of n flds dkey) d0 -> mt_consistent (graph_of n flds dkey) ->
    accepts (graph_of n flds dkey) c d0 tr = Some st -> returned st = Some true ->
    forall x, lreach flds (c_root c) x -> has (graph_of n flds dkey) (dst st) x = true.
Proof. exact closure_links. Qed.
Print Assumptions C01_closure_over_links.

(* Copy end to end in the model: the root is what the prologue computes (resolve, MapRoot, platform
   selection = first matching entry); a successful run replicates that root's graph and the
   effective destination reference resolves to it *)
Theorem C01_copy_top :
  forall (g : graph) (opt : Z) (refpusher mount : bool) (cached0 d0 : list node)
         (tags0 : str -> option node) (srcRef dstRef : str)
         (resolved : option node) (user_map : option (node -> option node)) (platform : option plat)
         (entries_of : node -> option (list (node * option plat))) (root : node) tr st,
    copy_root resolved user_map platform entries_of = Some root ->
    closed_nodes g d0 -> mt_consistent g ->
    accepts g (copy_cfg defaultConcurrency opt refpusher mount root cached0) d0 tr = Some st ->
    returned st = Some true ->
    tags_after tags0 (eff_ref srcRef dstRef) st (eff_ref srcRef dstRef) = Some root /\
    (forall n, reach g root n -> has g (dst st) n = true).
Proof. exact (fun g => copy_top_lemma g defaultConcurrency). Qed.
Print Assumptions C01_copy_top.

Theorem C01_copy_root_is_platform_selection :
  forall resolved platform_want entries_of r es root,
    resolved = Some r -> entries_of r = Some es ->
    copy_root resolved None (Some platform_want) entries_of = Some root ->
    select_manifest es platform_want = Some root.
Proof. exact copy_root_platform. Qed.
Print Assumptions C01_copy_root_is_platform_selection.

(* the order of effects the model assumes, as facts about the call sequences regenerated from
   copy.go / syncutil (layer T): in particular syncutil.Go ends with `return context.Cause(ctx)` *)
Theorem C01_code_order_syncutil_go :
  calls_syncutilGo =
  [b "cancel"; b "region.Start"; b "cancel"; b "eg.Go"; b "lr.End"; b "fn"; b "cancel"; b "eg.Wait";
   b "cancel"; b "context.Cause"] /\
  go_final_return = ["context.Cause(ctx)"%string].
Proof. exact order_syncutilGo. Qed.
Print Assumptions C01_code_order_syncutil_go.

Theorem C01_code_order_copy :
  calls_Copy = [b "resolveRoot"; b "opts.MapRoot"; b "prepareCopy"; b "copyGraph"] /\
  calls_copyNode = [b "opts.PreCopy"; b "doCopyNode"; b "opts.PostCopy"] /\
  calls_doCopyNode = [b "src.Fetch"; b "rc.Close"; b "dst.Push"].
Proof. exact (conj order_Copy (conj order_copyNode order_doCopyNode)). Qed.
Print Assumptions C01_code_order_copy.

(* Copy's prologue in the model (CopyTop.prologue_fetches / cache_after_resolve, compared with the
   wrappers' prologue observations on every Copy case): it reads only the resolved root, the mapped
   root and -- for a target platform on an image manifest -- that manifest's config blob *)
Theorem C01_prologue_reads :
  forall reffetch root0 mapped pt cache x,
    In x (prologue_fetches reffetch root0 mapped pt cache) ->
    x = root0 \/ x = mapped \/ (exists ok, pt = PTImage x ok).
Proof. exact prologue_fetches_nodes. Qed.
Print Assumptions C01_prologue_reads.

(* ExtendedCopyGraph's walk from several roots (c_root :: c_xroots share tracker, proxy, limiter):
   success => the graph of EVERY root is in the destination *)
Theorem C01_closure_all_roots :
  forall (g : graph) (c : cfg) (d0 : list node) (tr : list event) (st : state),
    closed_nodes g d0 -> mt_consistent g ->
    accepts g c d0 tr = Some st -> returned st = Some true ->
    forall r n, In r (c_root c :: c_xroots c) -> reach g r n -> has g (dst st) n = true.
Proof. exact closure_all_roots. Qed.
Print Assumptions C01_closure_all_roots.

(* removeForeignLayers, modelled as the code writes it (in-place compaction with a read and a write
   index; run against the real function on every generated successor list), is the filter that the
   transition system's [succ'] uses -- so "foreign layers excepted" is exactly IsForeignLayer's table *)
Theorem C01_remove_foreign_layers :
  forall (foreign : node -> bool) (descs : list node),
    remove_foreign_inplace foreign descs = filter (fun x => negb (foreign x)) descs.
Proof. exact remove_foreign_inplace_is_filter. Qed.
Print Assumptions C01_remove_foreign_layers.

Theorem C01_succ_is_remove_foreign :
  forall (g : graph) (n : node), succ' g n = remove_foreign_inplace (g_foreign g) (g_succ g n).
Proof. exact succ'_is_remove_foreign. Qed.
Print Assumptions C01_succ_is_remove_foreign.

(* "every goroutine interleaving": for mt_consistent graphs the content of the destination after a
   successful Copy / CopyGraph does not depend on the interleaving at all ... *)
Theorem C01_outcome_schedule_independent :
  forall (g : graph) (c : cfg) (d0 : list node) (rank : node -> nat) (tr1 tr2 : list event)
         (st1 st2 : state),
    (forall n x, In x (succ' g n) -> rank x < rank n) ->
    c_xroots c = [] -> closed_nodes g d0 -> mt_consistent g ->
    accepts g c d0 tr1 = Some st1 -> returned st1 = Some true ->
    accepts g c d0 tr2 = Some st2 -> returned st2 = Some true ->
    forall n, has g (dst st1) n = has g (dst st2) n.
Proof. exact outcome_schedule_independent. Qed.
Print Assumptions C01_outcome_schedule_independent.

(* ... whereas for the graph of the known finding twin-digest-exists two schedules of the same copy
   into the same EMPTY digest-keyed destination both succeed and end differently *)
Theorem C01_outcome_schedule_dependent_refuted_without_mt_consistency :
  exists g c (rank : node -> nat) tr1 tr2 st1 st2 n,
    (forall m x, In x (succ' g m) -> rank x < rank m) /\ c_xroots c = [] /\ closed_nodes g [] /\
    accepts g c [] tr1 = Some st1 /\ returned st1 = Some true /\
    accepts g c [] tr2 = Some st2 /\ returned st2 = Some true /\
    has g (dst st1) n <> has g (dst st2) n.
Proof. exact outcome_schedule_dependent_without_mt_consistency. Qed.
Print Assumptions C01_outcome_schedule_dependent_refuted_without_mt_consistency.

Theorem C01_code_blank_reference_and_proxy :
  copy_blank_dstref_rule = ["dstRef == ''"%string; "dstRef = srcRef"%string] /\
  calls_proxyFetch = [b "p.FetchCached"; b "p.Cache.Fetch"; b "p.ReadOnlyStorage.Fetch"; b "p.Cache.Push"] /\
  calls_proxyFetchCached = [b "p.Cache.Exists"; b "p.Cache.Fetch"; b "p.ReadOnlyStorage.Fetch"].
Proof. exact (conj rule_blank_dstref order_proxy). Qed.
Print Assumptions C01_code_blank_reference_and_proxy.

(* WithTargetPlatform on an image-manifest root (compared with the implementation on every such case):
   the root is kept iff its config has the image-config media type and the platform decoded from the
   config blob matches; anything that is neither a manifest list nor an image manifest is refused *)
Theorem C01_platform_on_image :
  forall r ok p want x,
    select_target r (PVImage ok p) want = Some x <-> x = r /\ ok = true /\ plat_match p want = true.
Proof. exact select_target_image. Qed.
Print Assumptions C01_platform_on_image.

(* ---- "with bytes identical to the source" (Model/CopyBytes.v) ----
   Along the accepted trace every storing event (successful Push / PushReference, Mount that mounted
   or uploaded) receives ARBITRARY bytes ([served]: the copy is not trusted to hand over the right
   reader) and the destination keeps them only if they pass its verification against the node's
   descriptor (digest + size; what the stores' Push really checks is property C05).  Then, for a
   digest without collisions on the universe and a destination key that is a function of the content
   or of the node: after a successful Copy / CopyGraph every node reachable from the root is held by
   the destination with exactly the source's bytes.  Premises named in the statement:
   [collision_free] (SHA-2 is abstract), [key_respects_bytes], and that the pre-existing content was
   verified content too. *)
Theorem C01_bytes_identical :
  forall (digest : str -> nat) (src_bytes : node -> str)
         (g : graph) (c : cfg) (d0 : list node) (tr : list event) (st : state)
         (served : list str) (bs0 bs : bstore),
    closed_nodes g d0 -> mt_consistent g ->
    collision_free digest src_bytes -> key_respects_bytes src_bytes g ->
    (forall n b, In (n, b) bs0 -> verify digest src_bytes n b = true) -> map fst bs0 = d0 ->
    accepts g c d0 tr = Some st -> returned st = Some true ->
    brun digest src_bytes tr served bs0 = Some bs ->
    forall n, reach g (c_root c) n ->
      exists m b, In (m, b) bs /\ g_dkey g m = g_dkey g n /\ b = src_bytes n.
Proof. exact bytes_identical. Qed.
Print Assumptions C01_bytes_identical.

(* bytes that do not match the descriptor never become visible: the storing event cannot happen *)
Theorem C01_wrong_bytes_rejected :
  forall (digest : str -> nat) (src_bytes : node -> str) n ref r served b bs,
    verify digest src_bytes n b = false ->
    brun digest src_bytes (PuE n ref POk :: r) (b :: served) bs = None.
Proof. exact wrong_bytes_rejected. Qed.
Print Assumptions C01_wrong_bytes_rejected.

(* the destination's node set and its byte-level content move together *)
Theorem C01_dst_is_what_was_stored :
  forall (g : graph) (c : cfg) (tr : list event) (st st' : state),
    run g c st tr = Some st' -> dst st' = stored_nodes tr (dst st).
Proof. exact run_dst_stores. Qed.
Print Assumptions C01_dst_is_what_was_stored.

Example C01_example_bytes :
  let digest := fun s : str => match s with [x] => N.to_nat x | _ => 0 end in
  let src := fun n : node => [N.of_nat (S n)] in
  collision_free digest src /\
  exists bs, brun digest src [PuE 0 false POk; PuE 1 false POk] [[1%N]; [2%N]] [] = Some bs /\
             bs = [(1, [2%N]); (0, [1%N])].
Proof. exact bytes_example. Qed.

(* ---- ExtendedCopy end to end (Model/CopyExt.v): the walk from every root above the node, then dst.Tag(node, dstRef) ---- *)

(* success => the reference is on the node and everything reachable from every root is in the destination *)
Theorem C01_extended_copy :
  forall (g : graph) (c : cfg) (tgt : node) (d0 : list node) (tr : list event) (st : state),
    closed_nodes g d0 -> mt_consistent g ->
    xaccepts g c tgt d0 tr = Some st -> returned st = Some true ->
    tag st = Some tgt /\
    forall r n, In r (c_root c :: c_xroots c) -> reach g r n -> has g (dst st) n = true.
Proof. exact extended_copy_lemma. Qed.
Print Assumptions C01_extended_copy.

(* in particular the node's own graph, whenever some root reaches the node *)
Theorem C01_extended_copy_node_graph :
  forall (g : graph) (c : cfg) (tgt : node) (d0 : list node) (tr : list event) (st : state) (r : node),
    closed_nodes g d0 -> mt_consistent g ->
    xaccepts g c tgt d0 tr = Some st -> returned st = Some true ->
    In r (c_root c :: c_xroots c) -> reach g r tgt ->
    forall n, reach g tgt n -> has g (dst st) n = true.
Proof. exact extended_copy_node_graph. Qed.
Print Assumptions C01_extended_copy_node_graph.

(* the reference is written once, last, after the walk of all roots returned success *)
Theorem C01_extended_copy_tag_last :
  forall (g : graph) (c : cfg) (tgt : node) (d0 : list node) (tr : list event) (st : state),
    xaccepts g c tgt d0 tr = Some st -> returned st = Some true ->
    exists walk st1, accepts g c d0 (walk ++ [Ret true]) = Some st1 /\ returned st1 = Some true /\
                     dst st = dst st1 /\ tr = walk ++ [TagB tgt; TagE tgt; Ret true].
Proof. exact extended_copy_tag_last. Qed.
Print Assumptions C01_extended_copy_tag_last.

(* a run that does not return success leaves the reference untouched *)
Theorem C01_extended_copy_failure_untagged :
  forall (g : graph) (c : cfg) (tgt : node) (d0 : list node) (tr : list event) (st : state),
    c_mode c = MGraph ->
    xaccepts g c tgt d0 tr = Some st -> returned st <> Some true -> tag st = None.
Proof. exact extended_copy_failure_untagged. Qed.
Print Assumptions C01_extended_copy_failure_untagged.

(* byte identity from every root (ExtendedCopyGraph) *)
Theorem C01_bytes_identical_all_roots :
  forall (digest : str -> nat) (src_bytes : node -> str)
         (g : graph) (c : cfg) (d0 : list node) (tr : list event) (st : state) served bs0 bs,
    closed_nodes g d0 -> mt_consistent g ->
    collision_free digest src_bytes -> key_respects_bytes src_bytes g ->
    (forall n b, In (n, b) bs0 -> verify digest src_bytes n b = true) -> map fst bs0 = d0 ->
    accepts g c d0 tr = Some st -> returned st = Some true ->
    brun digest src_bytes tr served bs0 = Some bs ->
    forall r n, In r (c_root c :: c_xroots c) -> reach g r n ->
      exists m b, In (m, b) bs /\ g_dkey g m = g_dkey g n /\ b = src_bytes n.
Proof. exact bytes_identical_all_roots. Qed.
Print Assumptions C01_bytes_identical_all_roots.

(* ExtendedCopy, complete statement: reference on the node + every node under every root present with the source's bytes *)
Theorem C01_extended_copy_bytes :
  forall (digest : str -> nat) (src_bytes : node -> str)
         (g : graph) (c : cfg) (tgt : node) (d0 : list node) (tr : list event) (st : state) served bs0 bs,
    closed_nodes g d0 -> mt_consistent g ->
    collision_free digest src_bytes -> key_respects_bytes src_bytes g ->
    (forall n b, In (n, b) bs0 -> verify digest src_bytes n b = true) -> map fst bs0 = d0 ->
    xaccepts g c tgt d0 tr = Some st -> returned st = Some true ->
    brun digest src_bytes tr served bs0 = Some bs ->
    tag st = Some tgt /\
    forall r n, In r (c_root c :: c_xroots c) -> reach g r n ->
      exists m b, In (m, b) bs /\ g_dkey g m = g_dkey g n /\ b = src_bytes n.
Proof. exact extended_copy_bytes. Qed.
Print Assumptions C01_extended_copy_bytes.

(* ExtendedCopy under every option set (nil callbacks) and with cancellation: the recorded trace is judged by
   xcaccepts_opt; it is sound for the plain acceptor, so success => reference on the node + all roots' graphs *)
Theorem C01_extended_copy_any_options :
  forall (cs : cbset) (g : graph) (c : cfg) (tgt : node) (d0 : list node) (tr : list cevent) (s : cstate) (full : list event),
    closed_nodes g d0 -> mt_consistent g -> c_mode c = MGraph ->
    xcaccepts_opt cs g c tgt d0 tr = Some (s, full) -> returned (cs_st s) = Some true ->
    tag (cs_st s) = Some tgt /\
    forall r n, In r (c_root c :: c_xroots c) -> reach g r n -> has g (dst (cs_st s)) n = true.
Proof. exact extended_copy_any_options. Qed.
Print Assumptions C01_extended_copy_any_options.

Theorem C01_extended_copy_elaboration :
  forall (cs : cbset) (g : graph) (c : cfg) (tgt : node) (d0 : list node) (tr : list cevent) (s : cstate) (full : list event),
    c_mode c = MGraph ->
    xcaccepts_opt cs g c tgt d0 tr = Some (s, full) -> returned (cs_st s) = Some true ->
    exists w, full = w ++ [Ret true] /\
              xaccepts g c tgt d0 (w ++ [TagB tgt; TagE tgt; Ret true]) = Some (cs_st s).
Proof. exact xcaccepts_sound. Qed.
Print Assumptions C01_extended_copy_elaboration.

(* no success without the tag: a recorded ExtendedCopy trace that returns success ends TagB node, TagE node, Ret true *)
Theorem C01_extended_copy_success_is_tagged :
  forall (cs : cbset) (g : graph) (c : cfg) (tgt : node) (d0 : list node) (tr : list cevent) (s : cstate) (full : list event),
    xcaccepts_opt cs g c tgt d0 tr = Some (s, full) -> returned (cs_st s) = Some true ->
    exists w, tr = w ++ [Ev (TagB tgt); Ev (TagE tgt); Ev (Ret true)].
Proof. exact extended_copy_success_is_tagged. Qed.
Print Assumptions C01_extended_copy_success_is_tagged.
