From Oras Require Import Base.Prelude Model.CopySpec Model.CopyTop Proofs.CopySpec.
Theorem C01_stub : forall g c st, run g c st [] = Some st.
Proof. exact run_nil. Qed.
Print Assumptions C01_stub.
