(* C12 -- Files and directories added to a file store come back identical.
   Only statements closed by [exact]; the lemmas live in Proofs/TarRoundTrip.v, the
   executable model (tarDirectory, descriptorFromDir, pushDir/extractTarGzip/
   extractTarDirectory, restoreDuplicates) in Model/TarRoundTrip.v.
   A directory tree is [tree]; [tar_entries] is what Store.Add writes (filepath.Walk order,
   normalised headers), [extract] is extractTarDirectory started in the directory that
   pushDir pre-creates, [expected umask preserve T] is the source tree seen as a file
   system with the modes the property allows. *)
From Coq Require Import Permutation.
From Oras Require Import Base.Prelude Generated.GC12 Model.TarRoundTrip Model.FileAnnotations
  Proofs.TarRoundTrip Proofs.TarWalkOrder Proofs.TarListingOrder Proofs.TarModeSweep Proofs.TarRootMode Proofs.TarUnprivileged Proofs.TarSourceFacts Proofs.TarSetgid Proofs.TarRestoreOrder.

(* Round trip at full strength: every path of the restored directory -- the directory itself
   included -- is the path of the source tree: same kind, bytes, link target, and mode (minus
   the umask unless PreservePermissions); nothing else exists, and extraction does not fail.
   For every tree with distinct names per directory, modes within 07777 (files AND directories),
   and relative symlinks that stay inside and do not pass through other symlinks
   ([benign_tree], see C12_link_through_link_refuted); any child order; any umask with
   PreservePermissions, any umask within 0777 without (the kernel keeps no other bits).
   [extract] = extractTarDirectory with restoreDirModes: directories are created with
   mode | 0700 and get their recorded mode after the last entry. *)
Theorem C12_roundtrip :
  forall pre umask preserve repro T,
    (preserve = false -> umask <= 511) ->
    is_dir T = true -> wf_treeb T = true -> modes_okb T = true -> benign_tree pre T = true ->
    exists f', extract pre umask preserve (entries pre repro [] T) = Ok f' /\
      forall p, fs_lookup f' p = expected umask preserve T p.
Proof. exact roundtrip_full. Qed.
Print Assumptions C12_roundtrip.

(* The same for what Store.Add really writes: filepath.Walk sorts every directory; the
   hypotheses and the result are stated on the tree as given (sorting changes neither). *)
Theorem C12_roundtrip_walk :
  forall pre umask preserve repro T,
    (preserve = false -> umask <= 511) ->
    is_dir T = true -> wf_treeb T = true -> modes_okb T = true -> benign_tree pre T = true ->
    exists f', extract pre umask preserve (tar_entries pre repro T) = Ok f' /\
      forall p, fs_lookup f' p = expected umask preserve T p.
Proof. exact roundtrip_walk_full. Qed.
Print Assumptions C12_roundtrip_walk.

(* With PreservePermissions the modes are exact and no bound on the umask is needed. *)
Theorem C12_roundtrip_preserve :
  forall pre umask repro T,
    is_dir T = true -> wf_treeb T = true -> modes_okb T = true -> benign_tree pre T = true ->
    exists f', extract pre umask true (entries pre repro [] T) = Ok f' /\
      forall p, fs_lookup f' p = expected umask true T p.
Proof. exact roundtrip_preserve_full. Qed.
Print Assumptions C12_roundtrip_preserve.

(* An unprivileged user unpacks exactly what root unpacks -- for EVERY archive (any entry list,
   not only those written by Add): [extract_p false] adds the kernel's check that the owner has
   write+search permission on the directory in which an entry is created, replaced or removed;
   with restoreDirModes every directory has mode | 0700 while entries are created, so under a
   umask without owner write/search bits the check never fails. *)
Theorem C12_unprivileged_same_as_root :
  forall priv pre umask preserve es,
    N.land umask 192 = 0 ->
    extract_p priv pre umask preserve es = extract pre umask preserve es.
Proof. exact unprivileged_same_as_root. Qed.
Print Assumptions C12_unprivileged_same_as_root.

Theorem C12_roundtrip_unprivileged :
  forall pre umask preserve repro T,
    N.land umask 192 = 0 -> (preserve = false -> umask <= 511) ->
    is_dir T = true -> wf_treeb T = true -> modes_okb T = true -> benign_tree pre T = true ->
    exists f', extract_p false pre umask preserve (tar_entries pre repro T) = Ok f' /\
      forall p, fs_lookup f' p = expected umask preserve T p.
Proof. exact roundtrip_unprivileged. Qed.
Print Assumptions C12_roundtrip_unprivileged.

(* Finding "link-through-file-rejected", fixed in the repository: a dangling relative link whose
   target passes through a regular file of the tree (or through a component longer than
   NAME_MAX: "link-target-name-too-long") was refused when that file had been extracted before
   it, because resolveRelToBase returned the ENOTDIR / ENAMETOOLONG of its Lstat walk
   ([check_dirs_prefix]); such a directory cannot exist, so nothing there can be a symbolic
   link: it is now treated like a missing one and the tree restores in either order. *)
Theorem C12_link_through_file_prefix_refuted :
  (let f := [([b "a"], NFile (b "x") 420)] in
   check_dirs_prefix f [] [b "a"; b "x"; b "y"] = false /\ check_dirs f [] [b "a"; b "x"; b "y"] = true) /\
  benign_tree [b "d"] (through_file_tree "a") = true /\
  (exists f', extract [b "d"] 18 false (tar_entries [b "d"] true (through_file_tree "a")) = Ok f' /\
     fs_lookup f' [b "l"] = Some (NLink (b "a/x/y")) /\ fs_lookup f' [b "a"] = Some (NFile (b "x") 420)) /\
  exists f', extract [b "d"] 18 false (tar_entries [b "d"] true (through_file_tree "z")) = Ok f' /\
    fs_lookup f' [b "l"] = Some (NLink (b "z/x/y")) /\ fs_lookup f' [b "z"] = Some (NFile (b "x") 420).
Proof. exact through_file_prefix_refuted. Qed.
Print Assumptions C12_link_through_file_prefix_refuted.

(* The state of the directory when the extraction stops ([extract_partial]: the entries before
   the failing one, directories still with their creation mode) belongs to the same run as the
   verdict: same error, and on success the same file system. *)
Theorem C12_extract_partial_spec :
  forall priv pre umask preserve es,
    extract_p priv pre umask preserve es =
    match extract_partial priv pre umask preserve es with
    | (f, None) => Ok f
    | (_, Some x) => Err x
    end.
Proof. exact extract_partial_spec. Qed.
Print Assumptions C12_extract_partial_spec.

(* When the extraction stops with an error, what is on disk is exactly the result of the entries
   before the failing one (the failing entry has no effect of its own, restoreDirModes has not run). *)
Theorem C12_partial_is_prefix_run :
  forall priv pre umask preserve es f x f',
    extract_list_partial priv pre umask preserve f es = (f', Some x) ->
    exists done rest e, es = done ++ e :: rest /\
      extract_list_p priv pre umask preserve f done = Ok f' /\
      extract_entry_p priv pre umask preserve f' e = Err x.
Proof. exact extract_list_partial_root. Qed.
Print Assumptions C12_partial_is_prefix_run.

(* The code before restoreDirModes (directories created with their recorded mode): the owner
   cannot fill a 0555 directory (EACCES), with and without PreservePermissions; root can; the
   current code can.  Finding "nonroot-permission-denied", fixed in the repository. *)
Theorem C12_readonly_dir_prefix_refuted :
  extract_prefix_p false [b "d"] 18 false (tar_entries [b "d"] true readonly_dir_witness) = Err XPerm /\
  extract_prefix_p false [b "d"] 18 true (tar_entries [b "d"] true readonly_dir_witness) = Err XPerm /\
  (exists f, extract_prefix_p true [b "d"] 18 false (tar_entries [b "d"] true readonly_dir_witness) = Ok f) /\
  exists f', extract_p false [b "d"] 18 false (tar_entries [b "d"] true readonly_dir_witness) = Ok f' /\
    fs_lookup f' [b "ro"] = Some (NDir 365) /\ fs_lookup f' [b "ro"; b "f"] = Some (NFile (b "x") 292).
Proof. exact readonly_dir_prefix_refuted. Qed.
Print Assumptions C12_readonly_dir_prefix_refuted.

(* [benign_tree] is needed, and what it excludes is rejected by the code depending on the
   extraction order: d/{b/f, a -> b, c -> a/f} (relative links, all inside) is refused
   ("no symbolic link allowed between ..."), the same tree with the first link called z is
   restored.  Known finding "link-through-link-rejected" (resolveRelToBase's check is a
   deliberate confinement measure; not a small repair). *)
Theorem C12_link_through_link_refuted :
  let T := through_link_tree "a" in
  is_dir T = true /\ wf_treeb T = true /\ modes_okb T = true /\ benign_tree [b "d"] T = false /\
  extract [b "d"] 18 false (tar_entries [b "d"] true T) = Err XSymlinkDir /\
  (let T' := through_link_tree "z" in
   benign_tree [b "d"] T' = false /\
   exists f', extract [b "d"] 18 false (tar_entries [b "d"] true T') = Ok f' /\
     forall p, In p [[]; [b "b"]; [b "b"; b "f"]; [b "z"]; [b "c"]; [b "nothing"]] ->
       fs_lookup f' p = expected 18 false T' p).
Proof. exact through_link_refuted. Qed.
Print Assumptions C12_link_through_link_refuted.

(* The code before the fixes of the directory modes ([extract_prefix]: recorded modes applied
   when the entry is processed, nothing after the last entry): a 0700 directory under umask
   022 came back 0755.  Finding "root-mode", fixed in the repository; superseded by
   restoreDirModes, which also makes read-only directories restorable by an unprivileged user
   ("nonroot-readonly-dir") and keeps setuid/setgid directories ("dir-special-bits"). *)
Theorem C12_root_mode_prefix_refuted :
  exists T umask,
    is_dir T = true /\ wf_treeb T = true /\ modes_okb T = true /\ benign_tree [b "d"] T = true /\
    exists f', extract_prefix [b "d"] umask false (tar_entries [b "d"] true T) = Ok f' /\
      fs_lookup f' [] <> expected umask false T [].
Proof. exact root_mode_refuted. Qed.
Print Assumptions C12_root_mode_prefix_refuted.

(* Before the fix of tarDirectory, Add of a path that is a symbolic link to a directory
   archived the link itself (filepath.Walk does not follow a link root): the single entry
   [entries pre repro [] (Link tg mt)], which can never be unpacked.
   Finding "added-symlink-archived-as-link", fixed in the repository (the root is resolved). *)
Theorem C12_symlinked_root_prefix_refuted :
  forall pre umask preserve repro tg mt f,
    extract pre umask preserve (entries pre repro [] (Link tg mt)) <> Ok f.
Proof. exact symlinked_root_prefix_refuted. Qed.
Print Assumptions C12_symlinked_root_prefix_refuted.

(* Before the fix, PreservePermissions lost setuid/setgid/sticky (a 01777 directory came back
   0777): os.Chmod(path, os.FileMode(header.Mode)) passes only the permission bits.
   Finding "preserve-special-bits", fixed in the repository; [modes_okb] admits 07777 for files
   and 01777 for directories. *)
Theorem C12_preserve_special_bits_prefix_refuted :
  exists m, (m <=? 4095) = true /\ chmod_mode_prefix m <> m /\ chmod_mode m = m.
Proof. exact chmod_prefix_refuted. Qed.
Print Assumptions C12_preserve_special_bits_prefix_refuted.

(* Descriptor and unpack; the tar and gzip byte codecs and the digest are parameters with
   their round-trip laws as hypotheses. *)
Section Codec.
  Variable digest : Type.
  Variable H : str -> digest.
  Variable digest_eqb : digest -> digest -> bool.
  Variable enc : list entry -> str.
  Variable dec : str -> option (list entry).
  Variable gz : str -> str.
  Variable gunz : str -> option str.
  Hypothesis digest_eqb_spec : forall a b, digest_eqb a b = true <-> a = b.
  Hypothesis dec_enc : forall es, dec (enc es) = Some es.
  Hypothesis gunz_gz : forall s, gunz (gz s) = Some s.

  (* digest and size are those of the stored bytes, the recorded uncompressed digest is
     that of the tar stream inside *)
  Theorem C12_descriptor :
    forall pre repro T,
      let d := dir_descriptor digest H enc gz pre repro T in
      let blob := dir_blob enc gz pre repro T in
      d_digest digest d = H blob /\ d_size digest d = N.of_nat (length blob) /\
      d_title digest d = pre /\ d_unpack digest d = true /\
      (forall tarb, gunz blob = Some tarb -> d_checksum digest d = Some (H tarb)).
  Proof. exact (descriptor_of_stored_bytes digest H enc gz gunz gunz_gz). Qed.

  (* Add -> Push of the very blob and descriptor restores the tree *)
  Theorem C12_unpack_roundtrip :
    forall pre umask preserve repro T,
      (preserve = false -> umask <= 511) ->
      is_dir T = true -> wf_treeb T = true -> modes_okb T = true -> benign_tree pre T = true ->
      exists f', unpack digest H digest_eqb dec gunz umask preserve
                   (dir_descriptor digest H enc gz pre repro T) (dir_blob enc gz pre repro T) = Ok f' /\
        forall p, fs_lookup f' p = expected umask preserve T p.
  Proof. exact (unpack_roundtrip_full digest H digest_eqb enc dec gz gunz digest_eqb_spec dec_enc gunz_gz). Qed.

  (* SkipUnpack: the directory is not restored as a tree; its blob comes back as a file under
     the name, byte for byte (that is what the option means; the tree clause does not apply) *)
  Theorem C12_skipunpack_stores_blob :
    forall pre umask preserve repro T checksum nm,
      let d := dir_descriptor digest H enc gz pre repro T in
      let blob := dir_blob enc gz pre repro T in
      push_named digest H digest_eqb dec gunz true umask preserve (dir_annotations checksum nm) d blob
      = Ok (inr (NFile blob (N.ldiff 438 umask))).
  Proof. exact (skipunpack_stores_blob digest H digest_eqb enc dec gz gunz digest_eqb_spec). Qed.

  (* the recorded uncompressed digest is verified on unpack *)
  Theorem C12_wrong_checksum_rejected :
    forall umask preserve d blob tarb c,
      gunz blob = Some tarb -> d_checksum digest d = Some c -> H tarb <> c ->
      forall f, unpack digest H digest_eqb dec gunz umask preserve d blob <> Ok f.
  Proof. exact (wrong_checksum_rejected digest H digest_eqb dec gunz digest_eqb_spec). Qed.

  (* ... and so are digest and size of the blob itself *)
  Theorem C12_wrong_blob_rejected :
    forall umask preserve d blob,
      H blob <> d_digest digest d \/ N.of_nat (length blob) <> d_size digest d ->
      unpack digest H digest_eqb dec gunz umask preserve d blob = Err XDigest.
  Proof. exact (wrong_blob_rejected digest H digest_eqb dec gunz digest_eqb_spec). Qed.

  (* What Push leaves in the directory.  A successful Push leaves what it returns; with a wrong
     recorded tar digest Push fails -- and the complete tree of the archive is on disk
     nevertheless (the digest is compared after the extraction): "verified on unpack" does not
     protect the working directory; a blob that is not the descriptor's is not extracted at all. *)
  Theorem C12_residue_of_success :
    forall umask preserve d blob f,
      unpack digest H digest_eqb dec gunz umask preserve d blob = Ok f ->
      unpack_residue digest H digest_eqb dec gunz umask preserve d blob = f.
  Proof. exact (residue_of_success digest H digest_eqb dec gunz). Qed.

  Theorem C12_wrong_checksum_residue :
    forall pre umask preserve repro T c,
      (preserve = false -> umask <= 511) ->
      is_dir T = true -> wf_treeb T = true -> modes_okb T = true -> benign_tree pre T = true ->
      c <> H (enc (tar_entries pre repro T)) ->
      let d0 := dir_descriptor digest H enc gz pre repro T in
      let d := mkDesc digest (d_digest digest d0) (d_size digest d0) pre true (Some c) in
      let blob := dir_blob enc gz pre repro T in
      unpack digest H digest_eqb dec gunz umask preserve d blob = Err XDigest /\
      forall p, fs_lookup (unpack_residue digest H digest_eqb dec gunz umask preserve d blob) p
                = expected umask preserve T p.
  Proof. exact (wrong_checksum_residue digest H digest_eqb enc dec gz gunz digest_eqb_spec dec_enc gunz_gz). Qed.

  Theorem C12_wrong_blob_residue :
    forall umask preserve d blob,
      H blob <> d_digest digest d \/ N.of_nat (length blob) <> d_size digest d ->
      unpack_residue digest H digest_eqb dec gunz umask preserve d blob = fs_init umask.
  Proof. exact (wrong_blob_residue digest H digest_eqb dec gunz digest_eqb_spec). Qed.

  (* a plain file: Add -> Push writes exactly the bytes (mode 0666 minus umask: a blob
     descriptor carries no mode); whatever Push accepts has the descriptor's digest and size *)
  Theorem C12_file_roundtrip :
    forall umask nm content,
      push_file digest H digest_eqb umask (file_descriptor digest H nm content) content
      = Ok (NFile content (N.ldiff 438 umask)).
  Proof. exact (file_roundtrip digest H digest_eqb digest_eqb_spec). Qed.

  (* ... and that is the known finding "plain-file-mode-not-carried": *)
  Theorem C12_plain_file_mode_refuted :
    forall nm content,
      exists m m', m <= 511 /\
        push_file digest H digest_eqb 18 (file_descriptor digest H nm content) content = Ok (NFile content m') /\
        m' <> N.ldiff m 18.
  Proof. exact (plain_file_mode_refuted digest H digest_eqb digest_eqb_spec). Qed.

  Theorem C12_file_push_verified :
    forall umask d blob n,
      push_file digest H digest_eqb umask d blob = Ok n ->
      H blob = d_digest digest d /\ N.of_nat (length blob) = d_size digest d /\
      exists m, n = NFile blob m.
  Proof. exact (file_push_verified digest H digest_eqb digest_eqb_spec). Qed.

  (* reproducible tars: equal up to timestamps => equal descriptor *)
  Theorem C12_reproducible :
    forall pre t1 t2,
      strip_times t1 = strip_times t2 ->
      tar_entries pre true t1 = tar_entries pre true t2 /\
      dir_descriptor digest H enc gz pre true t1 = dir_descriptor digest H enc gz pre true t2.
  Proof.
    intros pre t1 t2 E. split;
      [exact (reproducible_entries pre t1 t2 E) | exact (reproducible_descriptor digest H enc gz pre t1 t2 E)].
  Qed.
End Codec.
Print Assumptions C12_descriptor.
Print Assumptions C12_unpack_roundtrip.
Print Assumptions C12_residue_of_success.
Print Assumptions C12_wrong_checksum_residue.
Print Assumptions C12_wrong_blob_residue.
Print Assumptions C12_skipunpack_stores_blob.
Print Assumptions C12_wrong_checksum_rejected.
Print Assumptions C12_wrong_blob_rejected.
Print Assumptions C12_reproducible.
Print Assumptions C12_file_roundtrip.
Print Assumptions C12_file_push_verified.
Print Assumptions C12_plain_file_mode_refuted.

(* ... and regardless of the order in which any directory lists its entries:
   [same_tree] relates two listings of the same tree (children permuted at every level). *)
Theorem C12_reproducible_any_listing :
  forall pre t1 t2,
    same_tree (strip_times t1) (strip_times t2) -> wf_treeb (strip_times t1) = true ->
    tar_entries pre true t1 = tar_entries pre true t2.
Proof. exact reproducible_any_listing. Qed.
Print Assumptions C12_reproducible_any_listing.

Theorem C12_listing_order_irrelevant :
  forall pre repro t t',
    same_tree t t' -> wf_treeb t = true -> tar_entries pre repro t = tar_entries pre repro t'.
Proof. exact listing_order_irrelevant. Qed.
Print Assumptions C12_listing_order_irrelevant.

(* The statements of content/file that the hand-written model mirrors have the shape it was
   written against (translator kinds c12_bodyhas / c12_intlit, regenerated on every run): the
   mask arithmetic, last-entry-wins and directories-only of restoreDirModes, its call at io.EOF
   only, mode|0700 at creation, the chmod of regular files only, the header normalisation and
   the root resolution of tarDirectory, the digest comparison after the extraction, the
   ForceCAS test before restoring a skipped manifest's successors, the unpack test. *)
Theorem C12_source_facts :
  c12_fact_narrow && c12_fact_exact && c12_fact_special && c12_fact_lastwins && c12_fact_onlydirs &&
  c12_fact_at_eof && c12_fact_chmod_files && c12_fact_mkdir && c12_fact_baselink &&
  c12_fact_ids && c12_fact_times && c12_fact_rootlink && c12_fact_name &&
  c12_fact_verify_after && c12_fact_skip_restore && c12_fact_unpack_test &&
  c12_fact_deepest_first && c12_fact_lstat_walk && c12_fact_outside = true.
Proof. exact source_facts. Qed.
Print Assumptions C12_source_facts.

Theorem C12_source_literals :
  N.land c12_dir_owner_bits owner_wx = owner_wx /\ c12_dir_owner_bits <= 511 /\ c12_ensure_dir_perm = 511.
Proof. exact source_literals. Qed.
Print Assumptions C12_source_literals.

(* restoreDirModes step by step, in its real order (directory entries sorted by depth, walked
   backwards, every path once, the last entry's mode) and with the kernel's check on every
   chmod (search permission on every directory above): [extract_po].  Because directories are
   handled deepest first, everything above the one being changed still has mode | 0700, so no
   chmod is refused and the result is the one of [extract] -- for root and for an unprivileged
   owner, for EVERY archive.  The order is needed: see C12_shallow_first_refuted. *)
Theorem C12_extract_po_ok :
  forall priv pre umask preserve es,
    N.land umask 192 = 0 ->
    match extract pre umask preserve es with
    | Ok f => exists f', extract_po priv pre umask preserve es = Ok f' /\
                         forall q, fs_lookup f' q = fs_lookup f q
    | Err x => extract_po priv pre umask preserve es = Err x
    end.
Proof. exact extract_po_ok. Qed.
Print Assumptions C12_extract_po_ok.

Theorem C12_roundtrip_unprivileged_ordered :
  forall pre umask preserve repro T,
    N.land umask 192 = 0 -> (preserve = false -> umask <= 511) ->
    is_dir T = true -> wf_treeb T = true -> modes_okb T = true -> benign_tree pre T = true ->
    exists f', extract_po false pre umask preserve (tar_entries pre repro T) = Ok f' /\
      forall p, fs_lookup f' p = expected umask preserve T p.
Proof. exact roundtrip_unprivileged_ordered. Qed.
Print Assumptions C12_roundtrip_unprivileged_ordered.

Theorem C12_restore_order_ok :
  forall priv pre preserve es f0,
    (forall p m, fs_lookup f0 p = Some (NDir m) -> has_x m = true) ->
    exists f', restore_in_order priv pre preserve es f0 (restore_order pre es) = Ok f' /\
      forall q, fs_lookup f' q = fs_lookup (finish_dirs pre preserve es f0) q.
Proof. exact restore_order_ok. Qed.
Print Assumptions C12_restore_order_ok.

(* a directory with recorded mode 0600 and a directory below it: deepest first works for the
   owner, the directory first does not (EACCES on the chmod below it) *)
Theorem C12_shallow_first_refuted :
  restore_order [b "d"] order_witness = [[b "p"; b "c"]; [b "p"]; []] /\
  (exists f, extract_po false [b "d"] 18 false order_witness = Ok f /\
             fs_lookup f [b "p"] = Some (NDir 384) /\ fs_lookup f [b "p"; b "c"] = Some (NDir 493)) /\
  match extract_list_p false [b "d"] 18 false (fs_init 18) order_witness with
  | Ok f => restore_in_order false [b "d"] false order_witness f [[]; [b "p"]; [b "p"; b "c"]] = Err XPerm
  | Err _ => False
  end.
Proof. exact shallow_first_refuted. Qed.
Print Assumptions C12_shallow_first_refuted.

(* Unpacking into a set-group-ID working directory (a shared project directory): mkdir(2) makes
   every new directory set-group-ID.  For EVERY archive the extraction is the ordinary run with
   the bit added to every directory (simulation [Fsg]); for the archives Add writes, the round
   trip holds with the inherited bit on every directory without PreservePermissions and with the
   recorded modes exactly with it. *)
Theorem C12_extract_list_setgid :
  forall pre umask preserve es,
    extract_list pre umask preserve (fs_init_sg umask sgid) es
    = map_res (extract_list pre umask preserve (fs_init umask) es).
Proof. exact extract_list_setgid. Qed.
Print Assumptions C12_extract_list_setgid.

Theorem C12_roundtrip_setgid :
  forall pre umask preserve repro T,
    (preserve = false -> umask <= 511) ->
    is_dir T = true -> wf_treeb T = true -> modes_okb T = true -> benign_tree pre T = true ->
    exists f', extract_sg sgid pre umask preserve (tar_entries pre repro T) = Ok f' /\
      forall p, fs_lookup f' p = expected_sg sgid umask preserve T p.
Proof. exact roundtrip_setgid. Qed.
Print Assumptions C12_roundtrip_setgid.

(* restoreDirModes without PreservePermissions: the special bits of the result are those the
   directory already had (e.g. the set-group-ID bit inherited from a setgid working directory)
   and those recorded; the permission bits are never wider than what the directory had.
   For all numbers, by bit-level reasoning. *)
Theorem C12_narrow_special :
  forall cur m, N.land (narrow_mode cur m) 3584 = N.lor (N.land cur 3584) (N.land m 3584).
Proof. exact narrow_special. Qed.
Print Assumptions C12_narrow_special.

Theorem C12_narrow_never_widens :
  forall cur m, N.land (narrow_mode cur m) 511 = N.land (N.land cur 511) (N.land m 511).
Proof. exact narrow_never_widens. Qed.
Print Assumptions C12_narrow_never_widens.

(* the user's own umask can take the owner's permissions away (umask 0300): EACCES for the owner,
   fine for root -- the permission check of the model is not vacuous on the current code *)
Example C12_owner_bit_umask_refuses :
  extract_p false [b "d"] 192 false (tar_entries [b "d"] true readonly_dir_witness) = Err XPerm /\
  exists f, extract_p true [b "d"] 192 false (tar_entries [b "d"] true readonly_dir_witness) = Ok f.
Proof. exact owner_bit_umask_refuses. Qed.

(* The three annotations Add writes do not clobber each other (keys regenerated from
   content/file/file.go) and make Store.push unpack unless SkipUnpack. *)
Theorem C12_annotations :
  forall checksum name skip,
    annot_get (dir_annotations checksum name) AnnotationDigest = checksum /\
    annot_get (dir_annotations checksum name) AnnotationUnpack = b "true" /\
    annot_get (dir_annotations checksum name) title_key = name /\
    need_unpack (dir_annotations checksum name) skip = negb skip.
Proof. exact dir_annotations_independent. Qed.
Print Assumptions C12_annotations.

(* Two blobs with the same bytes but different names both materialise: whatever subset of
   the layers oras.Copy pushed (at least one per content, any order), after the manifest is
   pushed every layer name exists with its content -- ForceCAS off, IgnoreNoName on or off. *)
Theorem C12_same_bytes_two_names :
  forall inn pushed layers,
    NoDup (map fst layers) -> (forall n d, In (n, d) layers -> n <> []) ->
    incl pushed layers -> NoDup (map fst pushed) ->
    (forall n d, In (n, d) layers -> In d (map snd pushed)) ->
    forall n d, In (n, d) layers ->
      name_lookup (s_names (copy_into false inn pushed layers)) n = Some d.
Proof. exact same_bytes_two_names. Qed.
Print Assumptions C12_same_bytes_two_names.

(* ForceCAS: nothing is restored, only what was pushed exists (documented) *)
Theorem C12_forcecas_no_restore :
  forall inn pushed layers, copy_into true inn pushed layers = fpush_layers fstore_empty pushed.
Proof. exact forcecas_no_restore. Qed.
Print Assumptions C12_forcecas_no_restore.

(* IgnoreNoName before the fix (model copy_into_prefix): Store.Push returned on errSkipUnnamed
   before restoreDuplicates, the second name stayed missing.
   Finding "duplicate-not-restored-ignorenoname", fixed in the repository. *)
Theorem C12_same_bytes_ignorenoname_refuted :
  exists pushed layers,
    NoDup (map fst layers) /\ (forall n d, In (n, d) layers -> n <> []) /\
    incl pushed layers /\ NoDup (map fst pushed) /\
    (forall n d, In (n, d) layers -> In d (map snd pushed)) /\
    exists n d, In (n, d) layers /\
      name_lookup (s_names (copy_into_prefix false true pushed layers)) n = None.
Proof. exact ignorenoname_refuted. Qed.
Print Assumptions C12_same_bytes_ignorenoname_refuted.

(* non-vacuity: a tree with nesting, an empty directory, an empty file, a long-ish name and
   relative links (one dangling, one to the parent directory) meets the hypotheses *)
Definition C12_example_tree : tree :=
  Dir 493 7 [ (b "z", File (b "zz") 2541 1);
              (b "sub", Dir 1472 2 [ (b "empty", Dir 1023 3 []);
                                    (b "e", File [] 256 4);
                                    (b "up", Link (b "../z") 5);
                                    (b "self", Link (b "..") 6) ]);
              (b "a-rather-long-name.with.dots", Link (b "sub/missing") 8) ].

Example C12_nonvacuous :
  is_dir C12_example_tree = true /\ wf_treeb C12_example_tree = true /\
  modes_okb C12_example_tree = true /\ benign_tree [b "d"] C12_example_tree = true /\
  map e_name (tar_entries [b "d"] true C12_example_tree) =
    [ [b "d"]; [b "d"; b "a-rather-long-name.with.dots"]; [b "d"; b "sub"]; [b "d"; b "sub"; b "e"];
      [b "d"; b "sub"; b "empty"]; [b "d"; b "sub"; b "self"]; [b "d"; b "sub"; b "up"]; [b "d"; b "z"] ].
Proof. vm_compute. repeat split; reflexivity. Qed.

Example C12_nonvacuous_roundtrip :
  exists f', extract [b "d"] 18 false (tar_entries [b "d"] true C12_example_tree) = Ok f' /\
    fs_lookup f' [] = Some (NDir 493) /\ fs_lookup f' [b "sub"] = Some (NDir 1472) /\
    fs_lookup f' [b "sub"; b "empty"] = Some (NDir 1005) /\ fs_lookup f' [b "z"] = Some (NFile (b "zz") 2541) /\
    fs_lookup f' [b "sub"; b "up"] = Some (NLink (b "../z")) /\ fs_lookup f' [b "nothing"] = None.
Proof. eexists. vm_compute. repeat split; reflexivity. Qed.

(* a target that leaves the base and comes back through its own name is inside (for that name) *)
Example C12_out_and_back_in :
  let T := Dir 493 0 [(b "f", File (b "x") 420 0); (b "l", Link (b "../d/f") 0)] in
  benign_tree [b "d"] T = true /\ benign_tree [b "e"] T = false.
Proof. exact out_and_back_in_accepted. Qed.

Example C12_nonvacuous_listing :
  same_tree (Dir 493 0 [(b "b", File [] 420 0); (b "a", Link (b "b") 0)])
            (Dir 493 0 [(b "a", Link (b "b") 0); (b "b", File [] 420 0)]).
Proof.
  eapply st_dir; [|apply perm_swap].
  repeat constructor.
Qed.

Example C12_nonvacuous_machine :
  name_lookup (s_names (copy_into false true [(b "a", 1%nat)] [(b "a", 1%nat); (b "b", 1%nat)])) (b "b") = Some 1%nat.
Proof. vm_compute. reflexivity. Qed.
