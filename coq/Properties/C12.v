From Oras Require Import Base.Prelude Model.TarRoundTrip Proofs.TarRoundTrip.

Theorem C12_hdr_time_repro : forall t, hdr_time true t = 0.
Proof. exact hdr_time_repro. Qed.
Print Assumptions C12_hdr_time_repro.
