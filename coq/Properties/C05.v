(* C05 -- Only content matching its descriptor ever becomes visible in a store.
   Only statements closed by [exact]; the lemmas live in Proofs/Verify.v, the model
   (content.ReadAll, VerifyReader, ioutil.CopyBuffer, cas.Memory, LimitedStorage,
   oci.Storage, file.Store) in Model/Verify.v.

   H : algorithm -> bytes -> encoded digest is arbitrary (no assumption on SHA-2).
   comb / fuel / the script [evs] quantify over every reader behaviour (arbitrary
   chunking, 0-byte reads, an error at any offset, data together with EOF/error).
   [matches_desc H dg sz bs] = length bs = sz /\ dg = alg:H alg bs /\ dg is a valid digest. *)
From Oras Require Import Base.Prelude Generated.GC05 Model.Verify Proofs.Verify Proofs.VerifyComplete Proofs.VerifyProxy Proofs.VerifyFuel Proofs.VerifyConc Proofs.VerifyTop Proofs.VerifyWriter Proofs.VerifyNames Proofs.VerifyFileConc Proofs.VerifyOpts Proofs.VerifyChunk Proofs.VerifyEof Proofs.VerifyFacts Model.VerifyAny Proofs.VerifyAny.

(* ReadAll hands back data only when length and digest match and the reader held
   nothing else *)
Theorem C05_readall :
  forall (H : str -> str -> str) comb fixed fuel src dg sz buf v,
    read_all H comb fixed fuel src dg sz = ((None, buf), v) ->
    matches_desc H dg sz buf /\
    (exists rest, stream (b_evs src) = buf ++ rest) /\
    (b_lim src = None -> neof (b_evs src) = 0%nat -> stream (b_evs src) = buf).
Proof. exact read_all_sound. Qed.
Print Assumptions C05_readall.

(* conversely: every well-behaved reader of exactly the right bytes (any chunking, any
   0-byte reads, EOF with or after the last chunk) is accepted, and a memory store
   that does not have the descriptor yet stores it *)
Theorem C05_readall_complete :
  forall (H : str -> str -> str) comb fixed fuel evs dg,
    (nfail evs + neof evs = 0)%nat -> valid_digest dg = true -> dg = digest_of H (alg_of dg) (stream evs) ->
    (ev_weight evs < fuel)%nat ->
    fst (read_all H comb fixed fuel (mkBase evs None) dg (Z.of_nat (length (stream evs))))
    = (None, stream evs).
Proof. exact read_all_complete. Qed.
Print Assumptions C05_readall_complete.

Theorem C05_push_memory_complete :
  forall (H : str -> str -> str) comb fixed fuel m d evs,
    mem_get m d = None -> (nfail evs + neof evs = 0)%nat -> valid_digest (d_dg d) = true ->
    d_dg d = digest_of H (alg_of (d_dg d)) (stream evs) -> d_sz d = Z.of_nat (length (stream evs)) ->
    (ev_weight evs < fuel)%nat ->
    mem_push H comb fixed fuel m d (mkBase evs None) = (None, (d, stream evs) :: m).
Proof. exact mem_push_complete. Qed.
Print Assumptions C05_push_memory_complete.

(* the same for ioutil.CopyBuffer with every buffer size >= 1, and for an OCI layout
   that does not hold the digest yet *)
Theorem C05_copybuffer_complete :
  forall (H : str -> str -> str) comb fuel evs bufsz dg,
    (1 <= bufsz)%nat -> (nfail evs + neof evs = 0)%nat -> valid_digest dg = true ->
    dg = digest_of H (alg_of dg) (stream evs) -> (ev_weight evs < fuel)%nat ->
    fst (copy_buffer H comb true fuel (mkBase evs None) bufsz dg (Z.of_nat (length (stream evs))))
    = (None, stream evs).
Proof. exact copy_buffer_complete. Qed.
Print Assumptions C05_copybuffer_complete.

Theorem C05_push_oci_complete :
  forall (H : str -> str -> str) comb fuel s d evs,
    oci_get s (d_dg d) = None -> (nfail evs + neof evs = 0)%nat -> valid_digest (d_dg d) = true ->
    d_dg d = digest_of H (alg_of (d_dg d)) (stream evs) -> d_sz d = Z.of_nat (length (stream evs)) ->
    (ev_weight evs < fuel)%nat ->
    oci_push H comb true fuel s d (mkBase evs None) = (None, (d_dg d, stream evs) :: s).
Proof. exact oci_push_complete. Qed.
Print Assumptions C05_push_oci_complete.

(* the same for the file store: a named push under a fresh name, and an unnamed push
   into the fallback (LimitedStorage over the memory store) *)
Theorem C05_push_file_complete :
  forall (H : str -> str -> str) comb fuel s name path d evs,
    name <> [] -> name_in name (f_names s) = false ->
    (nfail evs + neof evs = 0)%nat -> valid_digest (d_dg d) = true ->
    d_dg d = digest_of H (alg_of (d_dg d)) (stream evs) -> d_sz d = Z.of_nat (length (stream evs)) ->
    (ev_weight evs < fuel)%nat ->
    file_push H comb true fuel s name path d evs
    = (None, mkFs (assoc_set (f_files s) path (stream evs)) (name :: f_names s)
                  (assoc_set (f_d2p s) (d_dg d) path) (f_fb s)).
Proof. exact file_push_complete. Qed.
Print Assumptions C05_push_file_complete.

Theorem C05_push_limited_complete :
  forall (H : str -> str -> str) comb fixed fuel limit m d evs,
    (d_sz d <= limit)%Z -> mem_get m d = None -> (nfail evs + neof evs = 0)%nat -> valid_digest (d_dg d) = true ->
    d_dg d = digest_of H (alg_of (d_dg d)) (stream evs) -> d_sz d = Z.of_nat (length (stream evs)) ->
    (ev_weight evs < fuel)%nat ->
    limited_push (mem_push H comb fixed fuel) limit m d evs = (None, (d, stream evs) :: m).
Proof. exact limited_mem_push_complete. Qed.
Print Assumptions C05_push_limited_complete.

Theorem C05_push_file_fallback_complete :
  forall (H : str -> str -> str) comb fuel s path d evs,
    (d_sz d <= defaultFallbackPushSizeLimit)%Z -> mem_get (f_fb s) d = None ->
    (nfail evs + neof evs = 0)%nat -> valid_digest (d_dg d) = true ->
    d_dg d = digest_of H (alg_of (d_dg d)) (stream evs) -> d_sz d = Z.of_nat (length (stream evs)) ->
    (ev_weight evs < fuel)%nat ->
    file_push H comb true fuel s [] path d evs
    = (None, mkFs (f_files s) (f_names s) (f_d2p s) ((d, stream evs) :: f_fb s)).
Proof. exact file_push_fallback_complete. Qed.
Print Assumptions C05_push_file_fallback_complete.

(* FetchAll = Fetch then ReadAll: whatever bytes a store's Fetch serves (even a blob
   corrupted on disk), FetchAll returns them only if they match the descriptor *)
Theorem C05_fetchall :
  forall (H : str -> str -> str) comb fixed fuel served dg sz buf v,
    read_all H comb fixed fuel (mkBase [Data served] None) dg sz = ((None, buf), v) ->
    buf = served /\ matches_desc H dg sz served.
Proof. exact C05_fetchall_l. Qed.
Print Assumptions C05_fetchall.

(* FetchAll on the built-in stores (the model's FetchAll, which the correspondence runs
   after every push and on the final state) *)
Theorem C05_fetchall_stores :
  forall (H : str -> str -> str),
  (forall m d b, mem_fetch_all H m d = (None, b) -> mem_get m d = Some b /\ matches_desc H (d_dg d) (d_sz d) b) /\
  (forall s d b, oci_fetch_all H s d = (None, b) -> oci_get s (d_dg d) = Some b /\ matches_desc H (d_dg d) (d_sz d) b) /\
  (forall s name d b, file_fetch_all H s name d = (None, b) ->
                      file_fetch s name d = Some b /\ matches_desc H (d_dg d) (d_sz d) b).
Proof. exact fetch_all_stores. Qed.
Print Assumptions C05_fetchall_stores.

(* any use of a VerifyReader (any sequence of Read(k) and Verify calls): once
   Verify returns nil the bytes read are exactly the descriptor's, the source is
   exhausted, and the reader stays at EOF *)
Theorem C05_verify_reader :
  forall (H : str -> str -> str) comb fuel src dg sz ops v out v',
    vr_run H comb fuel dg ops (new_vr true src dg sz) [] = (v, out) ->
    vr_verify H comb fuel dg v = (None, v') ->
    matches_desc H dg sz out /\
    (exists rest, stream (b_evs src) = out ++ rest) /\
    (b_lim src = None -> neof (b_evs src) = 0%nat -> stream (b_evs src) = out) /\
    (forall k, vr_read comb v' k = (([], Some EEof), v')) /\
    vr_verify H comb fuel dg v' = (None, v').
Proof. exact verify_reader_sound. Qed.
Print Assumptions C05_verify_reader.

(* ioutil.CopyBuffer (every buffer size): nil only if what was written is exactly
   the descriptor's bytes and the reader held nothing else *)
Theorem C05_copybuffer :
  forall (H : str -> str -> str) comb fuel src bufsz dg sz out v,
    copy_buffer H comb true fuel src bufsz dg sz = ((None, out), v) ->
    matches_desc H dg sz out /\
    (exists rest, stream (b_evs src) = out ++ rest) /\
    (b_lim src = None -> neof (b_evs src) = 0%nat -> stream (b_evs src) = out).
Proof. exact copy_buffer_sound. Qed.
Print Assumptions C05_copybuffer.

(* ioutil.CopyBuffer into a destination that fails or short-writes after any number of
   bytes (io.CopyBuffer's write-error / io.ErrShortWrite handling): nil only if the
   destination took every byte, and then it holds exactly the descriptor's bytes *)
Theorem C05_copybuffer_faulty_destination :
  forall (H : str -> str -> str) comb fuel src bufsz dg sz w out v w',
    copy_buffer_w H comb true fuel src bufsz dg sz w = (((None, out), v), w') ->
    copy_buffer H comb true fuel src bufsz dg sz = ((None, out), v) /\
    (w_mode w <> None -> (length out <= w_left w)%nat) /\
    matches_desc H dg sz out /\
    (b_lim src = None -> neof (b_evs src) = 0%nat -> stream (b_evs src) = out).
Proof. exact copy_buffer_w_sound. Qed.
Print Assumptions C05_copybuffer_faulty_destination.

(* the size of the copy buffer is irrelevant: for every two buffer sizes >= 1 CopyBuffer
   returns the same error, has written the same bytes and leaves the reader in the same
   state (so os.File.ReadFrom's 32 KiB and the stores' 1 MiB pool buffer cannot matter) *)
Theorem C05_copybuffer_bufsz_independent :
  forall (H : str -> str -> str) comb fixed fuel evs b1 b2 dg sz,
    (1 <= b1)%nat -> (1 <= b2)%nat -> (ev_weight evs < fuel)%nat ->
    copy_buffer H comb fixed fuel (mkBase evs None) b1 dg sz = copy_buffer H comb fixed fuel (mkBase evs None) b2 dg sz.
Proof. exact copy_buffer_bufsz_indep. Qed.
Print Assumptions C05_copybuffer_bufsz_independent.

(* the two verification paths agree: content.ReadAll (memory store, FetchAll) and
   ioutil.CopyBuffer (OCI layout, file store; any buffer size) accept exactly the same
   (reader, descriptor) pairs and hand on the same bytes; a memory store and an OCI layout
   that do not hold the descriptor yet accept the same pushes and store the same bytes *)
Theorem C05_paths_agree :
  forall (H : str -> str -> str) comb fuel evs bufsz dg sz buf,
    (1 <= bufsz)%nat -> (ev_weight evs < fuel)%nat -> neof evs = 0%nat ->
    (fst (read_all H comb true fuel (mkBase evs None) dg sz) = (None, buf) <->
     fst (copy_buffer H comb true fuel (mkBase evs None) bufsz dg sz) = (None, buf)).
Proof. exact paths_agree. Qed.
Print Assumptions C05_paths_agree.

Theorem C05_stores_agree :
  forall (H : str -> str -> str) comb fuel m s d evs buf,
    (ev_weight evs < fuel)%nat -> neof evs = 0%nat -> mem_get m d = None -> oci_get s (d_dg d) = None ->
    (mem_push H comb true fuel m d (mkBase evs None) = (None, (d, buf) :: m) <->
     oci_push H comb true fuel s d (mkBase evs None) = (None, (d_dg d, buf) :: s)).
Proof. exact stores_agree. Qed.
Print Assumptions C05_stores_agree.

(* readers for which io.EOF is not final, NO side condition on the script: what ReadAll
   and CopyBuffer accept is exactly what the reader delivers before its first EOF; bytes
   beyond Size before that EOF are always an error (what lies behind an EOF is never read) *)
Theorem C05_accepts_exactly_upto_eof :
  forall (H : str -> str -> str) comb fixed fuel evs bufsz dg sz,
    (forall buf v, read_all H comb fixed fuel (mkBase evs None) dg sz = ((None, buf), v) -> upto_eof evs = buf) /\
    (forall out v, copy_buffer H comb fixed fuel (mkBase evs None) bufsz dg sz = ((None, out), v) -> upto_eof evs = out).
Proof. exact accepts_upto_eof. Qed.
Print Assumptions C05_accepts_exactly_upto_eof.

(* ... and the same for any use of a VerifyReader: once Verify returns nil, the bytes read
   are exactly what the reader delivered before its first EOF *)
Theorem C05_verify_reader_upto_eof :
  forall (H : str -> str -> str) comb fuel evs dg sz ops v out v',
    vr_run H comb fuel dg ops (new_vr true (mkBase evs None) dg sz) [] = (v, out) ->
    vr_verify H comb fuel dg v = (None, v') -> upto_eof evs = out.
Proof. exact verify_reader_upto_eof. Qed.
Print Assumptions C05_verify_reader_upto_eof.

(* ... and a successful Push (memory store, OCI layout, named file) stores exactly those bytes *)
Theorem C05_push_stores_upto_eof :
  forall (H : str -> str -> str) comb fuel evs d,
    (forall fixed m m', mem_push H comb fixed fuel m d (mkBase evs None) = (None, m') -> m' = (d, upto_eof evs) :: m) /\
    (forall s s', oci_push H comb true fuel s d (mkBase evs None) = (None, s') -> s' = (d_dg d, upto_eof evs) :: s) /\
    (forall s name path s', name <> [] -> file_push H comb true fuel s name path d evs = (None, s') ->
       assoc_get (f_files s') path = Some (upto_eof evs)).
Proof. exact push_stores_upto_eof. Qed.
Print Assumptions C05_push_stores_upto_eof.

Theorem C05_trailing_before_eof_rejected :
  forall (H : str -> str -> str) comb fuel evs d,
    (d_sz d < Z.of_nat (length (upto_eof evs)))%Z ->
    (forall fixed buf v, read_all H comb fixed fuel (mkBase evs None) (d_dg d) (d_sz d) <> ((None, buf), v)) /\
    (forall bufsz out v, copy_buffer H comb true fuel (mkBase evs None) bufsz (d_dg d) (d_sz d) <> ((None, out), v)) /\
    (forall fixed m e m', mem_push H comb fixed fuel m d (mkBase evs None) = (e, m') -> e <> None /\ m' = m) /\
    (forall s e s', oci_push H comb true fuel s d (mkBase evs None) = (e, s') -> e <> None /\ s' = s).
Proof. exact trailing_before_eof_rejected. Qed.
Print Assumptions C05_trailing_before_eof_rejected.

(* malformed or unsupported digest, negative size, reader shorter than Size, first
   Size bytes hashing to something else, bytes beyond Size: always an error *)
Theorem C05_trailing_short_malformed_rejected :
  forall (H : str -> str -> str) comb fuel src bufsz dg sz,
    (valid_digest dg = false \/ (sz < 0)%Z \/
     (Z.of_nat (length (stream (b_evs src))) < sz)%Z \/
     dg <> digest_of H (alg_of dg) (firstn (Z.to_nat sz) (stream (b_evs src))) \/
     (b_lim src = None /\ neof (b_evs src) = 0%nat /\ (sz < Z.of_nat (length (stream (b_evs src))))%Z)) ->
    (forall fixed buf v, read_all H comb fixed fuel src dg sz <> ((None, buf), v)) /\
    (forall out v, copy_buffer H comb true fuel src bufsz dg sz <> ((None, out), v)).
Proof. exact C05_trailing_short_malformed_rejected_l. Qed.
Print Assumptions C05_trailing_short_malformed_rejected.

(* a reader that returns an error at any offset before it is exhausted is never
   accepted (ReadAll, CopyBuffer with any buffer, memory / OCI / named file push) *)
Theorem C05_failing_reader_rejected :
  forall (H : str -> str -> str) comb fuel evs d,
    In Fail evs -> neof evs = 0%nat ->
    (forall fixed buf v, read_all H comb fixed fuel (mkBase evs None) (d_dg d) (d_sz d) <> ((None, buf), v)) /\
    (forall bufsz out v, copy_buffer H comb true fuel (mkBase evs None) bufsz (d_dg d) (d_sz d) <> ((None, out), v)) /\
    (forall fixed m e m', mem_push H comb fixed fuel m d (mkBase evs None) = (e, m') -> e <> None /\ m' = m) /\
    (forall s e s', oci_push H comb true fuel s d (mkBase evs None) = (e, s') -> e <> None /\ s' = s) /\
    (forall s name path e s', name <> [] -> file_push H comb true fuel s name path d evs = (e, s') -> e <> None).
Proof. exact failing_reader_rejected. Qed.
Print Assumptions C05_failing_reader_rejected.

(* a reader that fails or ends before Size bytes were delivered is never accepted, on
   any path, also behind the LimitReader of LimitedStorage / the file-store fallback
   (avail = bytes deliverable before the first error of the reader) *)
Theorem C05_early_failure_rejected :
  forall (H : str -> str -> str) comb fuel evs d,
    (Z.of_nat (avail evs) < d_sz d)%Z ->
    (forall fixed lim buf v, read_all H comb fixed fuel (mkBase evs lim) (d_dg d) (d_sz d) <> ((None, buf), v)) /\
    (forall lim bufsz out v, copy_buffer H comb true fuel (mkBase evs lim) bufsz (d_dg d) (d_sz d) <> ((None, out), v)) /\
    (forall fixed lim m e m', mem_push H comb fixed fuel m d (mkBase evs lim) = (e, m') -> e <> None /\ m' = m) /\
    (forall lim s e s', oci_push H comb true fuel s d (mkBase evs lim) = (e, s') -> e <> None /\ s' = s) /\
    (forall s name path e s', file_push H comb true fuel s name path d evs = (e, s') -> e <> None).
Proof. exact early_failure_rejected. Qed.
Print Assumptions C05_early_failure_rejected.

(* cas.Memory.Push: success stores exactly the descriptor's bytes; failure changes nothing *)
Theorem C05_push_memory :
  forall (H : str -> str -> str) comb fixed fuel m d src e m',
    mem_push H comb fixed fuel m d src = (e, m') ->
    (e = None /\ mem_get m d = None /\
     exists buf, m' = (d, buf) :: m /\ matches_desc H (d_dg d) (d_sz d) buf /\
                 (exists rest, stream (b_evs src) = buf ++ rest) /\
                 (b_lim src = None -> neof (b_evs src) = 0%nat -> stream (b_evs src) = buf))
    \/ (e <> None /\ m' = m).
Proof. exact mem_push_spec. Qed.
Print Assumptions C05_push_memory.

(* oci.Storage.Push: success adds exactly the descriptor's bytes under blobs/; failure
   leaves blobs/ as it was (ingest/ is not part of this sequential model: left-over
   ingest files are judged by the oracle, signature ingest-left, and in the concurrent
   model by [ingest_files]) *)
Theorem C05_push_oci :
  forall (H : str -> str -> str) comb fuel s d src e s',
    oci_push H comb true fuel s d src = (e, s') ->
    (e = None /\ oci_get s (d_dg d) = None /\
     exists out, s' = (d_dg d, out) :: s /\ matches_desc H (d_dg d) (d_sz d) out /\
                 (exists rest, stream (b_evs src) = out ++ rest) /\
                 (b_lim src = None -> neof (b_evs src) = 0%nat -> stream (b_evs src) = out))
    \/ (e <> None /\ s' = s).
Proof. exact oci_push_spec. Qed.
Print Assumptions C05_push_oci.

(* LimitedStorage over any store: too big = nothing happens, otherwise the inner push
   of the reader cut at Size *)
Theorem C05_push_limited :
  forall St (push : St -> desc -> base -> option rerr * St) limit st d evs e st',
    limited_push push limit st d evs = (e, st') ->
    (e = Some ETooBig /\ st' = st) \/
    ((d_sz d <= limit)%Z /\ push st d (mkBase evs (Some (d_sz d))) = (e, st')).
Proof. exact @limited_push_spec. Qed.
Print Assumptions C05_push_limited.

(* file.Store.Push (named files and the limited-memory fallback), on every state reached
   without aliasing, for a push whose resolved path does not alias a path that serves
   visible content ([path_free]; [path] = resolveWritePath name): the store invariant
   is kept; success makes matching content visible; failure leaves Exists and Fetch of
   every descriptor unchanged.  PARTIAL: without [path_free] the statement is false for
   the code (names are compared as strings but written as paths), see
   C05_push_file_alias_refuted -- known finding file-alias-clobbers-visible. *)
Theorem C05_push_file_partial :
  forall (H : str -> str -> str) comb fuel s name path d evs e s',
    file_reach H s -> path_free s path ->
    file_push H comb true fuel s name path d evs = (e, s') ->
    (e = None ->
       exists bs, file_fetch s' name d = Some bs /\ file_exists s' name d = true /\
                  d_dg d = digest_of H (alg_of (d_dg d)) bs /\ valid_digest (d_dg d) = true /\
                  ((name <> [] \/ assoc_get (f_d2p s) (d_dg d) = None) ->
                   matches_desc H (d_dg d) (d_sz d) bs /\ exists rest, stream evs = bs ++ rest)) /\
    (e <> None -> forall name' d', file_exists s' name' d' = file_exists s name' d' /\
                                   file_fetch s' name' d' = file_fetch s name' d').
Proof. exact C05_push_file_partial_l. Qed.
Print Assumptions C05_push_file_partial.

(* the full statement (any name) is refuted by the model of the current code: "a" and
   "./a" are two names of one path; a successful second push replaces the bytes served
   under the first descriptor, a FAILED second push removes them *)
Theorem C05_push_file_alias_refuted :
  exists (H : str -> str -> str) dX dY s1 s2 s2' e,
    file_push H false true 20 (mkFs [] [] [] []) (b "a") (b "a") dX [Data [1;2;3]] = (None, s1) /\
    (* second name, same path, good content: Fetch of the first descriptor changes *)
    file_push H false true 20 s1 (b "./a") (b "a") dY [Data [7;7]] = (None, s2) /\
    file_fetch s1 (b "a") dX = Some [1;2;3] /\ file_fetch s2 (b "a") dX = Some [7;7] /\
    d_dg dX <> digest_of H (alg_of (d_dg dX)) [7;7] /\
    (* second name, same path, bad content: the push fails and the first content is gone *)
    file_push H false true 20 s1 (b "./a") (b "a") dY [Data [9]] = (Some e, s2') /\
    file_exists s2' (b "a") dX = true /\ file_fetch s2' (b "a") dX = None.
Proof. exact file_alias_refuted. Qed.
Print Assumptions C05_push_file_alias_refuted.

(* the FULL statement for the file store by names: resolveWritePath (lexical
   filepath.Clean + traversal check) is part of the model ([file_push_name]); in every
   history in which no pushed name resolves to the path of another name in use
   ([no_alias], a condition on the names alone) a successful push makes matching content
   visible and a failed one (incl. duplicate name, refused traversal) changes nothing *)
Theorem C05_push_file_names :
  forall (H : str -> str -> str) comb fuel s name d evs e s',
    file_reach_names H s -> no_alias s name ->
    file_push_name H comb true fuel s name d evs = (e, s') ->
    (e = None ->
       exists bs, file_fetch s' name d = Some bs /\ file_exists s' name d = true /\
                  d_dg d = digest_of H (alg_of (d_dg d)) bs /\ valid_digest (d_dg d) = true /\
                  ((name <> [] \/ assoc_get (f_d2p s) (d_dg d) = None) ->
                   matches_desc H (d_dg d) (d_sz d) bs /\ exists rest, stream evs = bs ++ rest)) /\
    (e <> None -> forall name' d', file_exists s' name' d' = file_exists s name' d' /\
                                   file_fetch s' name' d' = file_fetch s name' d').
Proof. exact file_push_name_spec. Qed.
Print Assumptions C05_push_file_names.

Theorem C05_file_names_visible_matches :
  forall (H : str -> str -> str) s name d bs,
    file_reach_names H s -> file_fetch s name d = Some bs ->
    d_dg d = digest_of H (alg_of (d_dg d)) bs /\ valid_digest (d_dg d) = true.
Proof. exact file_names_visible_matches. Qed.
Print Assumptions C05_file_names_visible_matches.

(* a name that leaves the working directory (cleaned form starts with "..", or absolute)
   is refused before anything is written *)
Theorem C05_file_traversal_refused :
  forall (H : str -> str -> str) comb fuel s name d evs,
    name <> [] -> name_in name (f_names s) = false -> resolve_name name = None ->
    file_push_name H comb true fuel s name d evs = (Some ETraversal, s).
Proof. exact file_push_traversal. Qed.
Print Assumptions C05_file_traversal_refused.

(* Store.DisableOverwrite: resolveWritePath refuses a path that exists, so nothing that
   is visible can be clobbered: the FULL statement for EVERY name, aliases included, over
   all histories of such a store (any mix of the other options) *)
Theorem C05_push_file_disable_overwrite :
  forall (H : str -> str -> str) comb o fuel s name d evs e s',
    file_reach_do H s -> o_disable_overwrite o = true -> name <> [] ->
    file_push_opt H comb true o fuel s name d evs = (e, s') ->
    (e = None ->
       exists bs, file_fetch s' name d = Some bs /\ file_exists s' name d = true /\
                  matches_desc H (d_dg d) (d_sz d) bs /\ exists rest, stream evs = bs ++ rest) /\
    (e <> None -> forall name' d', file_exists s' name' d' = file_exists s name' d' /\
                                   file_fetch s' name' d' = file_fetch s name' d') /\
    (forall name' d' bs, file_fetch s' name' d' = Some bs ->
                         d_dg d' = digest_of H (alg_of (d_dg d')) bs /\ valid_digest (d_dg d') = true).
Proof. exact file_disable_overwrite. Qed.
Print Assumptions C05_push_file_disable_overwrite.

(* the option-free push is the default instance; Store.IgnoreNoName discards unnamed content *)
Theorem C05_file_options :
  forall (H : str -> str -> str) comb fuel s name d evs,
    file_push_opt H comb true default_opts fuel s name d evs = file_push_name H comb true fuel s name d evs /\
    (forall o, o_ignore_noname o = true -> file_push_opt H comb true o fuel s [] d evs = (None, s)).
Proof. exact file_options. Qed.
Print Assumptions C05_file_options.

(* Exists and Fetch agree on every reachable state (so "leaves Exists false and Fetch
   failing" is one statement): OCI layout, and the file store with its digestToPath /
   name status / fallback lookup *)
Theorem C05_exists_iff_fetch :
  forall (H : str -> str -> str),
  (forall s d, valid_digest (d_dg d) = true ->
     (oci_exists s d = (None, true) <-> exists bs, oci_get s (d_dg d) = Some bs)) /\
  (forall s name d, file_reach H s ->
     (file_exists s name d = true <-> exists bs, file_fetch s name d = Some bs)).
Proof. exact exists_iff_fetch. Qed.
Print Assumptions C05_exists_iff_fetch.

(* bad input never gets in, whatever the store *)
Theorem C05_push_bad_rejected :
  forall (H : str -> str -> str) comb fuel d evs,
    (forall fixed m e m',
       bad_input H (mkBase evs None) (d_dg d) (d_sz d) ->
       mem_push H comb fixed fuel m d (mkBase evs None) = (e, m') -> e <> None /\ m' = m) /\
    (forall fixed limit m e m',
       bad_input H (mkBase evs (Some (d_sz d))) (d_dg d) (d_sz d) ->
       limited_push (mem_push H comb fixed fuel) limit m d evs = (e, m') -> e <> None /\ m' = m) /\
    (forall s e s',
       bad_input H (mkBase evs None) (d_dg d) (d_sz d) ->
       oci_push H comb true fuel s d (mkBase evs None) = (e, s') -> e <> None /\ s' = s) /\
    (forall s name path e s',
       bad_input H (mkBase evs (match name with [] => Some (d_sz d) | _ => None end)) (d_dg d) (d_sz d) ->
       file_push H comb true fuel s name path d evs = (e, s') -> e <> None).
Proof. exact C05_push_bad_rejected_l. Qed.
Print Assumptions C05_push_bad_rejected.

(* after ANY history of pushes (good, bad, duplicate, limited) whatever a store
   serves matches the descriptor / digest it is served under (file store: histories
   without name aliasing, see C05_push_file_alias_refuted) *)
Theorem C05_visible_matches :
  forall (H : str -> str -> str),
    (forall m d bs, mem_reach H m -> mem_get m d = Some bs -> matches_desc H (d_dg d) (d_sz d) bs) /\
    (forall s dg bs, oci_reach H s -> oci_get s dg = Some bs ->
                     dg = digest_of H (alg_of dg) bs /\ valid_digest dg = true) /\
    (forall s name d bs, file_reach H s -> file_fetch s name d = Some bs ->
                         d_dg d = digest_of H (alg_of (d_dg d)) bs /\ valid_digest (d_dg d) = true).
Proof. exact C05_visible_matches_l. Qed.
Print Assumptions C05_visible_matches.

(* the fuel of the model's loops excludes nothing: with more fuel than the weight of
   the reader script (events + bytes) ReadAll and CopyBuffer (buffer >= 1) never
   report EFuel and their complete result no longer depends on the fuel *)
Theorem C05_fuel_sufficient :
  forall (H : str -> str -> str) comb fixed fuel src bufsz dg sz,
    (ev_weight (b_evs src) < fuel)%nat ->
    fst (fst (read_all H comb fixed fuel src dg sz)) <> Some EFuel /\
    (forall fuel', (ev_weight (b_evs src) < fuel')%nat ->
       read_all H comb fixed fuel' src dg sz = read_all H comb fixed fuel src dg sz) /\
    ((1 <= bufsz)%nat ->
       fst (fst (copy_buffer H comb fixed fuel src bufsz dg sz)) <> Some EFuel /\
       forall fuel', (ev_weight (b_evs src) < fuel')%nat ->
         copy_buffer H comb fixed fuel' src bufsz dg sz = copy_buffer H comb fixed fuel src bufsz dg sz).
Proof. exact C05_fuel_sufficient_l. Qed.
Print Assumptions C05_fuel_sufficient.

(* cas.Proxy (NewProxy / NewProxyWithLimit over a cas.Memory cache; Fetch, any
   sequence of Read sizes, Close; StopCaching on or off; the io.Pipe / drain protocol
   between the TeeReader and the cache push): the cache only ever holds verified
   content; what Fetch hands out is a prefix of the cached bytes (hit) or of the base
   store's bytes (miss); with StopCaching or when the cache push fails (short, wrong,
   trailing, malformed, too big) the cache is unchanged; when it is filled, it is
   filled with bytes of the base that match the descriptor *)
Theorem C05_proxy :
  forall (H : str -> str -> str) limit stop m d comb evs ks rs ce m',
    (forall d0 bs, mem_get m d0 = Some bs -> matches_desc H (d_dg d0) (d_sz d0) bs) ->
    proxy_fetch H limit stop m d comb evs ks = ((rs, ce), m') ->
    (forall d0 bs, mem_get m' d0 = Some bs -> matches_desc H (d_dg d0) (d_sz d0) bs) /\
    match mem_get m d with
    | Some bs =>
        matches_desc H (d_dg d) (d_sz d) bs /\ m' = m /\ ce = None /\
        exists rest, bs = concat (map fst rs) ++ rest
    | None =>
        (exists rest, stream evs = concat (map fst rs) ++ rest) /\
        (stop = true -> m' = m /\ ce = None) /\
        (ce <> None -> m' = m) /\
        (m' = m \/
         exists buf, m' = (d, buf) :: m /\ ce = None /\ matches_desc H (d_dg d) (d_sz d) buf /\
                     (exists rest, stream evs = buf ++ rest) /\
                     (limit = None -> buf = concat (map fst rs)))
    end.
Proof. exact proxy_fetch_spec. Qed.
Print Assumptions C05_proxy.

(* over ALL histories of fetches through one proxy: the cache invariant, and what a cache
   hit serves *)
Theorem C05_proxy_histories :
  forall (H : str -> str -> str),
    (forall m, proxy_reach H m ->
       forall d bs, mem_get m d = Some bs -> matches_desc H (d_dg d) (d_sz d) bs) /\
    (forall limit stop m d comb evs ks rs ce m' bs,
       proxy_reach H m -> mem_get m d = Some bs ->
       proxy_fetch H limit stop m d comb evs ks = ((rs, ce), m') ->
       matches_desc H (d_dg d) (d_sz d) bs /\ m' = m /\ ce = None /\
       exists rest, bs = concat (map fst rs) ++ rest).
Proof. exact proxy_histories. Qed.
Print Assumptions C05_proxy_histories.

(* concurrent pushes into one OCI layout (any number of threads, any descriptors --
   in particular good and bad content under one digest --, any schedule of their
   Stat / CreateTemp / Write / Remove / Rename micro-steps): at every instant every
   file under blobs/ hashes to its name, and a push that reports success has put its
   reader's exact bytes there *)
Theorem C05_concurrent_same_digest :
  forall (H : str -> str -> str) blobs ts sched st,
    oci_reach H blobs -> Forall (fun t => t_pc t = PStart) ts ->
    crun H (mkC blobs ts) sched = Some st ->
    (forall dg bs, oci_get (c_blobs st) dg = Some bs ->
                   dg = digest_of H (alg_of dg) bs /\ valid_digest dg = true) /\
    (forall i n st' t w, cstep H st i n = Some st' -> nth_error (c_thr st) i = Some t ->
                         t_pc t = PIngest w [] None ->
       exists w', oci_get (c_blobs st') (d_dg (t_d t)) = Some w' /\
                  matches_desc H (d_dg (t_d t)) (d_sz (t_d t)) w' /\ (neof (t_evs t) = 0%nat -> stream (t_evs t) = w')).
Proof. exact C05_concurrent_same_digest_l. Qed.
Print Assumptions C05_concurrent_same_digest.

(* ... and for every reader script (EOF not final): the bytes a successful concurrent push
   puts under blobs/ are exactly what its reader delivered before its first EOF *)
Theorem C05_concurrent_oci_upto_eof :
  forall (H : str -> str -> str) blobs ts sched st,
    oci_reach H blobs -> Forall (fun t => t_pc t = PStart) ts ->
    crun H (mkC blobs ts) sched = Some st ->
    forall i n st' t w, cstep H st i n = Some st' -> nth_error (c_thr st) i = Some t ->
      t_pc t = PIngest w [] None ->
      oci_get (c_blobs st') (d_dg (t_d t)) = Some (upto_eof (t_evs t)) /\
      matches_desc H (d_dg (t_d t)) (d_sz (t_d t)) (upto_eof (t_evs t)).
Proof. exact concurrent_oci_upto. Qed.
Print Assumptions C05_concurrent_oci_upto_eof.

(* the same for one cas.Memory (directly or through LimitedStorage): Load, ReadAll,
   LoadOrStore of any number of threads in any order *)
Theorem C05_concurrent_memory :
  forall (H : str -> str -> str) m ts sched st,
    mem_reach H m -> Forall (fun t => m_pc t = MStart) ts ->
    mrun H (mkM m ts) sched = Some st ->
    (forall d bs, mem_get (ms_mem st) d = Some bs -> matches_desc H (d_dg d) (d_sz d) bs) /\
    (forall i st' t buf, mstep H st i = Some st' -> nth_error (ms_thr st) i = Some t ->
       m_pc t = MRead None buf -> mem_get (ms_mem st) (m_d t) = None ->
       mem_get (ms_mem st') (m_d t) = Some buf /\ matches_desc H (d_dg (m_d t)) (d_sz (m_d t)) buf /\
       exists rest, stream (m_evs t) = buf ++ rest).
Proof. exact memory_concurrent. Qed.
Print Assumptions C05_concurrent_memory.

(* the outcome set memory-store races are compared with consists of runs of that system *)
Theorem C05_concurrent_memory_explored :
  forall (H : str -> str -> str) fuel st st',
    In st' (explore_m H fuel st) -> exists sched, mrun H st sched = Some st'.
Proof. exact explore_m_reachable. Qed.
Print Assumptions C05_concurrent_memory_explored.

(* concurrent NAMED pushes into one file.Store (any number of threads: good and bad
   content, one digest under several names, one name several times; per-name lock,
   duplicate check, resolveWritePath, Create, CopyBuffer, record-or-remove), any
   schedule, provided no two different names in play ([U]) resolve to one path: at every
   instant what Fetch serves hashes to the digest asked for, and a push that reports
   success has made its reader's exact bytes visible under its name *)
Theorem C05_concurrent_file :
  forall (H : str -> str -> str) (U : list str),
    (forall a c, In a U -> In c U -> resolve_name a = resolve_name c -> a = c) ->
    forall s ts sched st,
    file_reach_names H s -> (forall n, name_in n (f_names s) = true -> In n U) ->
    Forall (fun t => ft_pc t = FStart /\ In (ft_name t) U) ts ->
    frun H (mkFC s ts) sched = Some st ->
    (forall name d bs, file_fetch (fc_st st) name d = Some bs ->
                       d_dg d = digest_of H (alg_of (d_dg d)) bs /\ valid_digest (d_dg d) = true) /\
    (forall i st' t out path, fstep H st i = Some st' -> nth_error (fc_thr st) i = Some t ->
       ft_pc t = FWrite None out path ->
       file_fetch (fc_st st') (ft_name t) (ft_d t) = Some out /\
       matches_desc H (d_dg (ft_d t)) (d_sz (ft_d t)) out /\ (neof (ft_evs t) = 0%nat -> stream (ft_evs t) = out)).
Proof. exact file_concurrent. Qed.
Print Assumptions C05_concurrent_file.

(* the outcome set file-store races are compared with consists of runs of that system *)
Theorem C05_concurrent_file_explored :
  forall (H : str -> str -> str) fuel st st',
    In st' (explore_f H fuel st) -> exists sched, frun H st sched = Some st'.
Proof. exact explore_f_reachable. Qed.
Print Assumptions C05_concurrent_file_explored.

(* the memory and file-store transition systems for EVERY reader script (io.EOF not final):
   what a successful concurrent push stores / makes visible is exactly what its reader
   delivered before its first EOF -- no premise on the script *)
Theorem C05_concurrent_memory_upto_eof :
  forall (H : str -> str -> str) m ts sched st,
    mem_reach H m -> Forall (fun t => m_pc t = MStart /\ m_lim t = None) ts ->
    mrun H (mkM m ts) sched = Some st ->
    forall i t buf, nth_error (ms_thr st) i = Some t -> m_pc t = MRead None buf -> buf = upto_eof (m_evs t).
Proof. exact memory_concurrent_upto. Qed.
Print Assumptions C05_concurrent_memory_upto_eof.

Theorem C05_concurrent_file_upto_eof :
  forall (H : str -> str -> str) (U : list str),
    (forall a c, In a U -> In c U -> resolve_name a = resolve_name c -> a = c) ->
    forall s ts sched st,
    file_reach_names H s -> (forall n, name_in n (f_names s) = true -> In n U) ->
    Forall (fun t => ft_pc t = FStart /\ In (ft_name t) U) ts ->
    frun H (mkFC s ts) sched = Some st ->
    forall i st' t out path, fstep H st i = Some st' -> nth_error (fc_thr st) i = Some t ->
      ft_pc t = FWrite None out path ->
      file_fetch (fc_st st') (ft_name t) (ft_d t) = Some (upto_eof (ft_evs t)).
Proof. exact file_concurrent_upto. Qed.
Print Assumptions C05_concurrent_file_upto_eof.

(* the outcome set the implementation's concurrent runs are compared with (exhaustive
   interleaving of the micro-steps, [explore]) consists of runs of the transition
   system only, so the invariant above holds for each of those outcomes *)
Theorem C05_concurrent_explored :
  forall (H : str -> str -> str) fuel big blobs ts st',
    oci_reach H blobs -> Forall (fun t => t_pc t = PStart) ts ->
    In st' (explore H fuel big (mkC blobs ts)) ->
    (exists sched, crun H (mkC blobs ts) sched = Some st') /\
    (forall dg bs, oci_get (c_blobs st') dg = Some bs ->
                   dg = digest_of H (alg_of dg) bs /\ valid_digest dg = true).
Proof. exact C05_concurrent_explored_l. Qed.
Print Assumptions C05_concurrent_explored.

(* the explorers are also COMPLETE: every schedule (for the OCI system: with unsplit
   Writes) that runs until no thread can move ends in a listed state, so the sets the
   implementation's races are compared with are exactly the terminal states of the three
   transition systems; and a finished OCI race leaves nothing under ingest/ *)
Theorem C05_explorers_complete :
  forall (H : str -> str -> str),
  (forall big sched fuel st st',
     crun H st (map (fun i => (i, big)) sched) = Some st' -> (forall i, cstep H st' i big = None) ->
     (length sched < fuel)%nat -> In st' (explore H fuel big st)) /\
  (forall sched fuel st st',
     mrun H st sched = Some st' -> (forall i, mstep H st' i = None) ->
     (length sched < fuel)%nat -> In st' (explore_m H fuel st)) /\
  (forall sched fuel st st',
     frun H st sched = Some st' -> (forall i, fstep H st' i = None) ->
     (length sched < fuel)%nat -> In st' (explore_f H fuel st)) /\
  (forall st, Forall (fun t => exists r, t_pc t = PDone r) (c_thr st) -> ingest_files st = []).
Proof. exact explorers_complete. Qed.
Print Assumptions C05_explorers_complete.

(* ... and the restriction to unsplit Writes loses nothing: every schedule of the OCI
   system, with the Writes split in any way, that runs from "no push started" to "every push
   done" ends in a state that an unsplit schedule reaches too, i.e. in an explored outcome
   (big = any bound on the bytes of each reader script, as the correspondence uses) *)
Theorem C05_split_writes_explored :
  forall (H : str -> str -> str) big blobs ts sched st',
    Forall (fun t => t_pc t = PStart /\ (length (stream (t_evs t)) <= S big)%nat) ts ->
    crun H (mkC blobs ts) sched = Some st' ->
    Forall (fun t => exists r, t_pc t = PDone r) (c_thr st') ->
    exists is, crun H (mkC blobs ts) (map (fun i => (i, big)) is) = Some st' /\
               forall fuel, (length is < fuel)%nat -> In st' (explore H fuel big (mkC blobs ts)).
Proof. exact split_writes. Qed.
Print Assumptions C05_split_writes_explored.

(* ... in particular with the fuel 4 * threads + 2 that the correspondence gives the
   explorer: every finished race of the OCI system is in the compared outcome set *)
Theorem C05_explorer_fuel :
  forall (H : str -> str -> str) big blobs ts sched st',
    Forall (fun t => t_pc t = PStart /\ (length (stream (t_evs t)) <= S big)%nat) ts ->
    crun H (mkC blobs ts) sched = Some st' ->
    Forall (fun t => exists r, t_pc t = PDone r) (c_thr st') ->
    In st' (explore H (4 * length ts + 2) big (mkC blobs ts)).
Proof. exact split_writes_fuel. Qed.
Print Assumptions C05_explorer_fuel.

(* 17 syntactic facts about the mirrored Go functions (statement order and exact shape of
   the modelled statements), regenerated from the source on every run (kind c05_srcfact) *)
Theorem C05_source_facts :
  (c05_f_readall &&
   c05_f_readfull &&
   c05_f_newvr &&
   c05_f_vr_read &&
   c05_f_vr_verify &&
   c05_f_ensure_eof &&
   c05_f_fetchall &&
   c05_f_copybuffer &&
   c05_f_limited &&
   c05_f_memory_push &&
   c05_f_oci_push &&
   c05_f_oci_ingest &&
   c05_f_file_push &&
   c05_f_file_save &&
   c05_f_file_pushfile &&
   c05_f_resolve &&
   c05_f_proxy_fetch) = true.
Proof. exact c05_srcfacts_hold. Qed.
Print Assumptions C05_source_facts.

(* the size guards of the model are the conditions of the Go `if` statements themselves
   (LimitedStorage.Push: expected.Size > ls.PushLimit; ReadAll and NewVerifyReader:
   desc.Size < 0; VerifyReader.Verify: vr.base.N > 0), translated into Gallina by the
   translator on every run (the c05_g_ functions) *)
Theorem C05_source_guards :
  forall (H : str -> str -> str) comb,
  (forall St (push : St -> desc -> base -> option rerr * St) limit st d evs,
     limited_push push limit st d evs =
     if c05_g_limited (d_sz d) limit then (Some ETooBig, st) else push st d (mkBase evs (Some (d_sz d)))) /\
  (forall fixed fuel src dg sz,
     c05_g_readall_size sz = true ->
     fst (read_all H comb fixed fuel src dg sz) = (Some EInvalidSize, [])) /\
  (forall fixed fuel src dg sz,
     c05_g_readall_size sz = false ->
     read_all H comb fixed fuel src dg sz =
     let '((buf, e), v') := read_full (vr_read comb) fuel (new_vr fixed src dg sz) (Z.to_nat sz) [] in
     match e with
     | Some e0 => ((Some e0, buf), v')
     | None => let '(e1, v'') := vr_verify H comb fuel dg v' in ((e1, buf), v'')
     end) /\
  (forall fixed src dg sz,
     new_vr_gen fixed src dg sz =
     if negb (valid_digest dg) then mkVr src sz [] (Some EBadDigest) false
     else if fixed && c05_g_newvr_size sz then mkVr src sz [] (Some EInvalidSize) false
          else mkVr src sz [] None false) /\
  (forall fuel dg v,
     v_verified v = false -> v_err v = None -> c05_g_verify_early (v_N v) = true ->
     vr_verify H comb fuel dg v = (Some EEarly, v)).
Proof. exact c05_source_guards. Qed.
Print Assumptions C05_source_guards.

(* the behaviour before the repair (NewVerifyReader accepted a negative Size): the
   CopyBuffer path stored the empty blob under a descriptor of size -1 *)
Theorem C05_push_sound_refuted_negative_size :
  forall (H : str -> str -> str) comb (mt : str),
    valid_digest (empty_digest H) = true ->
    exists d, (d_sz d < 0)%Z /\
      oci_push H comb false 1 [] d (mkBase [] None) = (None, [(d_dg d, [])]).
Proof. exact C05_push_sound_refuted_negative_size_l. Qed.
Print Assumptions C05_push_sound_refuted_negative_size.

(* ------------------------------------------------------------------ the hypotheses are satisfiable *)
(* toyH / toy_dg: a toy digest function (Proofs/VerifyTop.v): 64 hex characters derived from the byte sum *)

Example C05_ex_readall_ok :
  read_all toyH true true 20 (mkBase [Zero; Data [1;2]; Zero; Data [3]] None) (toy_dg [1;2;3]) 3
  = ((None, [1;2;3]), mkVr (mkBase [] None) 0 [1;2;3] (Some EEof) true).
Proof. vm_compute. reflexivity. Qed.

Example C05_ex_readall_trailing :
  fst (fst (read_all toyH false true 20 (mkBase [Data [1;2;3;4]] None) (toy_dg [1;2;3]) 3)) = Some ETrailing.
Proof. vm_compute. reflexivity. Qed.

Example C05_ex_copybuffer_mismatch :
  fst (copy_buffer toyH false true 20 (mkBase [Data [1;2]; Data [3;4]] None) 3 (toy_dg [1;2;3]) 4)
  = (Some EMismatch, [1;2;3;4]).
Proof. vm_compute. reflexivity. Qed.

Example C05_ex_oci_history :
  let good := mkDesc [] (toy_dg [1;2;3]) 3 in
  let '(e1, s1) := oci_push toyH false true 20 [] good (mkBase [Data [1]; Fail] None) in
  let '(e2, s2) := oci_push toyH false true 20 s1 good (mkBase [Data [1;2;3]] None) in
  let '(e3, s3) := oci_push toyH false true 20 s2 good (mkBase [Data [1;2;3]] None) in
  (e1, s1, e2, s2, e3) = (Some EInjected, [], None, [(toy_dg [1;2;3], [1;2;3])], Some EExists).
Proof. vm_compute. reflexivity. Qed.

Example C05_ex_refuted_hypothesis : valid_digest (empty_digest toyH) = true.
Proof. vm_compute. reflexivity. Qed.

(* two threads, a good and a bad push of one digest, interleaved *)
Example C05_ex_concurrent :
  let d := mkDesc [] (toy_dg [1;2;3]) 3 in
  let ts := [mkThr d [Data [1;2;3]] false 20 PStart; mkThr d [Data [9;9;9]] false 20 PStart] in
  match crun toyH (mkC [] ts) [(0,0); (1,0); (1,5); (0,0); (1,0); (0,5); (0,0)]%nat with
  | Some st => c_blobs st = [(toy_dg [1;2;3], [1;2;3])] /\ ingest_files st = []
  | None => False
  end.
Proof. vm_compute. split; reflexivity. Qed.

(* the hypotheses of the completeness theorems hold for a chunked reader with 0-byte reads *)
Example C05_ex_complete_hypotheses :
  let evs := [Zero; Data [1;2]; Zero; Data [3]; Zero] in
  nfail evs = 0%nat /\ valid_digest (toy_dg (stream evs)) = true /\
  toy_dg (stream evs) = digest_of toyH (alg_of (toy_dg (stream evs))) (stream evs) /\
  fst (copy_buffer toyH true true 20 (mkBase evs None) 1 (toy_dg (stream evs)) 3) = (None, [1;2;3]).
Proof. vm_compute. repeat split; reflexivity. Qed.

(* the proxy: a good fetch fills the cache, a second fetch is a hit, a trailing byte is refused *)
Example C05_ex_proxy :
  let d := mkDesc [] (toy_dg [1;2;3]) 3 in
  let '((r1, c1), m1) := proxy_fetch toyH None false [] d false [Data [1;2]; Data [3]] [2; 5; 1]%nat in
  let '((r2, c2), m2) := proxy_fetch toyH None false m1 d false [Data [9]] [5; 1]%nat in
  let '((r3, c3), m3) := proxy_fetch toyH None false [] d false [Data [1;2;3;4]] [3; 5; 1]%nat in
  (c1, m1, map fst r2, c2, c3, m3) = (None, [(d, [1;2;3])], [[1;2;3]; []], None, Some ETrailing, []).
Proof. vm_compute. reflexivity. Qed.

(* io.EOF is not final for an arbitrary reader: what lies behind an EOF is never read
   (first script: accepted), an EOF before Size bytes is an error even if more data would
   follow, and after (data, EOF) in one call more data is trailing data *)
Example C05_ex_eof_not_final :
  (fst (read_all toyH false true 20 (mkBase [Data [1;2;3]; Eof; Data [9]] None) (toy_dg [1;2;3]) 3),
   fst (fst (read_all toyH false true 20 (mkBase [Data [1;2]; Eof; Data [3]] None) (toy_dg [1;2;3]) 3)),
   fst (fst (copy_buffer toyH true true 20 (mkBase [Data [1;2;3]; Eof; Data [9]] None) 2 (toy_dg [1;2;3]) 3)))
  = ((None, [1;2;3]), Some EUnexpEof, Some ETrailing).
Proof. vm_compute. reflexivity. Qed.

(* ---- "every reader behaviour", without the script: the reader below the VerifyReader is ANY
   state machine obeying the io.Reader contract (a Read returns at most len(p) bytes) - a
   network stream, a reader that goes on after EOF, another VerifyReader ...  Whatever sequence
   of Read(k) and Verify calls the caller makes: if some Verify answered nil, everything the
   Reads handed out is exactly the bytes the descriptor names (sz bytes hashing to dg) *)
Theorem C05_verify_any_reader :
  forall (H : str -> str -> str) (S : Type) (rd : S -> nat -> rres * S),
    (forall s k, (length (fst (fst (rd s k))) <= k)%nat) ->
    forall src dg sz fuel ops v' out' oks',
      g_run H rd fuel dg ops (g_new src dg sz) [] 0%nat = (v', out', oks') ->
      (0 < oks')%nat ->
      Z.of_nat (length out') = sz /\ verified H dg out' = true /\ valid_digest dg = true.
Proof. exact @verify_any_reader_sound. Qed.
Print Assumptions C05_verify_any_reader.

(* a VerifyReader over such a reader is such a reader again: the statement above holds for
   verifying readers nested to any depth, e.g. a caller that hands Push / NewVerifyReader a
   reader that is itself a VerifyReader for ANY inner descriptor (dgi, szi) *)
Theorem C05_verify_reader_closure :
  forall (S : Type) (rd : S -> nat -> rres * S),
    (forall s k, (length (fst (fst (rd s k))) <= k)%nat) ->
    forall v k, (length (fst (fst (g_read rd v k))) <= k)%nat.
Proof. exact @g_read_ok. Qed.
Print Assumptions C05_verify_reader_closure.

Theorem C05_nested_verify_reader :
  forall (H : str -> str -> str) comb (src : base) dgi szi dg sz fuel ops v' out' oks',
    g_run H (g_read (base_read comb)) fuel dg ops (g_new (g_new src dgi szi) dg sz) [] 0%nat = (v', out', oks') ->
    (0 < oks')%nat ->
    Z.of_nat (length out') = sz /\ verified H dg out' = true /\ valid_digest dg = true.
Proof. exact nested_verify_reader_sound. Qed.
Print Assumptions C05_nested_verify_reader.

(* the generic definitions at the scripted reader ARE the model the correspondence check runs
   (Model/Verify.v vr_read / vr_verify, observables of the VR / ST / RA cases) *)
Theorem C05_any_reader_instance_is_model :
  forall (H : str -> str -> str) comb fuel dg v k,
    g_read (base_read comb) (to_g v) k = (fst (vr_read comb v k), to_g (snd (vr_read comb v k))) /\
    g_verify H (base_read comb) fuel dg (to_g v) =
      (fst (vr_verify H comb fuel dg v), to_g (snd (vr_verify H comb fuel dg v))) /\
    (forall s k', (length (fst (fst (base_read comb s k'))) <= k')%nat).
Proof. intros H comb fuel dg v k. exact (conj (to_g_read comb v k) (conj (to_g_verify H comb fuel dg v) (base_read_ok comb))). Qed.
Print Assumptions C05_any_reader_instance_is_model.
