From Coq Require Import List Arith Bool.
From Oras Require Import Model.CopyImpl Proofs.CopyImpl.
Theorem C04_init_free : forall K ext roots, free (init K ext roots) = K.
Proof. exact init_free. Qed.
Print Assumptions C04_init_free.
