(* Protocol part of C02 / C04: theorems about the LTS of Model/CopyImpl.v (syncutil.Go, LimitedRegion,
   status.Tracker, copyGraph.fn, the outer fan-out of ExtendedCopyGraph).  `Reachable succ K ext roots s`:
   s is reachable from `init K ext roots` by any sequence of labels (any interleaving, any fault
   choice, cancellation of the caller's context at any point). *)
From Coq Require Import List Arith Bool Lia.
From Oras Require Import Model.CopyImpl Proofs.CopyImplBase Proofs.CopyImplInv Proofs.CopyImplInv2 Proofs.CopyImplLive
  Proofs.CopyImplDeadlock Proofs.CopyImplFault Proofs.CopyImplTerm Proofs.CopyImplSucc Proofs.CopyImplSucc2
  Proofs.CopyImplOrder Proofs.CopyImplNoFault Model.CopyImplDst Proofs.CopyImplDst Proofs.CopyImplRefine
  Generated.GC02 Model.CopyImplSrc Proofs.CopyImplSrc.
Import ListNotations.

Theorem C04_permits_conserved : forall succ K ext roots s, Reachable succ K ext roots s ->
  free s + holders s = K /\ holders s <= K /\
  (forall t, is_fin (t_pc (tasks s t)) = true -> t_holds (tasks s t) = false).
Proof. exact permits_conserved. Qed.
Print Assumptions C04_permits_conserved.

Theorem C04_end_idempotent : forall succ s t s', step succ s (LEnd t) = Some s' ->
  t_holds (tasks s' t) = false /\ free s' = (if t_holds (tasks s t) then S (free s) else free s).
Proof. exact end_idempotent. Qed.
Print Assumptions C04_end_idempotent.

Theorem C04_finish_releases_once : forall s t e m,
  free (finish s t e m) = (if t_holds (tasks s t) then S (free s) else free s) /\
  t_holds (tasks (finish s t e m) t) = false.
Proof. exact finish_releases_once. Qed.
Print Assumptions C04_finish_releases_once.

Theorem C04_start_idempotent : forall succ s t s', step succ s (LStart t) = Some s' ->
  t_holds (tasks s t) = true -> t_kind (tasks s t) = KFn -> free s' = free s /\ t_holds (tasks s' t) = true.
Proof. exact start_idempotent. Qed.
Print Assumptions C04_start_idempotent.

Theorem C04_inflight_bounded : forall succ K ext roots s, Reachable succ K ext roots s ->
  inflight s <= holders s /\ inflight s <= K.
Proof. exact inflight_bounded. Qed.
Print Assumptions C04_inflight_bounded.

(* Deadlock freedom.  succ is strictly rank-decreasing (content addressing: node ids are assigned
   bottom-up, rank = id).  In every reachable state in which the top-level syncutil.Go has not returned,
   some step of the protocol itself is enabled - a label that is not a fault / cancellation choice
   (progress_label).  The proof: a permit holder is never blocked (region.End() precedes dispatch and
   waiting); with a free permit, waits go strictly down in rank (done channels) or to a nested frame;
   after a failure some cancelled frame has not returned and everything below a cancelled frame can move. *)
Theorem C02_no_deadlock : forall succ K ext roots,
  (forall n m, In m (succ n) -> m < n) ->
  forall s, 1 <= K -> Reachable succ K ext roots s -> is_final s = false ->
  exists l s', progress_label l = true /\ step succ s l = Some s' /\ In l (enabled succ s).
Proof. exact no_deadlock. Qed.
Print Assumptions C02_no_deadlock.

(* Termination.  Nodes are 0 .. N-1, the roots are nodes.  `measure` (Proofs/CopyImplTerm.v: remaining
   program-counter steps of every task + remaining dispatch work of every frame + the cost of committing
   every still untracked node + 1 for the pending cancellation) strictly decreases on EVERY step,
   fault and cancellation choices included; hence every execution has at most
     bound = (#roots * (1 + spawn cost) + 2) + sum_{n<N} (7 + |succ n| + 4 |succ n| + 2) + 1
   steps: a bound that depends only on the graph (not even on K), and no infinite execution exists. *)
Theorem C02_terminates_measure : forall succ K ext roots N,
  (forall n m, In m (succ n) -> m < n) -> (forall r, In r roots -> r < N) ->
  forall s l s', Reachable succ K ext roots s -> step succ s l = Some s' -> measure succ N s' < measure succ N s.
Proof. exact terminates_step. Qed.
Print Assumptions C02_terminates_measure.

Theorem C02_terminates : forall succ K ext roots N,
  (forall n m, In m (succ n) -> m < n) -> (forall r, In r roots -> r < N) ->
  forall ls s, run succ (init K ext roots) ls = Some s -> length ls <= bound succ ext roots N.
Proof. exact terminates. Qed.
Print Assumptions C02_terminates.

Theorem C02_no_infinite_run : forall succ K ext roots N,
  (forall n m, In m (succ n) -> m < n) -> (forall r, In r roots -> r < N) ->
  forall (st : nat -> state) (lb : nat -> label),
  st 0 = init K ext roots -> (forall i, step succ (st i) (lb i) = Some (st (S i))) -> False.
Proof. exact no_infinite_run. Qed.
Print Assumptions C02_no_infinite_run.

(* Faults surface.  If in an execution from the initial state some storage step / callback of a task
   fails (LExists _ ExFail, LFind _ false, LPush _ false) or the caller's context is cancelled
   (LCancelTop, only enabled before the top-level call has returned), then the top-level syncutil.Go, once
   it has returned, has returned an error - never success. *)
Theorem C02_fault_surfaces_protocol : forall succ K ext roots,
  (forall n m, In m (succ n) -> m < n) ->
  forall ls s, run succ (init K ext roots) ls = Some s ->
  existsb is_fault ls = true -> is_final s = true -> result s = Some true.
Proof. exact fault_surfaces. Qed.
Print Assumptions C02_fault_surfaces_protocol.

(* Success.  If the top-level syncutil.Go has returned nil then: no fault or cancellation happened
   (failed = false: contrapositive of the theorem above), every goroutine has finished and holds no
   permit, every root is Done in the tracker (its done channel is closed), every node that was copied
   (DoneCopied: pushed by this run, as opposed to DoneSkipped: found present by Exists) has all its
   successors Done, and no node is left InProgress.  Hence every node reachable from a root through
   copied nodes is Done. *)
Theorem C02_success_protocol : forall succ K ext roots,
  (forall n m, In m (succ n) -> m < n) ->
  forall s, Reachable succ K ext roots s -> result s = Some false ->
  failed s = false /\
  (forall t, is_fin (t_pc (tasks s t)) = true /\ t_holds (tasks s t) = false) /\
  (forall r, In r roots -> is_done (tracker s r) = true) /\
  (forall n, tracker s n = DoneCopied -> forall m, In m (succ n) -> is_done (tracker s m) = true) /\
  (forall n, tracker s n <> InProgress).
Proof. exact success_tracker. Qed.
Print Assumptions C02_success_protocol.

(* Push ordering in the protocol, at EVERY reachable state (failed, cancelled and unfinished executions
   included; this is the invariant behind C02_success_protocol, exported on the audit's request):
   whenever the push step of a task of copyGraph.fn is enabled -- whatever its outcome -- every successor
   of its node is Done in the tracker (its done channel is closed, which happens only after Exists=true
   or a successful copyNode); the same for a task that is past its wait loop; and every node marked
   "copied" has all successors Done.  A failed / cancelled wait never leads to TStart/TPush: LWaitCancel,
   LStartFail and the "successor not committed" arm finish the task with an error. *)
Theorem C02_push_after_done_protocol : forall succ K ext roots,
  (forall n m, In m (succ n) -> m < n) ->
  forall s t ok s', Reachable succ K ext roots s -> step succ s (LPush t ok) = Some s' ->
  forall m, In m (succ (t_node (tasks s t))) -> is_done (tracker s m) = true.
Proof. exact push_after_done. Qed.
Print Assumptions C02_push_after_done_protocol.

Theorem C02_past_wait_successors_done_protocol : forall succ K ext roots,
  (forall n m, In m (succ n) -> m < n) ->
  forall s t, Reachable succ K ext roots s ->
  t_kind (tasks s t) = KFn -> (t_pc (tasks s t) = TStart \/ t_pc (tasks s t) = TPush) ->
  forall m, In m (succ (t_node (tasks s t))) -> is_done (tracker s m) = true.
Proof. exact past_wait_successors_done. Qed.
Print Assumptions C02_past_wait_successors_done_protocol.

Theorem C02_copied_successors_done_protocol : forall succ K ext roots,
  (forall n m, In m (succ n) -> m < n) ->
  forall s, Reachable succ K ext roots s ->
  forall n, tracker s n = DoneCopied -> forall m, In m (succ n) -> is_done (tracker s m) = true.
Proof. exact copied_successors_done. Qed.
Print Assumptions C02_copied_successors_done_protocol.

(* No fault => nil.  The converse of C02_fault_surfaces_protocol: in an execution from the initial state
   in which no storage step / callback fails and the caller's context is not cancelled, nothing ever
   records a failure -- in particular the "successor not committed" arm of copyGraph.fn is unreachable
   (every node a parent waits for was tracked by a task of its own Go frame) and no wait / region.Start /
   dispatch sees a cancelled context -- so once the execution has ended (C02_no_deadlock + C02_terminates:
   it does end) the top-level syncutil.Go has returned nil; C02_success_protocol then gives "every root
   Done, copied nodes have Done successors, nothing InProgress".  This is the middle step of "re-running
   it without faults completes the graph". *)
Theorem C02_nofault_returns_nil_protocol : forall succ K ext roots,
  (forall n m, In m (succ n) -> m < n) ->
  forall ls s, run succ (init K ext roots) ls = Some s ->
  existsb is_fault ls = false -> is_final s = true -> failed s = false /\ result s = Some false.
Proof. exact nofault_returns_nil. Qed.
Print Assumptions C02_nofault_returns_nil_protocol.

(* ------------------------------------------------------------------------------------------------
   THE DESTINATION INSIDE THE PROTOCOL MODEL (Model/CopyImplDst.v): the state is the protocol state
   plus the destination content d; dst.Exists answers what d holds, a push that returns nil stores
   its node, a push may fail before or AFTER it stored (DPushStoredFail), nothing else writes d.
   `DReachable succ K ext roots d0 x`: x is reachable from the call's initial state on a destination
   holding d0, by any interleaving, any fault placement, any cancellation point.
   `closed succ d`: every stored node has all its successors stored.  These are the clauses of C02
   themselves, derived from the mechanism (done channels closed only on success, waits before the
   push, cancel-cause contexts) - not from an acceptor whose guards are the property. *)

(* the destination is link-closed at every instant - failed, cancelled, unfinished executions
   included; a node that is Done in the tracker is stored; the initial content is never lost *)
Theorem C02_dst_closed_always_protocol : forall succ K ext roots d0,
  (forall n m, In m (succ n) -> m < n) ->
  forall x, closed succ d0 -> DReachable succ K ext roots d0 x ->
  closed succ (d_dst x) /\
  (forall m, is_done (tracker (d_st x) m) = true -> d_dst x m = true) /\
  (forall n, d0 n = true -> d_dst x n = true).
Proof. exact dst_closed_always. Qed.
Print Assumptions C02_dst_closed_always_protocol.

(* no push stores a node before all of that node's successors are stored - also a push that stores
   and then reports an error *)
Theorem C02_push_stores_after_successors_protocol : forall succ K ext roots d0,
  (forall n m, In m (succ n) -> m < n) ->
  forall x dl x' n, closed succ d0 -> DReachable succ K ext roots d0 x ->
  dstep succ x dl = Some x' -> stores (d_st x) dl = Some n ->
  forall m, In m (succ n) -> d_dst x m = true.
Proof. exact push_stores_after_successors. Qed.
Print Assumptions C02_push_stores_after_successors_protocol.

(* content enters the destination only through a push step of the call *)
Theorem C02_dst_written_only_by_push_protocol : forall succ x dl x' n, dstep succ x dl = Some x' ->
  d_dst x' n = true -> d_dst x n = true \/ stores (d_st x) dl = Some n.
Proof. exact dst_written_only_by_push. Qed.
Print Assumptions C02_dst_written_only_by_push_protocol.

(* a successful return: everything reachable from every root is stored *)
Theorem C02_success_complete_protocol : forall succ K ext roots d0,
  (forall n m, In m (succ n) -> m < n) ->
  forall x, closed succ d0 -> DReachable succ K ext roots d0 x -> result (d_st x) = Some false ->
  forall r, In r roots -> forall n, reach succ r n -> d_dst x n = true.
Proof. exact success_complete. Qed.
Print Assumptions C02_success_complete_protocol.

(* with the Exists answers determined by the destination the system still never deadlocks, and its
   executions are as bounded as those of the protocol model *)
Theorem C02_no_deadlock_dst_protocol : forall succ K ext roots d0,
  (forall n m, In m (succ n) -> m < n) ->
  forall x, 1 <= K -> DReachable succ K ext roots d0 x -> is_final (d_st x) = false ->
  exists dl x', dprogress_label dl = true /\ dstep succ x dl = Some x'.
Proof. exact dno_deadlock. Qed.
Print Assumptions C02_no_deadlock_dst_protocol.

Theorem C02_terminates_dst_protocol : forall succ K ext roots d0,
  (forall n m, In m (succ n) -> m < n) -> forall N, (forall r, In r roots -> r < N) ->
  forall ls x, drun succ (dinit K ext roots d0) ls = Some x -> length ls <= bound succ ext roots N.
Proof. exact dterminates. Qed.
Print Assumptions C02_terminates_dst_protocol.

(* one call on a closed destination, end to end: closed throughout and nothing lost; once the call
   has returned: a fault or cancellation => error; no fault => nil and the whole graph is stored *)
Theorem C02_call_summary_protocol : forall succ K ext roots d0,
  (forall n m, In m (succ n) -> m < n) ->
  forall ls x, closed succ d0 -> drun succ (dinit K ext roots d0) ls = Some x ->
  closed succ (d_dst x) /\
  (forall n, d0 n = true -> d_dst x n = true) /\
  (is_final (d_st x) = true ->
     (existsb dis_fault ls = true -> result (d_st x) = Some true) /\
     (existsb dis_fault ls = false -> result (d_st x) = Some false /\
        forall r, In r roots -> forall n, reach succ r n -> d_dst x n = true)).
Proof. exact call_summary. Qed.
Print Assumptions C02_call_summary_protocol.

(* retry: after ANY first call (failed, cancelled, abandoned at any point, any K / roots), a second
   call without faults on what the first one left, once it has returned, returned nil and the
   destination holds everything reachable from its roots *)
Theorem C02_retry_completes_protocol : forall succ K1 ext1 roots1 K2 ext2 roots2 d0 ls1 x1 ls2 x2,
  (forall n m, In m (succ n) -> m < n) -> closed succ d0 ->
  drun succ (dinit K1 ext1 roots1 d0) ls1 = Some x1 ->
  drun succ (dinit K2 ext2 roots2 (d_dst x1)) ls2 = Some x2 ->
  existsb dis_fault ls2 = false -> is_final (d_st x2) = true ->
  result (d_st x2) = Some false /\ closed succ (d_dst x2) /\
  (forall r, In r roots2 -> forall n, reach succ r n -> d_dst x2 n = true) /\
  (forall n, d0 n = true -> d_dst x2 n = true).
Proof. exact retry_completes. Qed.
Print Assumptions C02_retry_completes_protocol.

(* REFINEMENT.  The abstract specification of a copy call (Proofs/CopyImplRefine.v: astep) has the
   clauses of C02 as its guards: a node is stored only when all its successors are stored, a fault or
   a cancellation taints the call, the call returns an error only when tainted and nil only when
   untainted with everything reachable from the roots stored.  Every execution of the protocol LTS
   with destination - any interleaving, fault placement, cancellation point, and (drun is prefix
   closed) any prefix - is, on its visible events (dtrace: stores, faults, cancel, the top-level
   return), a run of that specification ending in (the destination reached, "a fault occurred"). *)
Theorem C02_refines_abstract_spec_protocol : forall succ K ext roots d0,
  (forall n m, In m (succ n) -> m < n) -> closed succ d0 ->
  forall ls x, drun succ (dinit K ext roots d0) ls = Some x ->
  aruns succ roots (mkA d0 false) (dtrace succ (dinit K ext roots d0) ls) (mkA (d_dst x) (existsb dis_fault ls)).
Proof. exact refines_abstract_spec. Qed.
Print Assumptions C02_refines_abstract_spec_protocol.

(* and the abstract specification has the property: closed stays closed, taint and content are kept *)
Theorem C02_abstract_spec_sound_protocol : forall succ roots a es a', aruns succ roots a es a' ->
  closed succ (a_dst a) ->
  closed succ (a_dst a') /\ (a_taint a = true -> a_taint a' = true) /\
  (forall n, a_dst a n = true -> a_dst a' n = true).
Proof. exact abstract_spec_sound. Qed.
Print Assumptions C02_abstract_spec_sound_protocol.

(* TIE TO THE SOURCE.  The program-counter order of the model (Model/CopyImplSrc.v: which Go calls each
   pc stands for) equals the call sequences that the translator re-reads from copy.go (copyGraph incl.
   fn), internal/syncutil/limit.go (Go, LimitedRegion.Start / End) and extendedcopy.go on every run:
   TryCommit, [defer close], Exists, FindSuccessors, region.End BEFORE the nested syncutil.Go, the wait
   loop's TryCommit, region.Start, then the copy; Go = dispatch (LimitRegion, Start, eg.Go), child
   (deferred End, fn), Wait, Cause; the outer closure = End, copyGraph, Start. *)
Theorem C02_source_order_protocol :
  c02proto_calls_fn = fn_calls /\ c02proto_calls_go = go_calls /\ c02proto_calls_ext = ext_calls /\
  c02proto_calls_start = start_calls /\ c02proto_calls_end = end_calls.
Proof. exact source_order. Qed.
Print Assumptions C02_source_order_protocol.

(* ---- the hypotheses are satisfiable: a concrete DAG (4 -> 3,2 ; 3 -> 1,2 ; 2 -> 0,1), complete runs *)
Definition ex_succ (n : nat) : list nat :=
  match n with 4 => [3; 2] | 3 => [1; 2] | 2 => [0; 1] | _ => [] end.
Example ex_succ_dec : forall n m, In m (ex_succ n) -> m < n.
Proof. intros n m. do 5 (destruct n as [|n]; [cbn; intuition lia|]). cbn. tauto. Qed.

(* K = 1, CopyGraph from root 4, no fault: the labels chosen by the scheduler form a run of the LTS
   that ends, returns nil, leaves every node Done and all permits free *)
Example ex_run_ok :
  let ls := snd (sched ex_succ pick_progress 400 (init 1 false [4]) []) in
  existsb is_fault ls = false /\ length ls = 59 /\
  match run ex_succ (init 1 false [4]) ls with
  | Some s => result s = Some false /\ forallb (fun n => is_done (tracker s n)) [0; 1; 2; 3; 4] = true /\ free s = 1
  | None => False
  end.
Proof. vm_compute. repeat split; reflexivity. Qed.

(* K = 2, ExtendedCopyGraph with roots 4 and 3, the first push fails: the call returns an error *)
Example ex_run_fault :
  let ls := snd (sched ex_succ pick_push_fault 400 (init 2 true [4; 3]) []) in
  existsb is_fault ls = true /\
  match run ex_succ (init 2 true [4; 3]) ls with
  | Some s => is_final s = true /\ result s = Some true /\ free s = 2
  | None => False
  end.
Proof. vm_compute. repeat split; reflexivity. Qed.

(* a reachable non-final state (the hypothesis of C02_no_deadlock) *)
Example ex_nonfinal : Reachable ex_succ 1 false [4] (init 1 false [4]) /\ is_final (init 1 false [4]) = false.
Proof. split. apply R_init. reflexivity. Qed.

(* the destination theorems' hypotheses are satisfiable: destination {0,1} (closed), first call with K = 1
   whose first push stores node 2's successor... and then fails: the call returns an error, the
   destination stays closed; the fault-free retry with K = 2 returns nil and everything is stored *)
Example ex_closed_d0 : closed ex_succ (dst_of_list [0; 1]).
Proof. intros n Hn m Hm. do 2 (destruct n as [|n]; [cbn in Hm; contradiction|]). cbn in Hn. discriminate. Qed.
Example ex_fault_then_retry :
  let d0 := dst_of_list [0; 1] in
  let ls1 := snd (dsched ex_succ dpick_late 400 (dinit 1 false [4] d0) []) in
  existsb dis_fault ls1 = true /\
  match drun ex_succ (dinit 1 false [4] d0) ls1 with
  | Some x1 =>
      result (d_st x1) = Some true /\ map (d_dst x1) [0; 1; 2; 3; 4] = [true; true; true; false; false] /\
      let ls2 := snd (dsched ex_succ dpick_progress 400 (dinit 2 false [4] (d_dst x1)) []) in
      existsb dis_fault ls2 = false /\
      match drun ex_succ (dinit 2 false [4] (d_dst x1)) ls2 with
      | Some x2 => result (d_st x2) = Some false /\ forallb (d_dst x2) [0; 1; 2; 3; 4] = true /\ free (d_st x2) = 2
      | None => False
      end
  | None => False
  end.
Proof. vm_compute. repeat split; reflexivity. Qed.

(* the visible traces of two executions on destination {0,1}: a push that stores node 2 and then fails
   (K = 1), and a fault-free call (K = 2) *)
Example ex_visible_traces :
  let d0 := dst_of_list [0; 1] in
  dtrace ex_succ (dinit 1 false [4] d0) (snd (dsched ex_succ dpick_late 400 (dinit 1 false [4] d0) []))
    = [AStore 2; AFault; ARet true] /\
  dtrace ex_succ (dinit 2 false [4] d0) (snd (dsched ex_succ dpick_progress 400 (dinit 2 false [4] d0) []))
    = [AStore 2; AStore 3; AStore 4; ARet false].
Proof. vm_compute. split; reflexivity. Qed.
