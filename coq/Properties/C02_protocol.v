(* Protocol part of C02 / C04: theorems about the LTS of Model/CopyImpl.v (syncutil.Go, LimitedRegion,
   status.Tracker, copyGraph.fn, the outer fan-out of ExtendedCopyGraph).  `Reachable succ K ext roots s`:
   s is reachable from `init K ext roots` by any sequence of labels (any interleaving, any fault
   choice, cancellation of the caller's context at any point). *)
From Coq Require Import List Arith Bool.
From Oras Require Import Model.CopyImpl Proofs.CopyImpl.
Import ListNotations.

Theorem C04_permits_conserved : forall succ K ext roots s, Reachable succ K ext roots s ->
  free s + holders s = K /\ holders s <= K /\
  (forall t, is_fin (t_pc (tasks s t)) = true -> t_holds (tasks s t) = false).
Proof. exact permits_conserved. Qed.
Print Assumptions C04_permits_conserved.

Theorem C04_end_idempotent : forall succ s t s', step succ s (LEnd t) = Some s' ->
  t_holds (tasks s' t) = false /\ free s' = (if t_holds (tasks s t) then S (free s) else free s).
Proof. exact end_idempotent. Qed.
Print Assumptions C04_end_idempotent.

Theorem C04_finish_releases_once : forall s t e m,
  free (finish s t e m) = (if t_holds (tasks s t) then S (free s) else free s) /\
  t_holds (tasks (finish s t e m) t) = false.
Proof. exact finish_releases_once. Qed.
Print Assumptions C04_finish_releases_once.

Theorem C04_start_idempotent : forall succ s t s', step succ s (LStart t) = Some s' ->
  t_holds (tasks s t) = true -> t_kind (tasks s t) = KFn -> free s' = free s /\ t_holds (tasks s' t) = true.
Proof. exact start_idempotent. Qed.
Print Assumptions C04_start_idempotent.

Theorem C04_inflight_bounded : forall succ K ext roots s, Reachable succ K ext roots s ->
  inflight s <= holders s /\ inflight s <= K.
Proof. exact inflight_bounded. Qed.
Print Assumptions C04_inflight_bounded.
