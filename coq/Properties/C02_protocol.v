(* Protocol part of C02 / C04: theorems about the LTS of Model/CopyImpl.v (syncutil.Go, LimitedRegion,
   status.Tracker, copyGraph.fn, the outer fan-out of ExtendedCopyGraph).  `Reachable succ K ext roots s`:
   s is reachable from `init K ext roots` by any sequence of labels (any interleaving, any fault
   choice, cancellation of the caller's context at any point). *)
From Coq Require Import List Arith Bool Lia.
From Oras Require Import Model.CopyImpl Model.CopyImplDst Model.CopyAbs Proofs.CopyImplBase Proofs.CopyImplInv Proofs.CopyImplInv2 Proofs.CopyImplLive
  Proofs.CopyImplDeadlock Proofs.CopyImplFault Proofs.CopyImplTerm Proofs.CopyImplSucc Proofs.CopyImplSucc2
  Proofs.CopyImplOrder Proofs.CopyImplNoFault Proofs.CopyImplDst Proofs.CopyAbsProto.
Import ListNotations.

Theorem C04_permits_conserved : forall succ K ext roots s, Reachable succ K ext roots s ->
  free s + holders s = K /\ holders s <= K /\
  (forall t, is_fin (t_pc (tasks s t)) = true -> t_holds (tasks s t) = false).
Proof. exact permits_conserved. Qed.
Print Assumptions C04_permits_conserved.

Theorem C04_end_idempotent : forall succ s t s', step succ s (LEnd t) = Some s' ->
  t_holds (tasks s' t) = false /\ free s' = (if t_holds (tasks s t) then S (free s) else free s).
Proof. exact end_idempotent. Qed.
Print Assumptions C04_end_idempotent.

Theorem C04_finish_releases_once : forall s t e m,
  free (finish s t e m) = (if t_holds (tasks s t) then S (free s) else free s) /\
  t_holds (tasks (finish s t e m) t) = false.
Proof. exact finish_releases_once. Qed.
Print Assumptions C04_finish_releases_once.

Theorem C04_start_idempotent : forall succ s t s', step succ s (LStart t) = Some s' ->
  t_holds (tasks s t) = true -> t_kind (tasks s t) = KFn -> free s' = free s /\ t_holds (tasks s' t) = true.
Proof. exact start_idempotent. Qed.
Print Assumptions C04_start_idempotent.

Theorem C04_inflight_bounded : forall succ K ext roots s, Reachable succ K ext roots s ->
  inflight s <= holders s /\ inflight s <= K.
Proof. exact inflight_bounded. Qed.
Print Assumptions C04_inflight_bounded.

(* Deadlock freedom.  succ is strictly rank-decreasing (content addressing: node ids are assigned
   bottom-up, rank = id).  In every reachable state in which the top-level syncutil.Go has not returned,
   some step of the protocol itself is enabled - a label that is not a fault / cancellation choice
   (progress_label).  The proof: a permit holder is never blocked (region.End() precedes dispatch and
   waiting); with a free permit, waits go strictly down in rank (done channels) or to a nested frame;
   after a failure some cancelled frame has not returned and everything below a cancelled frame can move. *)
Theorem C02_no_deadlock : forall succ K ext roots,
  (forall n m, In m (succ n) -> m < n) ->
  forall s, 1 <= K -> Reachable succ K ext roots s -> is_final s = false ->
  exists l s', progress_label l = true /\ step succ s l = Some s' /\ In l (enabled succ s).
Proof. exact no_deadlock. Qed.
Print Assumptions C02_no_deadlock.

(* Termination.  Nodes are 0 .. N-1, the roots are nodes.  `measure` (Proofs/CopyImplTerm.v: remaining
   program-counter steps of every task + remaining dispatch work of every frame + the cost of committing
   every still untracked node + 1 for the pending cancellation) strictly decreases on EVERY step,
   fault and cancellation choices included; hence every execution has at most
     bound = (#roots * (1 + spawn cost) + 2) + sum_{n<N} (7 + |succ n| + 4 |succ n| + 2) + 1
   steps: a bound that depends only on the graph (not even on K), and no infinite execution exists. *)
Theorem C02_terminates_measure : forall succ K ext roots N,
  (forall n m, In m (succ n) -> m < n) -> (forall r, In r roots -> r < N) ->
  forall s l s', Reachable succ K ext roots s -> step succ s l = Some s' -> measure succ N s' < measure succ N s.
Proof. exact terminates_step. Qed.
Print Assumptions C02_terminates_measure.

Theorem C02_terminates : forall succ K ext roots N,
  (forall n m, In m (succ n) -> m < n) -> (forall r, In r roots -> r < N) ->
  forall ls s, run succ (init K ext roots) ls = Some s -> length ls <= bound succ ext roots N.
Proof. exact terminates. Qed.
Print Assumptions C02_terminates.

Theorem C02_no_infinite_run : forall succ K ext roots N,
  (forall n m, In m (succ n) -> m < n) -> (forall r, In r roots -> r < N) ->
  forall (st : nat -> state) (lb : nat -> label),
  st 0 = init K ext roots -> (forall i, step succ (st i) (lb i) = Some (st (S i))) -> False.
Proof. exact no_infinite_run. Qed.
Print Assumptions C02_no_infinite_run.

(* Faults surface.  If in an execution from the initial state some storage step / callback of a task
   fails (LExists _ ExFail, LFind _ false, LPush _ false) or the caller's context is cancelled
   (LCancelTop, only enabled before the top-level call has returned), then the top-level syncutil.Go, once
   it has returned, has returned an error - never success. *)
Theorem C02_fault_surfaces_protocol : forall succ K ext roots,
  (forall n m, In m (succ n) -> m < n) ->
  forall ls s, run succ (init K ext roots) ls = Some s ->
  existsb is_fault ls = true -> is_final s = true -> result s = Some true.
Proof. exact fault_surfaces. Qed.
Print Assumptions C02_fault_surfaces_protocol.

(* Success.  If the top-level syncutil.Go has returned nil then: no fault or cancellation happened
   (failed = false: contrapositive of the theorem above), every goroutine has finished and holds no
   permit, every root is Done in the tracker (its done channel is closed), every node that was copied
   (DoneCopied: pushed by this run, as opposed to DoneSkipped: found present by Exists) has all its
   successors Done, and no node is left InProgress.  Hence every node reachable from a root through
   copied nodes is Done. *)
Theorem C02_success_protocol : forall succ K ext roots,
  (forall n m, In m (succ n) -> m < n) ->
  forall s, Reachable succ K ext roots s -> result s = Some false ->
  failed s = false /\
  (forall t, is_fin (t_pc (tasks s t)) = true /\ t_holds (tasks s t) = false) /\
  (forall r, In r roots -> is_done (tracker s r) = true) /\
  (forall n, tracker s n = DoneCopied -> forall m, In m (succ n) -> is_done (tracker s m) = true) /\
  (forall n, tracker s n <> InProgress).
Proof. exact success_tracker. Qed.
Print Assumptions C02_success_protocol.

(* Push ordering in the protocol, at EVERY reachable state (failed, cancelled and unfinished executions
   included; this is the invariant behind C02_success_protocol, exported on the audit's request):
   whenever the push step of a task of copyGraph.fn is enabled -- whatever its outcome -- every successor
   of its node is Done in the tracker (its done channel is closed, which happens only after Exists=true
   or a successful copyNode); the same for a task that is past its wait loop; and every node marked
   "copied" has all successors Done.  A failed / cancelled wait never leads to TStart/TPush: LWaitCancel,
   LStartFail and the "successor not committed" arm finish the task with an error. *)
Theorem C02_push_after_done_protocol : forall succ K ext roots,
  (forall n m, In m (succ n) -> m < n) ->
  forall s t ok s', Reachable succ K ext roots s -> step succ s (LPush t ok) = Some s' ->
  forall m, In m (succ (t_node (tasks s t))) -> is_done (tracker s m) = true.
Proof. exact push_after_done. Qed.
Print Assumptions C02_push_after_done_protocol.

Theorem C02_past_wait_successors_done_protocol : forall succ K ext roots,
  (forall n m, In m (succ n) -> m < n) ->
  forall s t, Reachable succ K ext roots s ->
  t_kind (tasks s t) = KFn -> (t_pc (tasks s t) = TStart \/ t_pc (tasks s t) = TPush) ->
  forall m, In m (succ (t_node (tasks s t))) -> is_done (tracker s m) = true.
Proof. exact past_wait_successors_done. Qed.
Print Assumptions C02_past_wait_successors_done_protocol.

Theorem C02_copied_successors_done_protocol : forall succ K ext roots,
  (forall n m, In m (succ n) -> m < n) ->
  forall s, Reachable succ K ext roots s ->
  forall n, tracker s n = DoneCopied -> forall m, In m (succ n) -> is_done (tracker s m) = true.
Proof. exact copied_successors_done. Qed.
Print Assumptions C02_copied_successors_done_protocol.

(* No fault => nil.  The converse of C02_fault_surfaces_protocol: in an execution from the initial state
   in which no storage step / callback fails and the caller's context is not cancelled, nothing ever
   records a failure -- in particular the "successor not committed" arm of copyGraph.fn is unreachable
   (every node a parent waits for was tracked by a task of its own Go frame) and no wait / region.Start /
   dispatch sees a cancelled context -- so once the execution has ended (C02_no_deadlock + C02_terminates:
   it does end) the top-level syncutil.Go has returned nil; C02_success_protocol then gives "every root
   Done, copied nodes have Done successors, nothing InProgress".  This is the middle step of "re-running
   it without faults completes the graph". *)
Theorem C02_nofault_returns_nil_protocol : forall succ K ext roots,
  (forall n m, In m (succ n) -> m < n) ->
  forall ls s, run succ (init K ext roots) ls = Some s ->
  existsb is_fault ls = false -> is_final s = true -> failed s = false /\ result s = Some false.
Proof. exact nofault_returns_nil. Qed.
Print Assumptions C02_nofault_returns_nil_protocol.

(* ---- The protocol WITH A DESTINATION (Model/CopyImplDst.v): a state is a protocol state plus the set of
   nodes the destination holds; dst.Exists answers by that set, a successful copyNode stores its node, a
   failing one may have stored it (DPushFailStored).  `DReachable succ K ext roots d0 x`: x is reachable from
   the initial protocol state with destination content d0 by any sequence of labels -- every interleaving
   of tasks / permits / done channels / cancel-cause contexts, every fault and cancellation choice.
   This is the property C02 itself at the granularity of the protocol. ---- *)

(* the destination is link-closed at every reachable state: successful, failed, cancelled, unfinished *)
Theorem C02_closed_always_protocol : forall succ K ext roots d0,
  (forall n m, In m (succ n) -> m < n) ->
  forall x, dclosed succ d0 -> DReachable succ K ext roots d0 x -> dclosed succ (dd x).
Proof. exact dclosed_always. Qed.
Print Assumptions C02_closed_always_protocol.

(* no push step -- successful, failing, or failing after having stored the content -- is enabled before
   every successor of its node is in the destination *)
Theorem C02_push_after_successors_protocol : forall succ K ext roots d0,
  (forall n m, In m (succ n) -> m < n) ->
  forall x dl x' t, DReachable succ K ext roots d0 x -> dstep succ x dl = Some x' ->
  (exists ok, dl = DL (LPush t ok)) \/ dl = DPushFailStored t ->
  forall m, In m (succ (t_node (tasks (ds x) t))) -> In m (dd x).
Proof. exact dpush_after_successors. Qed.
Print Assumptions C02_push_after_successors_protocol.

(* success: everything reachable from every root is in the destination *)
Theorem C02_success_complete_protocol : forall succ K ext roots d0,
  (forall n m, In m (succ n) -> m < n) ->
  forall x, dclosed succ d0 -> DReachable succ K ext roots d0 x -> result (ds x) = Some false ->
  forall r n, In r roots -> dreach succ r n -> In n (dd x).
Proof. exact dsuccess_complete. Qed.
Print Assumptions C02_success_complete_protocol.

(* retry: after ANY reachable state of a first call (failed, cancelled, abandoned), a second call -- any K,
   CopyGraph or ExtendedCopyGraph, any roots -- in which nothing fails and which has ended (it does end:
   C02_no_deadlock + C02_terminates) returned nil, left the destination link-closed, and the destination holds
   everything reachable from its roots.  All three clauses of "re-running it without faults completes the
   graph" in one statement about the operational model. *)
Theorem C02_rerun_completes_protocol : forall succ K1 ext1 roots1 K2 ext2 roots2 d0,
  (forall n m, In m (succ n) -> m < n) -> dclosed succ d0 ->
  forall x1, DReachable succ K1 ext1 roots1 d0 x1 ->
  forall ls x2, drun succ (dinit K2 ext2 roots2 (dd x1)) ls = Some x2 ->
  existsb is_fault (map dlab ls) = false -> is_final (ds x2) = true ->
  result (ds x2) = Some false /\
  dclosed succ (dd x2) /\
  forall r n, In r roots2 -> dreach succ r n -> In n (dd x2).
Proof. exact drerun_completes. Qed.
Print Assumptions C02_rerun_completes_protocol.

(* Refinement to the abstract specification Model/CopyAbs.v (shared with the spec-level part): every step of the
   protocol system with a destination taken before the top-level call has returned is an abstract step -- a
   push (successful, or failing after it stored) is a store whose guard "all successors held" holds, the return
   of the top-level syncutil.Go is the abstract return (nil only when the closure of the roots is held), every
   other protocol step is a stutter. *)
Theorem C02_protocol_refines_abstract : forall succ K ext roots d0,
  (forall n m, In m (succ n) -> m < n) ->
  forall x dl x', dclosed succ d0 -> DReachable succ K ext roots d0 x ->
  result (ds x) = None -> dstep succ x dl = Some x' ->
  exists l, astep succ (proot roots) pheld (pabs x) l (pabs x').
Proof. exact dstep_refines. Qed.
Print Assumptions C02_protocol_refines_abstract.

(* ---- the hypotheses are satisfiable: a concrete DAG (4 -> 3,2 ; 3 -> 1,2 ; 2 -> 0,1), complete runs *)
Definition ex_succ (n : nat) : list nat :=
  match n with 4 => [3; 2] | 3 => [1; 2] | 2 => [0; 1] | _ => [] end.
Example ex_succ_dec : forall n m, In m (ex_succ n) -> m < n.
Proof. intros n m. do 5 (destruct n as [|n]; [cbn; intuition lia|]). cbn. tauto. Qed.

(* K = 1, CopyGraph from root 4, no fault: the labels chosen by the scheduler form a run of the LTS
   that ends, returns nil, leaves every node Done and all permits free *)
Example ex_run_ok :
  let ls := snd (sched ex_succ pick_progress 400 (init 1 false [4]) []) in
  existsb is_fault ls = false /\ length ls = 59 /\
  match run ex_succ (init 1 false [4]) ls with
  | Some s => result s = Some false /\ forallb (fun n => is_done (tracker s n)) [0; 1; 2; 3; 4] = true /\ free s = 1
  | None => False
  end.
Proof. vm_compute. repeat split; reflexivity. Qed.

(* K = 2, ExtendedCopyGraph with roots 4 and 3, the first push fails: the call returns an error *)
Example ex_run_fault :
  let ls := snd (sched ex_succ pick_push_fault 400 (init 2 true [4; 3]) []) in
  existsb is_fault ls = true /\
  match run ex_succ (init 2 true [4; 3]) ls with
  | Some s => is_final s = true /\ result s = Some true /\ free s = 2
  | None => False
  end.
Proof. vm_compute. repeat split; reflexivity. Qed.

(* a reachable non-final state (the hypothesis of C02_no_deadlock) *)
Example ex_nonfinal : Reachable ex_succ 1 false [4] (init 1 false [4]) /\ is_final (init 1 false [4]) = false.
Proof. split. apply R_init. reflexivity. Qed.

(* with the destination: K = 2, CopyGraph from root 4 into a destination that already holds the closed set
   {0, 1}; the first enabled push fails; the call returns an error and the destination is closed; a fault-free
   second run (K = 1) from what is left returns nil and holds all five nodes *)
Definition is_push_fail (l : label) : bool := match l with LPush _ false => true | _ => false end.
Example ex_run_dst :
  let r1 := dsched ex_succ is_push_fail 120 (dinit 2 false [4] [0; 1]) [] in
  let x1 := fst r1 in
  existsb is_fault (map dlab (snd r1)) = true /\
  is_final (ds x1) = true /\ result (ds x1) = Some true /\ dclosedb ex_succ (dd x1) = true /\
  let r2 := dsched ex_succ (fun _ => false) 120 (dinit 1 false [4] (dd x1)) [] in
  let x2 := fst r2 in
  drun ex_succ (dinit 1 false [4] (dd x1)) (snd r2) = Some x2 /\
  existsb is_fault (map dlab (snd r2)) = false /\ is_final (ds x2) = true /\
  result (ds x2) = Some false /\ forallb (fun n => dmem n (dd x2)) [0; 1; 2; 3; 4] = true.
Proof. vm_compute. repeat split; reflexivity. Qed.

(* ===== extension round, protocol builder: liveness / end-to-end statements of the system WITH
   destination (Proofs/CopyImplDstLive.v) and the tie of the model's program order to the source ===== *)
From Oras Require Import Generated.GC02 Model.CopyImplSrc Proofs.CopyImplSrc Proofs.CopyImplDstLive.

(* with dst.Exists answered by the destination (no longer a free choice) the system still never
   deadlocks: every reachable state in which the top-level syncutil.Go has not returned has an enabled
   step that is not a fault / cancellation choice *)
Theorem C02_no_deadlock_dst_protocol : forall succ K ext roots d0,
  (forall n m, In m (succ n) -> m < n) ->
  forall x, 1 <= K -> DReachable succ K ext roots d0 x -> is_final (ds x) = false ->
  exists dl x', progress_label (dlab dl) = true /\ dstep succ x dl = Some x'.
Proof. exact dno_deadlock. Qed.
Print Assumptions C02_no_deadlock_dst_protocol.

(* ... and every execution has at most bound(graph) steps *)
Theorem C02_terminates_dst_protocol : forall succ K ext roots d0,
  (forall n m, In m (succ n) -> m < n) -> forall N, (forall r, In r roots -> r < N) ->
  forall ls x, drun succ (dinit K ext roots d0) ls = Some x -> length ls <= bound succ ext roots N.
Proof. exact dterminates. Qed.
Print Assumptions C02_terminates_dst_protocol.

(* content enters the destination only through a push of the call (one that returns nil, or one that
   stored and then failed) *)
Theorem C02_dst_written_only_by_push_protocol : forall succ x dl x' n, dstep succ x dl = Some x' -> In n (dd x') ->
  In n (dd x) \/
  (exists t, (dl = DL (LPush t true) \/ dl = DPushFailStored t) /\ n = t_node (tasks (ds x) t)).
Proof. exact dst_written_only_by_push. Qed.
Print Assumptions C02_dst_written_only_by_push_protocol.

(* one call on a closed destination, end to end: closed throughout, nothing lost; once the call has
   returned: a fault or cancellation anywhere => error; no fault => nil and the closure of the roots stored *)
Theorem C02_call_summary_protocol : forall succ K ext roots d0,
  (forall n m, In m (succ n) -> m < n) ->
  forall ls x, dclosed succ d0 -> drun succ (dinit K ext roots d0) ls = Some x ->
  dclosed succ (dd x) /\
  (forall n, In n d0 -> In n (dd x)) /\
  (is_final (ds x) = true ->
     (existsb is_fault (map dlab ls) = true -> result (ds x) = Some true) /\
     (existsb is_fault (map dlab ls) = false -> result (ds x) = Some false /\
        forall r n, In r roots -> dreach succ r n -> In n (dd x))).
Proof. exact call_summary. Qed.
Print Assumptions C02_call_summary_protocol.

(* TIE TO THE SOURCE.  The program-counter order of the model (Model/CopyImplSrc.v: which Go calls each
   pc stands for) equals the call sequences that the translator (kind callseq) re-reads from copy.go
   (copyGraph incl. fn), internal/syncutil/limit.go (Go, LimitedRegion.Start / End) and extendedcopy.go
   on every run: TryCommit, [defer close], Exists, FindSuccessors, region.End BEFORE the nested
   syncutil.Go, the wait loop's TryCommit, region.Start, then the copy; Go = dispatch (LimitRegion,
   Start, eg.Go), child (deferred End, fn), Wait, Cause; the outer closure = End, copyGraph, Start;
   Start only acquires, End only releases. *)
Theorem C02_source_order_protocol :
  c02proto_calls_fn = fn_calls /\ c02proto_calls_go = go_calls /\ c02proto_calls_ext = ext_calls /\
  c02proto_calls_start = start_calls /\ c02proto_calls_end = end_calls.
Proof. exact source_order. Qed.
Print Assumptions C02_source_order_protocol.

(* THE LIMITER.  Model/CopyImplSem.v models golang.org/x/sync/semaphore.Weighted (v0.13.0) with unit
   weights - FIFO waiter list, notifyWaiters, cancellation of a queued waiter, the give-back of a
   waiter granted after its context was done - and is compared on every run with the real semaphore
   driven by scripted Acquire / Release / cancel sequences (harness sem.go).  In every reachable state:
   tokens out = held + handed to granted waiters, held + granted + free = size, never more than size
   held, and NO WAITER IS QUEUED WHILE A PERMIT IS FREE (no lost wake-up) - the liveness assumption behind
   "LStart / LDispatchAcq are enabled whenever free > 0" of the protocol model. *)
From Oras Require Import Model.CopyImplSem Proofs.CopyImplSem.
Theorem C04_semaphore_sound_protocol : forall n s, SReach n s ->
  s_cur s = s_held s + length (s_granted s) /\ s_held s + length (s_granted s) + sfree s = n /\
  s_held s <= n /\ (s_wait s <> [] -> sfree s = 0).
Proof. exact sem_sound. Qed.
Print Assumptions C04_semaphore_sound_protocol.

(* the semaphore refines the counter abstraction of the protocol model: an Acquire is granted at once
   only when a permit is free and takes exactly one; a blocked / failed Acquire and a cancelled waiter
   change nothing; a Release (and the give-back of a cancelled granted waiter) frees one permit, which is
   either free afterwards or already handed to the first waiter *)
Theorem C04_semaphore_refines_counter_protocol : forall n s o s' r, SReach n s -> sstep s o = Some (s', r) ->
  match o, r with
  | SAcquire _ _, RGranted => 0 < sfree s /\ sfree s' = sfree s - 1
  | SAcquire _ _, _ => sfree s' = sfree s
  | SRelease, RDone woken => sfree s' + length woken = S (sfree s)
  | SWake _ false, _ => sfree s' = sfree s
  | SWake _ true, RDone woken => sfree s' + length woken = S (sfree s)
  | SCancel _, RDone woken => woken = [] /\ sfree s' = sfree s
  | _, _ => True
  end.
Proof. exact sem_refines_counter. Qed.
Print Assumptions C04_semaphore_refines_counter_protocol.

(* a concrete script (size 1): acquire, two blocked acquires, cancel the second, release wakes the first *)
Example ex_sem :
  match srun (ssize_init 1) [SAcquire 0 false; SAcquire 1 false; SAcquire 2 false; SCancel 2; SRelease; SWake 1 false] with
  | Some s => s_held s = 1 /\ s_wait s = [] /\ s_cur s = 1 /\ sfree s = 0
  | None => False
  end.
Proof. vm_compute. repeat split; reflexivity. Qed.

(* FIFO hand-over: with waiters queued, a Release wakes exactly the first one; the semaphore stays full *)
Theorem C04_semaphore_release_wakes_head_protocol : forall n s w rest s' r, SReach n s -> s_wait s = w :: rest ->
  sstep s SRelease = Some (s', r) ->
  r = RDone [w] /\ s_wait s' = rest /\ s_granted s' = s_granted s ++ [w] /\ sfree s' = 0.
Proof. exact sem_release_wakes_head. Qed.
Print Assumptions C04_semaphore_release_wakes_head_protocol.

(* LimitedRegion (internal/syncutil/limit.go: the `ended` flag, Start = Acquire unless started, End =
   Release unless ended) over the semaphore model (Model/CopyImplRegion.v).  `RReach n x`: x is reachable
   from n free permits and all regions ended by any sequence of Start / End calls of any regions
   (idempotent repetitions included), wake-ups of blocked Starts and cancellations. *)
From Oras Require Import Model.CopyImplRegion Proofs.CopyImplRegion.
(* End() of a started region always succeeds: the semaphore never panics "released more than held" *)
Theorem C04_region_end_never_panics_protocol : forall n x w, RReach n x -> r_reg x w = RStarted ->
  exists x', rstep x (REnd w) = Some x' /\ r_reg x' w = REnded.
Proof. exact region_end_never_panics. Qed.
Print Assumptions C04_region_end_never_panics_protocol.

(* End on an ended region and Start on a started region do nothing *)
Theorem C04_region_idempotent_protocol : forall x w,
  (r_reg x w = REnded -> rstep x (REnd w) = Some x) /\
  (forall d, r_reg x w = RStarted -> rstep x (RStart w d) = Some x).
Proof. exact region_idempotent. Qed.
Print Assumptions C04_region_idempotent_protocol.

(* the permits held are exactly the started regions, and at most n regions are started at any time *)
Theorem C04_region_permits_protocol : forall n x, RReach n x ->
  exists l, NoDup l /\ (forall w, In w l <-> r_reg x w = RStarted) /\ length l = s_held (r_sem x) /\ length l <= n.
Proof. exact region_permits. Qed.
Print Assumptions C04_region_permits_protocol.

(* K = 1: region 0 starts, region 1 blocks, End of 0 (twice: idempotent) wakes 1, which starts *)
Example ex_region :
  match rstep (rinit 1) (RStart 0 false) with
  | Some x1 => match rstep x1 (RStart 1 false) with
    | Some x2 => r_reg x2 1 = RPending /\ match rstep x2 (REnd 0) with
      | Some x3 => rstep x3 (REnd 0) = Some x3 /\ match rstep x3 (RWake 1 false) with
        | Some x4 => r_reg x4 1 = RStarted /\ r_reg x4 0 = REnded /\ s_held (r_sem x4) = 1
        | None => False end
      | None => False end
    | None => False end
  | None => False end.
Proof. vm_compute. repeat split; reflexivity. Qed.
