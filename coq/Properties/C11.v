From Oras Require Import Base.Prelude Model.FileConfine Proofs.FileConfine.
