(* C11 — The file store never writes outside its working directory by default.

   Model: Model/FileConfine.v (tree file system with symbolic links, hard links and
   kernel path resolution; push / resolveWritePath / pushFile / pushDir /
   ensureDirNoSymlink / removeSymlink / extractTarDirectory / resolveRelToBase /
   ensureLinkPath as repaired on this branch;
   cfg flags select the pre-repair behaviour).  Lemmas: Proofs/FileConfine.v.

   view_at f p is everything an observer sees at physical location p (absent; directory with
   its permission bits and the time last set on it with utimes; file content with its permission
   bits and the time last set; link text): "view_at f' p =
   view_at f p for every p not below wd" says that nothing outside the working directory
   was created, overwritten, truncated, re-moded, re-timed, replaced or deleted.  pres is
   Store.PreservePermissions.  Inv is the invariant of a tree whose working directory (and its
   ancestors) are real directories and whose files below it share no inode with the outside.
   It says nothing about symbolic links: the tree may hold any links with any targets (links
   unpacked by the store keep the raw target of the archive; user-made links are allowed):
   the repaired store never follows a link below the working directory, so every mutation
   happens at the lexical location that was validated.  Inv is preserved by the store. *)
From Oras Require Import Base.Prelude Model.FileConfine Proofs.FileConfine Proofs.FileConfineTaint.

(* THE CONFINEMENT THEOREM, full.  taint f is a ghost field of the tree that no operation reads
   or changes: the inodes that files below the working directory may share with files outside when
   the store is opened (pre-populated hard links: cp -al, ostree-style checkouts).  Inv asks that
   the working directory and its ancestors are real directories and that every inode shared
   between inside and outside is in taint (any tree satisfies this with a suitable taint; with
   taint = [] it says that nothing is shared).  same_outside: for every location outside the
   working directory the entry (existence, type, inode, link text), the attributes of
   directories, and the content / permission bits / times of every file whose inode is not
   tainted are unchanged.  For every history of pushes (named blobs, archives, failing ones,
   unnamed content, manifests; any titles, entries, link targets, PreservePermissions, cwd): *)
Theorem C11_confined :
  forall (wd : path) (pres : bool) (cwd : path) (os : list pushop) (s s' : store) (oks : list bool),
    Inv wd (st_fs s) ->
    pushes cfg_fixed pres wd cwd s os = (s', oks) ->
    Inv wd (st_fs s') /\ same_outside wd (st_fs s) (st_fs s').
Proof. exact pushes_keeps. Qed.
Print Assumptions C11_confined.

(* in terms of the observer's view: it can change only at an outside file whose inode is tainted,
   and that file stays a file of that inode (this is exactly the known finding shared-inode-*:
   the only outside effect the repaired store can have, C11_shared_inode_refuted) *)
Theorem C11_confined_view :
  forall (wd : path) (pres : bool) (cwd : path) (os : list pushop) (s s' : store) (oks : list bool),
    Inv wd (st_fs s) ->
    pushes cfg_fixed pres wd cwd s os = (s', oks) ->
    forall p, inside wd p = false ->
      view_at (st_fs s') p = view_at (st_fs s) p \/
      exists i, lookup (st_fs s) p = Some (NFile i) /\ In i (taint (st_fs s)) /\ lookup (st_fs s') p = Some (NFile i).
Proof. exact pushes_keeps_view_tainted. Qed.
Print Assumptions C11_confined_view.

(* the earlier statement (no inode shared between inside and outside): nothing at all changes *)
Theorem C11_confined_partial :
  forall (wd : path) (pres : bool) (cwd : path) (os : list pushop) (s s' : store) (oks : list bool),
    Inv wd (st_fs s) -> taint (st_fs s) = [] ->
    pushes cfg_fixed pres wd cwd s os = (s', oks) ->
    Inv wd (st_fs s') /\
    (forall p, inside wd p = false -> view_at (st_fs s') p = view_at (st_fs s) p).
Proof. exact pushes_keeps_view. Qed.
Print Assumptions C11_confined_partial.

Example C11_example_inv_shared_inode : Inv wd0 fs2t.
Proof. exact inv_fs2t. Qed.

(* the entry of the working directory in its parent is not deleted or replaced either *)
Theorem C11_working_directory_kept :
  forall (wd : path) (pres : bool) (cwd : path) (os : list pushop) (s s' : store) (oks : list bool),
    wd <> [] -> Inv wd (st_fs s) ->
    pushes cfg_fixed pres wd cwd s os = (s', oks) ->
    lookup (st_fs s') wd = Some NDir.
Proof. exact pushes_wd_kept. Qed.
Print Assumptions C11_working_directory_kept.

(* a title that lexically resolves outside is rejected with an error and nothing changes
   (for every configuration, repaired or not) *)
Theorem C11_outside_title_rejected :
  forall (g : cfg) (pres : bool) (wd cwd : path) (s : store) (o : pushop),
    inside wd (lex_loc wd (push_title o)) = false -> push_title o <> [] ->
    push g pres wd cwd s o = (s, false).
Proof. exact push_outside_title. Qed.
Print Assumptions C11_outside_title_rejected.

(* an archive with an entry whose name lexically resolves outside is rejected with an error *)
Theorem C11_outside_entry_rejected :
  forall (g : cfg) (pres : bool) (wd cwd : path) (s : store) (title : str) (ts : list N)
         (es1 : list entry) (e : entry) (es2 : list entry),
    title <> [] ->
    inside wd (lex_loc wd (entry_name e)) = false ->
    snd (push g pres wd cwd s (PDir title ts (es1 ++ e :: es2))) = false.
Proof. exact push_outside_entry. Qed.
Print Assumptions C11_outside_entry_rejected.

(* and the entry itself has no effect, whatever the state of the tree *)
Theorem C11_outside_entry_no_effect :
  forall (g : cfg) (pres : bool) (wd cwd : path) (title : str) (f : fsys) (e : entry),
    inside wd (lex_loc wd title) = true ->
    inside wd (lex_loc wd (entry_name e)) = false ->
    forall t, extract_entry g pres cwd (lex_loc wd title) title f e t = None.
Proof. exact entry_outside_rejected. Qed.
Print Assumptions C11_outside_entry_no_effect.

(* the code before the repairs violates the statement; each repair is necessary
   (cfg = hard-link target relative to the link / cleaned write path / no link in place of the
   unpack directory / ensureDirNoSymlink / removeSymlink) *)
Theorem C11_prefix_refuted : escapes cfg_prefix.
Proof. exact prefix_escapes. Qed.
Print Assumptions C11_prefix_refuted.

Theorem C11_prefix_refuted_hardlink_cwd : escapes (mkCfg false true true true true true true).
Proof. exact refuted_hardlink_cwd. Qed.
Print Assumptions C11_prefix_refuted_hardlink_cwd.

Theorem C11_prefix_refuted_raw_absolute_title : escapes (mkCfg true false true true true true true).
Proof. exact refuted_abs_title. Qed.
Print Assumptions C11_prefix_refuted_raw_absolute_title.

Theorem C11_prefix_refuted_link_replaces_working_directory :
  lookup (st_fs (fst (pushes (mkCfg true true false true true true true) false wd0 cwd0 (mkStore fs1 [] []) os_replace_wd))) wd0
  <> Some NDir.
Proof. exact refuted_replace_wd. Qed.
Print Assumptions C11_prefix_refuted_link_replaces_working_directory.

(* directories created or entered through a link (named blob below a link) *)
Theorem C11_prefix_refuted_directory_through_link : escapes (mkCfg true true true false true true true).
Proof. exact refuted_dir_through_link. Qed.
Print Assumptions C11_prefix_refuted_directory_through_link.

(* regular entry / named blob written through a final link whose raw target leaves the tree *)
Theorem C11_prefix_refuted_write_through_link : escapes (mkCfg true true true true false true true).
Proof. exact refuted_write_through_link. Qed.
Print Assumptions C11_prefix_refuted_write_through_link.

Theorem C11_prefix_refuted_blob_through_link : escapes (mkCfg true true true true false true true).
Proof. exact refuted_blob_through_link. Qed.
Print Assumptions C11_prefix_refuted_blob_through_link.

(* unpack directory reached through a link (neither of the last two repairs) *)
Theorem C11_prefix_refuted_unpack_through_link : escapes (mkCfg true true true false false true true).
Proof. exact refuted_title_through_link. Qed.
Print Assumptions C11_prefix_refuted_unpack_through_link.

(* (the earlier witness "directory entry on top of a link is chmod'ed through it" is gone: directory
   modes are now applied after the last entry and only to paths that are still directories) *)
Example C11_example_remode_skips_links :
  snd (fst (pushes cfg_fixed true wd0 cwd0 (mkStore fs0 [] []) os_remode), snd (pushes cfg_fixed true wd0 cwd0 (mkStore fs0 [] []) os_remode)) = [true] /\
  view_at (st_fs (fst (pushes cfg_fixed true wd0 cwd0 (mkStore fs0 [] []) os_remode))) [b "r"] = view_at fs0 [b "r"].
Proof. exact remode_skips_links. Qed.

(* os.Chtimes through a freshly unpacked link sets the times of a file outside *)
Theorem C11_prefix_refuted_times_through_link : escapes (mkCfg true true true true true false true).
Proof. exact refuted_touch. Qed.
Print Assumptions C11_prefix_refuted_times_through_link.

(* the hypotheses are satisfiable and the repaired store still accepts ordinary archives *)
Example C11_example_inv : Inv wd0 fs0.
Proof. exact inv_fs0. Qed.

Example C11_example_inv1 : Inv wd0 fs1.
Proof. exact inv_fs1. Qed.

Example C11_example_replace_wd_rejected :
  pushes cfg_fixed false wd0 cwd0 (mkStore fs1 [] []) os_replace_wd = (mkStore fs1 [] [], [false]).
Proof. exact replace_wd_fixed. Qed.

Example C11_example_ordinary :
  snd (run0 cfg_fixed os_ordinary) = [true; true; true] /\
  view_at (fst (run0 cfg_fixed os_ordinary)) [b "r"; b "w"; b "t"; b "a"; b "b"; b "f"] = VFile (enc 8 384) 0%N /\
  view_at (fst (run0 cfg_fixed os_ordinary)) [b "r"; b "w"; b "t"; b "l"] = VFile (enc 9 420) 0%N /\
  view_at (fst (run0 cfg_fixed os_ordinary)) [b "r"; b "w"; b "t"; b "k"] = VSym (b "a/b/s/../x") /\
  view_at (fst (run0 cfg_fixed os_ordinary)) [b "r"; b "w"; b "old"] = VFile (enc 11 104) 0%N.
Proof. exact ordinary_ok. Qed.

Example C11_example_attacks_confined :
  forall os, In os [os_hardlink_cwd; os_raw_target; os_raw_target_blob; os_title_through_link; os_abs_title; os_hardlink_symlink] ->
  forall p, inside wd0 p = false -> view_at (fst (run0 cfg_fixed os)) p = view_at fs0 p.
Proof. exact attacks_confined_fixed. Qed.

Example C11_example_narrow_unpack_directory :
  snd (run0 cfg_fixed os_narrow) = [true] /\
  view_at (fst (run0 cfg_fixed os_narrow)) [b "r"; b "w"; b "t"] = VDir 448%N 0%N /\
  view_at (fst (run0 cfg_fixed os_narrow)) [b "r"; b "w"; b "t"; b "a"] = VDir 493%N 0%N /\
  view_at (fst (run0 cfg_fixed os_narrow)) [b "r"; b "w"] = VDir 493%N 0%N.
Proof. exact narrow_ok. Qed.

Example C11_example_times_not_through_link :
  snd (run0 cfg_fixed os_touch) = [true] /\
  view_at (fst (run0 cfg_fixed os_touch)) [b "victim"] = view_at fs0 [b "victim"] /\
  view_at (fst (run0 cfg_fixed os_touch)) [b "r"; b "w"; b "t"; b "l"] = VSym (b "a/b/s/../../../victim").
Proof. exact touch_fixed. Qed.

Example C11_example_times_set :
  view_at (fst (run0 cfg_fixed os_times)) [b "r"; b "w"; b "t"; b "a"] = VDir 493%N 5%N /\
  view_at (fst (run0 cfg_fixed os_times)) [b "r"; b "w"; b "t"; b "a"; b "f"] = VFile (enc 7 420) 6%N.
Proof. exact times_ok. Qed.

(* audit F5: the other ways a name "would resolve outside" are rejected too *)

(* an entry name that is not below the unpack directory (even when inside the working directory) *)
Theorem C11_entry_outside_unpack_directory_rejected :
  forall (g : cfg) (pres : bool) (wd cwd : path) (title : str) (f : fsys) (e : entry),
    inside (lex_loc wd title) (lex_loc wd (entry_name e)) = false ->
    forall t, extract_entry g pres cwd (lex_loc wd title) title f e t = None.
Proof. exact entry_outside_unpack_dir_rejected. Qed.
Print Assumptions C11_entry_outside_unpack_directory_rejected.

(* a symbolic or hard link whose target, relative to the link's directory, is lexically not below
   the unpack directory *)
Theorem C11_link_target_outside_rejected :
  forall (g : cfg) (pres : bool) (cwd dp : path) (dirName : str) (f : fsys) (nm tgt : str) (rel : list name) (t : N),
    entry_rel dp dirName nm = Some rel ->
    inside dp (link_abs_path (dp ++ rel) tgt) = false ->
    extract_entry g pres cwd dp dirName f (ESym nm tgt) t = None /\
    extract_entry g pres cwd dp dirName f (EHard nm tgt) t = None.
Proof. exact link_target_outside_rejected. Qed.
Print Assumptions C11_link_target_outside_rejected.

(* a name with a symbolic link among its parents below the unpack directory (for every entry type) *)
Theorem C11_entry_through_link_rejected :
  forall (g : cfg) (pres : bool) (cwd dp : path) (dirName : str) (f : fsys) (e : entry) (t : N)
         (q : list name) (c : name) (r : list name) (d : str) (a : bool) (cs : list comp),
    RealD f [] dp -> RealD f dp q ->
    entry_rel dp dirName (entry_name e) = Some (q ++ c :: r) -> r <> [] ->
    lookup f (dp ++ q ++ [c]) = Some (NSym d a cs) ->
    extract_entry g pres cwd dp dirName f e t = None.
Proof. exact entry_through_link_rejected. Qed.
Print Assumptions C11_entry_through_link_rejected.

(* audit F3: without "no inode shared with the outside" the statement fails on the repaired store *)
Theorem C11_shared_inode_refuted :
  inside wd0 [b "victim"] = false /\
  snd (pushes cfg_fixed false wd0 cwd0 (mkStore fs2 [] []) [PBlob (b "old") 7%N]) = [true] /\
  view_at (st_fs (fst (pushes cfg_fixed false wd0 cwd0 (mkStore fs2 [] []) [PBlob (b "old") 7%N]))) [b "victim"]
  <> view_at fs2 [b "victim"].
Proof. exact refuted_shared_inode. Qed.
Print Assumptions C11_shared_inode_refuted.

(* manifests (extension round): Store.Push of a manifest restores the named layers whose content
   the store holds - each one an ordinary named-blob push in the current tree, so
   C11_confined_partial covers histories with manifests; a hostile layer title ends the push *)
Theorem C11_manifest_outside_layer_rejected :
  forall (g : cfg) (wd : path) (s : store) (t : str) (c c' : N) (r : list (str * N)),
    t <> [] -> existsb (str_eqb t) (st_names s) = false -> fetch s c = FSome c' ->
    inside wd (lex_loc wd t) = false ->
    restore_layers g wd s ((t, c) :: r) = (s, false).
Proof. exact manifest_outside_layer_rejected. Qed.
Print Assumptions C11_manifest_outside_layer_rejected.

Example C11_example_manifest :
  snd (run0 cfg_fixed os_manifest) = [true; true; true; true; false; false] /\
  view_at (fst (run0 cfg_fixed os_manifest)) [b "r"; b "w"; b "second"] = VFile (enc 41 420) 0%N /\
  view_at (fst (run0 cfg_fixed os_manifest)) [b "r"; b "w"; b "m"; b "third"] = VFile (enc 51 420) 0%N /\
  view_at (fst (run0 cfg_fixed os_manifest)) [b "r"; b "w"; b "absent"] = VNone /\
  view_at (fst (run0 cfg_fixed os_manifest)) [b "r"; b "w"; b "x"] = VFile (enc 52 420) 0%N /\
  view_at (fst (run0 cfg_fixed os_manifest)) [b "r"; b "w"; b "never"] = VNone /\
  view_at (fst (run0 cfg_fixed os_manifest)) [b "victim"] = view_at fs0 [b "victim"].
Proof. exact manifest_ok. Qed.

Example C11_example_manifest_stale_content :
  snd (run0 cfg_fixed os_manifest_stale) = [true; true; false] /\
  view_at (fst (run0 cfg_fixed os_manifest_stale)) [b "r"; b "w"; b "n1"] = VFile (enc 54 420) 0%N /\
  view_at (fst (run0 cfg_fixed os_manifest_stale)) [b "r"; b "w"; b "copy"] = VNone /\
  view_at (fst (run0 cfg_fixed os_manifest_stale)) [b "r"; b "w"; b "later"] = VNone.
Proof. exact manifest_stale. Qed.

(* the process's current directory has no influence on what the repaired store does (in the
   unrepaired code relative hard-link targets were taken from it: C11_prefix_refuted_hardlink_cwd) *)
Theorem C11_cwd_irrelevant :
  forall (pres : bool) (wd cwd1 cwd2 : path) (os : list pushop) (s : store),
    pushes cfg_fixed pres wd cwd1 s os = pushes cfg_fixed pres wd cwd2 s os.
Proof. exact pushes_cwd. Qed.
Print Assumptions C11_cwd_irrelevant.

(* an Lstat (kernel walk, last element not followed) of a path whose proper parents are not links
   sees exactly what the tree holds at that lexical location - the justification for modelling the
   store's Lstat checks as look-ups *)
Theorem C11_lstat_is_lookup :
  forall (f : fsys) (p : path) (fuel nl : nat),
    lexreal f [] p = true ->
    match walk fuel f nl [] (Nms p) false with
    | WFile q i => q = p /\ lookup f p = Some (NFile i)
    | WSym q d a cs => q = p /\ lookup f p = Some (NSym d a cs)
    | WNoEnt q => q = p /\ lookup f p = None
    | WDir q => q = p
    | _ => True
    end.
Proof. exact lstat_is_lookup. Qed.
Print Assumptions C11_lstat_is_lookup.

(* archives that fail (gzip verification / broken tar stream / tar digest mismatch) are operations of
   the histories C11_confined_partial quantifies over (PDirF) *)
Example C11_example_failing_archives :
  snd (run0 cfg_fixed os_failing) = [false; false; false] /\
  view_at (fst (run0 cfg_fixed os_failing)) [b "r"; b "w"; b "g"] = VDir 493%N 0%N /\
  view_at (fst (run0 cfg_fixed os_failing)) [b "r"; b "w"; b "g"; b "d"] = VNone /\
  view_at (fst (run0 cfg_fixed os_failing)) [b "r"; b "w"; b "t"; b "d"] = VDir 448%N 0%N /\
  view_at (fst (run0 cfg_fixed os_failing)) [b "r"; b "w"; b "t"; b "d"; b "f"] = VFile (enc 7 420) 0%N /\
  view_at (fst (run0 cfg_fixed os_failing)) [b "r"; b "w"; b "u"; b "d"] = VDir 320%N 0%N.
Proof. exact failing_ok. Qed.

(* a working directory that does not exist yet (audit F2a): PreInv = Inv, or Inv0 (the working
   directory is missing, its ancestors are real directories, nothing below it).  The first push
   that gets that far creates it; everything outside stays untouched throughout.  Partial: titles
   that denote the working directory itself are excluded (such a named blob would create a
   regular file where the working directory should be) *)
Theorem C11_confined_missing_wd_partial :
  forall (wd : path) (pres : bool) (cwd : path) (os : list pushop) (s s' : store) (oks : list bool),
    PreInv wd (st_fs s) -> Forall (op_ok wd) os ->
    pushes cfg_fixed pres wd cwd s os = (s', oks) ->
    PreInv wd (st_fs s') /\ same_outside wd (st_fs s) (st_fs s').
Proof. exact pushes_keeps0. Qed.
Print Assumptions C11_confined_missing_wd_partial.

Example C11_example_inv0 : Inv0 wd0 fs3.
Proof. exact inv0_fs3. Qed.

Example C11_example_first_push_creates_wd :
  snd (pushes cfg_fixed false wd0 cwd0 (mkStore fs3 [] []) os_first_push) = [false; true; true] /\
  lookup (st_fs (fst (pushes cfg_fixed false wd0 cwd0 (mkStore fs3 [] []) os_first_push))) wd0 = Some NDir /\
  view_at (st_fs (fst (pushes cfg_fixed false wd0 cwd0 (mkStore fs3 [] []) os_first_push))) [b "victim"] = view_at fs3 [b "victim"].
Proof. exact first_push_ok. Qed.

(* seed C11-r3m2: a per-store memory of checked directories (cfg flag fixK = false) lets a
   three-step history escape; the repaired store walks the path again and refuses *)
Theorem C11_prefix_refuted_cached_checked_directories : escapes (mkCfg true true true true true true false).
Proof. exact refuted_cached_dir. Qed.
Print Assumptions C11_prefix_refuted_cached_checked_directories.

Example C11_example_revisit_history_refused :
  snd (run0 cfg_fixed os_cached_dir) = [true; true; false] /\
  view_at (fst (run0 cfg_fixed os_cached_dir)) [b "r"; b "victim"] = view_at fs0 [b "r"; b "victim"] /\
  view_at (fst (run0 cfg_fixed os_cached_dir)) [b "r"; b "w"; b "a"; b "e"] = VSym (b "q/..").
Proof. exact cached_dir_fixed. Qed.

(* ... and without the side condition: PreInv3 adds the third state InvF "a regular file sits where
   the working directory should be" (what a named blob titled like the missing working directory
   leaves behind; pushes below it fail, a failed verification removes it again).  For every
   history, from a tree in any of the three states: everything outside the working directory is
   untouched and the tree stays in one of the three states *)
Theorem C11_confined_missing_wd :
  forall (wd : path) (pres : bool) (cwd : path) (os : list pushop) (s s' : store) (oks : list bool),
    PreInv3 wd (st_fs s) ->
    pushes cfg_fixed pres wd cwd s os = (s', oks) ->
    PreInv3 wd (st_fs s') /\ same_outside wd (st_fs s) (st_fs s').
Proof. exact pushes_keeps3. Qed.
Print Assumptions C11_confined_missing_wd.

(* ... as the observer's view when no inode is shared *)
Theorem C11_confined_missing_wd_view :
  forall (wd : path) (pres : bool) (cwd : path) (os : list pushop) (s s' : store) (oks : list bool),
    PreInv3 wd (st_fs s) -> taint (st_fs s) = [] ->
    pushes cfg_fixed pres wd cwd s os = (s', oks) ->
    PreInv3 wd (st_fs s') /\
    (forall p, inside wd p = false -> view_at (st_fs s') p = view_at (st_fs s) p).
Proof. exact pushes_keeps3_view. Qed.
Print Assumptions C11_confined_missing_wd_view.

Example C11_example_wd_as_file :
  snd (pushes cfg_fixed false wd0 cwd0 (mkStore fs3 [] []) os_wd_as_file) = [true; false; false; false; true] /\
  lookup (st_fs (fst (pushes cfg_fixed false wd0 cwd0 (mkStore fs3 [] []) os_wd_as_file))) wd0 = Some NDir /\
  view_at (st_fs (fst (pushes cfg_fixed false wd0 cwd0 (mkStore fs3 [] []) os_wd_as_file))) [b "victim"] = view_at fs3 [b "victim"].
Proof. exact wd_as_file_ok. Qed.

(* the hypothesis of C11_confined is satisfiable by every tree whose working directory is reached
   through real directories (declare all inodes tainted; a smaller taint gives a stronger conclusion) *)
Theorem C11_inv_any_tree :
  forall (wd : path) (f : fsys),
    (forall q r, wd = q ++ r -> q <> [] -> lookup f q = Some NDir) ->
    (forall p i, lookup f p = Some (NFile i) -> i < nexti f) ->
    Inv wd (with_taint (seq 0 (nexti f)) f).
Proof. exact inv_any_tree. Qed.
Print Assumptions C11_inv_any_tree.

(* the ghost field is never read: the run on a tree with any taint set t is the run on the tree
   itself (same results, same tree, same book-keeping) with t put back - for every configuration *)
Theorem C11_taint_never_read :
  forall (t : list nat) (g : cfg) (pres : bool) (wd cwd : path) (s : store) (os : list pushop),
    pushes g pres wd cwd (swt t s) os =
    (swt t (fst (pushes g pres wd cwd s os)), snd (pushes g pres wd cwd s os)).
Proof. exact pushes_t. Qed.
Print Assumptions C11_taint_never_read.

(* the full theorem without any ghost and without the no-shared-inode premise: ANY tree in which
   the working directory is reached through real directories (inode numbers below the counter),
   any number of pushes of any kind, from any process cwd: what an observer sees at a location
   outside the working directory changes only if it is a file one of whose other names lay below
   the working directory when the store was opened - and then it is still that file *)
Theorem C11_confined_any_tree :
  forall (wd : path) (pres : bool) (cwd : path) (os : list pushop) (s s' : store) (oks : list bool),
    (forall q r, wd = q ++ r -> q <> [] -> lookup (st_fs s) q = Some NDir) ->
    (forall p i, lookup (st_fs s) p = Some (NFile i) -> i < nexti (st_fs s)) ->
    pushes cfg_fixed pres wd cwd s os = (s', oks) ->
    forall p, inside wd p = false ->
      view_at (st_fs s') p = view_at (st_fs s) p \/
      exists i q, lookup (st_fs s) p = Some (NFile i) /\ lookup (st_fs s') p = Some (NFile i) /\
                  inside wd q = true /\ lookup (st_fs s) q = Some (NFile i).
Proof. exact pushes_confined_any_tree. Qed.
Print Assumptions C11_confined_any_tree.
