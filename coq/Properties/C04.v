(* C04 -- Copy work accounting: bounded concurrency, single transfer, ordered callbacks.
   Only statements closed by [exact]; lemmas in Proofs/CopyAcct.v.  Same transition
   system as C01 (Model/CopySpec.v); [accepts g c d0 tr = Some st] = tr is a run of
   Copy/CopyGraph.  A trace quantifier covers every interleaving and every latency
   assignment (a latency assignment only selects an interleaving of the visible events). *)
From Oras Require Import Base.Prelude Generated.GC04 Model.CopySpec Model.CopyTop Model.CopyOpt
  Proofs.CopySpec Proofs.CopyAcct Proofs.CopyOpt Proofs.CopyAbort.
From Oras Require Import Model.CopyHold Proofs.CopyHold Proofs.CopySrcOrder.
From Oras Require Model.CopyCancel.
From Oras Require Import Model.CopyPermit Proofs.CopyPermit.
Local Open Scope nat_scope.
From Oras Require Model.CopyImpl Proofs.CopyImplBase Properties.C02_protocol Proofs.CopyPermitsFinal.

(* at every instant (every prefix of every accepted trace) at most K source reads
   (Fetch ... Close) and at most K destination operations (Exists, Push/PushReference,
   Tag) are in flight *)
Theorem C04_inflight :
  forall (g : graph) (c : cfg) (d0 : list node) (tr1 tr2 : list event) (st : state),
    accepts g c d0 (tr1 ++ tr2) = Some st ->
    exists st1, accepts g c d0 tr1 = Some st1 /\
                inflight_src g st1 <= c_K c /\ inflight_dst g st1 <= c_K c.
Proof. exact inflight_prefix_lemma. Qed.
Print Assumptions C04_inflight.

(* K is Concurrency, or the default regenerated from copy.go (3) when Concurrency <= 0 *)
Theorem C04_default_K :
  forall opt, (opt <= 0)%Z -> eff_K defaultConcurrency opt = 3.
Proof. exact (eff_K_default defaultConcurrency eq_refl). Qed.
Print Assumptions C04_default_K.

(* no node is fetched from the source more than once (manifests: one fetch through the
   caching proxy, then pushed from the cache) and none is pushed more than once *)
Theorem C04_single_transfer :
  forall (g : graph) (c : cfg) (d0 : list node) (tr : list event) (st : state) (n : node),
    accepts g c d0 tr = Some st ->
    cnt (is_fetch n) tr <= 1 /\ cnt (is_push n) tr <= 1.
Proof. exact single_transfer_lemma. Qed.
Print Assumptions C04_single_transfer.

(* ... within copyGraph.  The whole call can read a node once more in Copy's PROLOGUE (known
   finding prologue-read-twice): a non-manifest root resolved through a ReferenceFetcher, and the
   manifest + config blob read by WithTargetPlatform on an image-manifest root, are read there
   without feeding the cache and fetched again while copying.  Refutation of the clause for the
   whole call, and the bound that does hold: *)
Theorem C04_single_fetch_refuted_by_prologue :
  exists g c d0 tr st pro n,
    accepts g c d0 tr = Some st /\ returned st = Some true /\
    pro = prologue_reads true (c_root c) None /\ g_ismf g n = false /\
    reads_in_call n pro tr = 2.
Proof. exact prologue_read_twice_refuted. Qed.
Print Assumptions C04_single_fetch_refuted_by_prologue.

Theorem C04_reads_in_call_bound :
  forall (g : graph) (c : cfg) (d0 : list node) (tr : list event) (st : state) (n : node)
         (pro : list node),
    accepts g c d0 tr = Some st -> reads_in_call n pro tr <= count_occ Nat.eq_dec pro n + 1.
Proof. exact reads_in_call_bound. Qed.
Print Assumptions C04_reads_in_call_bound.

(* every callback is invoked at most once per node *)
Theorem C04_callbacks_at_most_once :
  forall (g : graph) (c : cfg) (d0 : list node) (tr : list event) (st : state) (n : node),
    accepts g c d0 tr = Some st ->
    cnt (is_cb CPre n) tr <= 1 /\ cnt (is_cb CPost n) tr <= 1 /\ cnt (is_cb CSkip n) tr <= 1 /\
    cnt (is_cb CMounted n) tr <= 1 /\ cnt (is_cb CMountFrom n) tr <= 1.
Proof. exact callbacks_once_lemma. Qed.
Print Assumptions C04_callbacks_at_most_once.

(* every node uploaded by a successful copy (is_xfer: a successful Push/PushReference,
   or a Mount that fell back to uploading): exactly one PreCopy, exactly one PostCopy,
   no OnCopySkipped ... *)
Theorem C04_transferred_exactly_once :
  forall (g : graph) (c : cfg) (d0 : list node) (tr : list event) (st : state)
         (n : node) (e : event),
    accepts g c d0 tr = Some st -> returned st = Some true ->
    In e tr -> is_xfer n e ->
    cnt (is_cb CPre n) tr = 1 /\ cnt (is_cb CPost n) tr = 1 /\ cnt (is_cb CSkip n) tr = 0.
Proof. exact transferred_exactly_once. Qed.
Print Assumptions C04_transferred_exactly_once.

(* ... in that order: PreCopy before the push completes, PostCopy after it *)
Theorem C04_push_between_callbacks :
  forall (g : graph) (c : cfg) (d0 : list node) (tr1 : list event) (n : node) (e : event)
         (tr2 : list event) (st : state),
    is_xfer n e ->
    accepts g c d0 (tr1 ++ e :: tr2) = Some st ->
    In (Cb CPre n) tr1 /\ ~ In (Cb CPost n) tr1.
Proof. exact push_between_callbacks. Qed.
Print Assumptions C04_push_between_callbacks.

(* a mounted node of a successful copy triggers exactly one OnMounted *)
Theorem C04_mounted_exactly_once :
  forall (g : graph) (c : cfg) (d0 : list node) (tr : list event) (st : state) (n : node),
    accepts g c d0 tr = Some st -> returned st = Some true ->
    In (MtE n MMounted) tr -> cnt (is_cb CMounted n) tr = 1.
Proof. exact mounted_exactly_once. Qed.
Print Assumptions C04_mounted_exactly_once.

(* a node's PostCopy comes after the terminal notification (PostCopy, OnCopySkipped or OnMounted)
   of each of its non-foreign successors; the only node that completes without a
   notification is the already-present root of a ReferencePusher copy (prepareCopy
   re-pushes it with the reference instead of calling OnCopySkipped), which is no
   node's successor in an acyclic graph *)
Theorem C04_postcopy_after_successors :
  forall (g : graph) (c : cfg) (d0 : list node) (tr1 : list event) (n : node)
         (tr2 : list event) (st : state),
    accepts g c d0 (tr1 ++ Cb CPost n :: tr2) = Some st ->
    forall x, In x (succ' g n) -> notified x tr1 \/ root_refpush c x = true.
Proof. exact postcopy_after_successors. Qed.
Print Assumptions C04_postcopy_after_successors.

(* an error returned by a callback: the call does not return success *)
Theorem C04_callback_error_aborts :
  forall (g : graph) (c : cfg) (d0 : list node) (tr1 : list event) (k : cbk) (n : node)
         (tr2 : list event) (st : state),
    accepts g c d0 (tr1 ++ CbFail k n :: tr2) = Some st -> returned st <> Some true.
Proof. exact callback_error_aborts. Qed.
Print Assumptions C04_callback_error_aborts.

(* satisfiable: the concrete run of C01's example respects K = 2 and is accepted *)
Example C04_example :
  exists st, accepts g_ex c_ex [1] tr_ex = Some st /\ returned st = Some true /\
             cnt (is_fetch 0) tr_ex = 1 /\ cnt (is_cb CSkip 1) tr_ex = 1 /\ c_K c_ex = 2.
Proof. eexists. split; [vm_compute; reflexivity|]. repeat split; reflexivity. Qed.

(* ---- optional callbacks (Model/CopyOpt.v): the statements for every choice [cs] of which
   callbacks are set; tr is the recorded trace (no event of a nil callback), full its
   elaboration accepted by the transition system ---- *)
Theorem C04_inflight_any_callbacks :
  forall (cs : cbset) (g : graph) (c : cfg) (d0 : list node) (tr1 tr2 : list event)
         (st : state) (full : list event),
    accepts_opt cs g c d0 (tr1 ++ tr2) = Some (st, full) ->
    exists st1 f1, accepts_opt cs g c d0 tr1 = Some (st1, f1) /\
                   inflight_src g st1 <= c_K c /\ inflight_dst g st1 <= c_K c.
Proof. exact inflight_opt. Qed.
Print Assumptions C04_inflight_any_callbacks.

Theorem C04_single_transfer_any_callbacks :
  forall (cs : cbset) (g : graph) (c : cfg) (d0 : list node) (tr : list event) (st : state)
         (full : list event) (n : node),
    accepts_opt cs g c d0 tr = Some (st, full) ->
    cnt (is_fetch n) tr <= 1 /\ cnt (is_push n) tr <= 1.
Proof. exact single_transfer_opt. Qed.
Print Assumptions C04_single_transfer_any_callbacks.

Theorem C04_callback_at_most_once_any_callbacks :
  forall (cs : cbset) (g : graph) (c : cfg) (d0 : list node) (tr : list event) (st : state)
         (full : list event) (k : cbk) (n : node),
    accepts_opt cs g c d0 tr = Some (st, full) -> cnt (is_cb k n) tr <= 1.
Proof. exact callback_once_opt. Qed.
Print Assumptions C04_callback_at_most_once_any_callbacks.

(* an uploaded node of a successful copy: each of PreCopy / PostCopy that is set is invoked
   exactly once; OnCopySkipped is not invoked *)
Theorem C04_transferred_any_callbacks :
  forall (cs : cbset) (g : graph) (c : cfg) (d0 : list node) (tr : list event) (st : state)
         (full : list event) (n : node) (e : event),
    accepts_opt cs g c d0 tr = Some (st, full) -> returned st = Some true ->
    In e tr -> is_xfer n e ->
    (cs CPre = true -> cnt (is_cb CPre n) tr = 1) /\
    (cs CPost = true -> cnt (is_cb CPost n) tr = 1) /\
    cnt (is_cb CSkip n) tr = 0.
Proof. exact transferred_opt. Qed.
Print Assumptions C04_transferred_any_callbacks.

Theorem C04_mounted_any_callbacks :
  forall (cs : cbset) (g : graph) (c : cfg) (d0 : list node) (tr : list event) (st : state)
         (full : list event) (n : node),
    accepts_opt cs g c d0 tr = Some (st, full) -> returned st = Some true ->
    In (MtE n MMounted) tr -> cs CMounted = true -> cnt (is_cb CMounted n) tr = 1.
Proof. exact mounted_opt. Qed.
Print Assumptions C04_mounted_any_callbacks.

(* order, read on the elaborated trace: where a hook is nil, the point at which the code
   would have invoked it counts as the notification *)
Theorem C04_postcopy_after_successors_any_callbacks :
  forall (cs : cbset) (g : graph) (c : cfg) (d0 : list node) (tr : list event) (st : state)
         (full f1 : list event) (n : node) (f2 : list event),
    accepts_opt cs g c d0 tr = Some (st, full) -> full = f1 ++ Cb CPost n :: f2 ->
    forall x, In x (succ' g n) -> notified x f1 \/ root_refpush c x = true.
Proof. exact postcopy_order_opt. Qed.
Print Assumptions C04_postcopy_after_successors_any_callbacks.

Theorem C04_callback_error_aborts_any_callbacks :
  forall (cs : cbset) (g : graph) (c : cfg) (d0 : list node) (tr : list event) (st : state)
         (full : list event) (k : cbk) (n : node),
    accepts_opt cs g c d0 tr = Some (st, full) -> In (CbFail k n) tr -> returned st <> Some true.
Proof. exact callback_error_opt. Qed.
Print Assumptions C04_callback_error_aborts_any_callbacks.

(* ---- audit follow-up ---- *)

(* the in-flight bound stated on the TRACE: at every prefix of an accepted trace the source reads
   begun (Fetch called) minus those closed is at most K; likewise destination operations begun
   (Exists, Push/PushReference, Tag, Mount called) minus returned -- the latter as long as no
   callback has failed (after a failing PreCopy inside Mount the model drops that Mount at once
   while the real call is still returning: there only the oracle's gauge and the permit theorems
   below speak) *)
Theorem C04_inflight_on_trace :
  forall (g : graph) (c : cfg) (d0 : list node) (tr1 tr2 : list event) (st : state),
    accepts g c d0 (tr1 ++ tr2) = Some st ->
    cnt is_src_open tr1 - cnt is_src_close tr1 <= c_K c /\
    (cnt is_cbfail tr1 = 0 -> cnt is_dst_open tr1 - cnt is_dst_close tr1 <= c_K c).
Proof. exact inflight_trace_lemma. Qed.
Print Assumptions C04_inflight_on_trace.

(* PreCopy precedes the BEGIN of the push of a node that is not yet in the destination (a push
   without PreCopy is only the re-push with the reference of a present / mounted ReferencePusher root) *)
Theorem C04_precopy_before_push_begin :
  forall (g : graph) (c : cfg) (d0 : list node) (tr1 : list event) (n : node) (ref : bool)
         (tr2 : list event) (st : state),
    accepts g c d0 (tr1 ++ PuB n ref :: tr2) = Some st ->
    exists st1, accepts g c d0 tr1 = Some st1 /\
                (has g (dst st1) n = false -> In (Cb CPre n) tr1).
Proof. exact pre_before_push_begin. Qed.
Print Assumptions C04_precopy_before_push_begin.

(* reading of the clause "exactly one PreCopy followed by exactly one PostCopy or OnMounted":
   a mounted node gets OnMounted and NEITHER PreCopy nor PostCopy (mountOrCopyNode calls PreCopy
   only when the last candidate falls back to uploading) *)
Theorem C04_mounted_no_precopy_postcopy :
  forall (g : graph) (c : cfg) (d0 : list node) (tr : list event) (st : state) (n : node),
    accepts g c d0 tr = Some st -> In (MtE n MMounted) tr ->
    ~ In (Cb CPre n) tr /\ ~ In (Cb CPost n) tr.
Proof. exact mounted_no_pre_post. Qed.
Print Assumptions C04_mounted_no_precopy_postcopy.

(* ---- the limiter hand-off itself (syncutil.Go / LimitedRegion.Start / End, semaphore permits):
   proved on the protocol model Model/CopyImpl.v in Properties/C02_protocol.v (tied to the real
   syncutil / status.Tracker by C02's protocol harness cmd/goimpl); restated here so that C04's
   proof layer depends on them.  Permits are conserved (free + holders = K, a finished task holds
   none) and the operations in flight never exceed the permits held, hence K. *)
Theorem C04_permits_conserved :
  forall succ K ext roots s, CopyImplBase.Reachable succ K ext roots s ->
    CopyImpl.free s + CopyImpl.holders s = K /\ CopyImpl.holders s <= K /\
    (forall t, CopyImpl.is_fin (CopyImpl.t_pc (CopyImpl.tasks s t)) = true ->
               CopyImpl.t_holds (CopyImpl.tasks s t) = false).
Proof. exact C02_protocol.C04_permits_conserved. Qed.
Print Assumptions C04_permits_conserved.

Theorem C04_inflight_bounded_by_permits :
  forall succ K ext roots s, CopyImplBase.Reachable succ K ext roots s ->
    CopyImpl.inflight s <= CopyImpl.holders s /\ CopyImpl.inflight s <= K.
Proof. exact C02_protocol.C04_inflight_bounded. Qed.
Print Assumptions C04_inflight_bounded_by_permits.

(* ---- extension round: "aborts the copy", terminal notifications and uploads counted together ---- *)

(* "an error returned by a callback aborts the copy": the node never completes, hence NO direct
   predecessor of it is ever copied -- none of the predecessor's PreCopy / PostCopy / MountFrom /
   OnMounted invocations (returning nil or an error) and none of its Mount calls occurs anywhere in
   the trace, before or after the failure, in any interleaving.  (Not transitive: a predecessor that
   the destination already holds is skipped without looking at its successors.) *)
Theorem C04_failed_successor_blocks_predecessors :
  forall (g : graph) (c : cfg) (d0 : list node) (tr : list event) (st : state) (k : cbk) (n p : node),
    accepts g c d0 tr = Some st -> In (CbFail k n) tr -> In n (succ' g p) ->
    (forall k', k' <> CSkip -> ~ In (Cb k' p) tr /\ ~ In (CbFail k' p) tr) /\
    ~ In (MtB p) tr /\ (forall r, ~ In (MtE p r) tr).
Proof. exact failed_successor_blocks_parent. Qed.
Print Assumptions C04_failed_successor_blocks_predecessors.

(* for every choice of nil callbacks, on the elaborated trace (the invocation point of a nil PreCopy
   stands right before the node's Fetch / Push) ... *)
Theorem C04_failed_successor_blocks_predecessors_any_callbacks :
  forall (g : graph) (c : cfg) (d0 : list node) (cs : cbset) (tr : list event) (st : state)
         (full : list event) (k : cbk) (n p : node),
    accepts_opt cs g c d0 tr = Some (st, full) -> In (CbFail k n) tr -> In n (succ' g p) ->
    forall e, In e full -> copy_ev p e = false.
Proof. exact failed_successor_blocks_parent_opt. Qed.
Print Assumptions C04_failed_successor_blocks_predecessors_any_callbacks.

(* ... hence such a predecessor is never uploaded: the only push of it that can occur is the
   re-push (with the reference) of a root the destination holds already *)
Theorem C04_failed_successor_predecessor_not_pushed :
  forall (g : graph) (c : cfg) (d0 : list node) (cs : cbset) (tr : list event) (st : state)
         (full : list event) (k : cbk) (n p : node) (r : bool) (f1 f2 : list event),
    accepts_opt cs g c d0 tr = Some (st, full) -> In (CbFail k n) tr -> In n (succ' g p) ->
    full = f1 ++ PuB p r :: f2 ->
    exists st1, accepts g c d0 f1 = Some st1 /\ has g (dst st1) p = true.
Proof. exact failed_successor_parent_not_pushed. Qed.
Print Assumptions C04_failed_successor_predecessor_not_pushed.

(* the seeded change "close(done) also on failure" yields exactly such a trace; the transition
   system rejects it (and C04_abort_example: the hypotheses above are satisfiable) *)
Example C04_abort_example :
  exists st, accepts g_ab c_ab [] tr_ab = Some st /\ returned st = Some false /\
             In (CbFail CPre 0) tr_ab /\ In 0 (succ' g_ab 2) /\
             cnt (is_upload 1) tr_ab = 1 /\ cnt (is_term 1) tr_ab = 1.
Proof. exact abort_example. Qed.
Example C04_copy_past_failure_rejected : accepts g_ab c_ab [] tr_ab_bad = None.
Proof. vm_compute. reflexivity. Qed.

(* PostCopy, OnCopySkipped and OnMounted exclude each other: per node at most ONE terminal
   notification of any kind (returning nil or an error) ... *)
Theorem C04_terminal_notification_at_most_once :
  forall (g : graph) (c : cfg) (d0 : list node) (tr : list event) (st : state) (n : node),
    accepts g c d0 tr = Some st ->
    cnt (is_cb CPost n) tr + cnt (is_cb CSkip n) tr + cnt (is_cb CMounted n) tr <= 1.
Proof. exact term_once_lemma. Qed.
Print Assumptions C04_terminal_notification_at_most_once.

(* ... and every node a successful copy visited (dst.Exists was called on it) got exactly one --
   except the already-present root of a ReferencePusher copy (re-pushed with the reference by
   prepareCopy instead of OnCopySkipped), which gets none *)
Theorem C04_exactly_one_terminal_notification :
  forall (g : graph) (c : cfg) (d0 : list node) (tr : list event) (st : state) (n : node),
    accepts g c d0 tr = Some st -> returned st = Some true -> In (ExB n) tr ->
    cnt (is_cb CPost n) tr + cnt (is_cb CSkip n) tr + cnt (is_cb CMounted n) tr = 1 \/
    (root_refpush c n = true /\
     cnt (is_cb CPost n) tr + cnt (is_cb CSkip n) tr + cnt (is_cb CMounted n) tr = 0).
Proof. exact exactly_one_terminal. Qed.
Print Assumptions C04_exactly_one_terminal_notification.

(* single transfer, counting the upload inside Mount: per node at most one of
   { Push / PushReference called, Mount fell back to uploading } *)
Theorem C04_single_upload :
  forall (g : graph) (c : cfg) (d0 : list node) (tr : list event) (st : state) (n : node),
    accepts g c d0 tr = Some st -> cnt (is_upload n) tr <= 1.
Proof. exact upload_once_lemma. Qed.
Print Assumptions C04_single_upload.

(* ---- the permit-holding overlay (Model/CopyHold.v): the intervals during which a task holds a
   permit of the limiter, as far as the visible events show them -- a LEAF keeps its permit from
   dst.Exists to the end of its task (copyGraph.fn calls region.End() only for nodes with
   successors), a non-leaf gives it up while its successors run and re-acquires it (region.Start())
   before PreCopy / MountFrom.  C04's runner replays every recorded trace on this overlay. ---- *)

(* the overlay only strengthens the guard: what it accepts, the transition system accepts -- so
   every theorem above applies to the traces the runner accepts *)
Theorem C04_overlay_refines :
  forall (g : graph) (c : cfg) (d0 : list node) (tr : list event) (st : state),
    accepts_h g c d0 tr = Some st -> accepts g c d0 tr = Some st.
Proof. exact accepts_h_accepts. Qed.
Print Assumptions C04_overlay_refines.

Theorem C04_overlay_refines_any_callbacks :
  forall (cs : cbset) (g : graph) (c : cfg) (d0 : list node) (tr : list event) (st : state)
         (full : list event),
    accepts_opt_h cs g c d0 tr = Some (st, full) -> accepts_opt cs g c d0 tr = Some (st, full).
Proof. exact accepts_opt_h_accepts_opt. Qed.
Print Assumptions C04_overlay_refines_any_callbacks.

(* ... also under C01's cancellation layer (Model/CopyCancel.v: the caller's context ends), which the
   shared runner steps through: the overlay's version of it accepts nothing the layer rejects *)
Theorem C04_overlay_refines_cancellation :
  forall (cs : cbset) (g : graph) (c : cfg) (d0 : list node) (tr : list CopyCancel.cevent)
         (r : CopyCancel.cstate * list event),
    caccepts_opt_h cs g c d0 tr = Some r -> CopyCancel.caccepts_opt cs g c d0 tr = Some r.
Proof. exact caccepts_opt_h_caccepts_opt. Qed.
Print Assumptions C04_overlay_refines_cancellation.

(* at every instant at most K permits are held, and the source reads and destination operations in
   flight are covered by the permits held *)
Theorem C04_permits_held_bounded :
  forall (g : graph) (c : cfg) (d0 : list node) (tr1 tr2 : list event) (st : state),
    accepts_h g c d0 (tr1 ++ tr2) = Some st ->
    exists st1, accepts_h g c d0 tr1 = Some st1 /\ holders g st1 <= c_K c /\
                inflight_src g st1 <= holders g st1 /\ inflight_dst g st1 <= holders g st1.
Proof. exact holders_prefix_lemma. Qed.
Print Assumptions C04_permits_held_bounded.

Theorem C04_permits_held_bounded_any_callbacks :
  forall (cs : cbset) (g : graph) (c : cfg) (d0 : list node) (tr1 tr2 : list event) (st : state)
         (full : list event),
    accepts_opt_h cs g c d0 (tr1 ++ tr2) = Some (st, full) ->
    exists st1 f1, accepts_opt_h cs g c d0 tr1 = Some (st1, f1) /\ holders g st1 <= c_K c /\
                   inflight_src g st1 <= holders g st1 /\ inflight_dst g st1 <= holders g st1.
Proof. exact holders_prefix_opt_lemma. Qed.
Print Assumptions C04_permits_held_bounded_any_callbacks.

(* after a successful return no task holds a permit (the spec-side counterpart of
   C04_all_permits_free_at_return below) *)
Theorem C04_no_permit_held_at_success :
  forall (g : graph) (c : cfg) (d0 : list node) (tr : list event) (st : state),
    accepts_h g c d0 tr = Some st -> returned st = Some true -> holders g st = 0.
Proof. exact no_holders_at_success. Qed.
Print Assumptions C04_no_permit_held_at_success.

(* the overlay's holding intervals are those of the protocol model: "certainly holds" is
   CopyImplBase.must_hold of the program counter that the phase stands for (TExists, TFind, TPush hold;
   a non-leaf in TGo .. TStart does not) -- the two models cannot drift apart on who holds a permit *)
Theorem C04_overlay_matches_protocol_holding :
  forall (g : graph) (n : node) (p : phase),
    holds_ph g n p =
    match pc_of_phase (leaf g n) p with Some q => CopyImplBase.must_hold q | None => false end.
Proof. exact overlay_holds_is_protocol_must_hold. Qed.
Print Assumptions C04_overlay_matches_protocol_holding.

(* the overlay is strictly tighter: with K = 1 a second blob cannot be probed while a leaf that was
   found absent waits for its PreCopy (it holds the only permit) -- CopySpec alone accepts that
   interleaving -- and the sequential run is accepted *)
Example C04_overlay_is_tighter :
  (exists st, accepts g_leaf c_leaf [] tr_leaf_bad = Some st) /\
  accepts_h g_leaf c_leaf [] tr_leaf_bad = None /\
  (exists st, accepts_h g_leaf c_leaf [] tr_leaf_ok = Some st /\ returned st = Some true).
Proof. exact overlay_is_tighter. Qed.

(* ---- the limiter after the call.  On the protocol model (Model/CopyImpl.v): once the top-level
   syncutil.Go has returned -- nil or an error, any fault, any interleaving -- every task has
   finished, nothing is in flight and all K permits are free.  The harness reads exactly this off
   the real semaphore after every CopyGraph call made through the verif hook (oracle: permit-leak),
   and at every recorded event that the operations in flight are covered by the permits taken
   (oracle: op-without-permit; the model-side statement is C04_inflight_bounded_by_permits). ---- *)
Theorem C04_all_permits_free_at_return :
  forall succ K ext roots, (forall n m, In m (succ n) -> m < n) ->
  forall s, CopyImplBase.Reachable succ K ext roots s -> CopyImpl.is_final s = true ->
    CopyImpl.free s = K /\ CopyImpl.holders s = 0 /\ CopyImpl.inflight s = 0.
Proof. exact CopyPermitsFinal.all_permits_free_at_return. Qed.
Print Assumptions C04_all_permits_free_at_return.

(* satisfiable, on a failing run: K = 2, ExtendedCopyGraph with roots 4 and 3 over the DAG of
   C02_protocol's examples, the first push fails; the run is reachable, final, and returns an error *)
Example C04_all_permits_free_example :
  let ls := snd (CopyImpl.sched C02_protocol.ex_succ CopyImpl.pick_push_fault 400 (CopyImpl.init 2 true [4; 3]) []) in
  match CopyImpl.run C02_protocol.ex_succ (CopyImpl.init 2 true [4; 3]) ls with
  | Some s => CopyImpl.is_final s = true /\ CopyImpl.result s = Some true /\ CopyImpl.free s = 2
  | None => False
  end.
Proof. vm_compute. repeat split; reflexivity. Qed.

(* ---- tie to the Go sources beyond the constant (Generated/GC04.v, regenerated on every run) ---- *)

(* the size of the semaphore, translated from the syntax of BOTH places that create it (copyGraph in
   copy.go, ExtendedCopyGraph in extendedcopy.go: the `if opts.Concurrency <= 0` guard, the assigned
   default, the argument of semaphore.NewWeighted), is the model's effective concurrency; the runner
   computes K with the generated function *)
Theorem C04_limiter_size :
  forall opt : Z,
    Z.to_nat (copyGraph_limiter_size opt) = eff_K defaultConcurrency opt /\
    Z.to_nat (ExtendedCopyGraph_limiter_size opt) = eff_K defaultConcurrency opt /\
    ((0 < opt)%Z -> copyGraph_limiter_size opt = opt) /\
    ((opt <= 0)%Z -> copyGraph_limiter_size opt = 3%Z).
Proof. exact limiter_sizes_lemma. Qed.
Print Assumptions C04_limiter_size.

(* the order of the calls in the sources that the transition system and the protocol model are
   written after (translator kind callseq): copyGraph.fn claims, probes, finds successors, releases
   its permit, dispatches, waits, re-acquires, copies; copyNode = PreCopy, doCopyNode, PostCopy;
   doCopyNode = Fetch, deferred Close, Push; syncutil.Go acquires before spawning and releases in the
   goroutine's defer; Start acquires, End releases; ExtendedCopyGraph creates ONE limiter and ONE
   tracker and its closure releases the permit around copyGraph *)
Theorem C04_source_call_order :
  c04_calls_copyGraph =
    [b "tracker.TryCommit"; b "close"; b "dst.Exists"; b "opts.OnCopySkipped"; b "opts.FindSuccessors";
     b "removeForeignLayers"; b "region.End"; b "syncutil.Go"; b "tracker.TryCommit"; b "region.Start";
     b "proxy.Cache.Exists"; b "copyNode"; b "mountOrCopyNode"; b "syncutil.Go"]%string /\
  c04_calls_copyNode = [b "opts.PreCopy"; b "doCopyNode"; b "opts.PostCopy"]%string /\
  c04_calls_doCopyNode = [b "src.Fetch"; b "rc.Close"; b "dst.Push"]%string /\
  c04_calls_mountOrCopyNode =
    [b "copyNode"; b "copyNode"; b "opts.MountFrom"; b "copyNode"; b "opts.PreCopy"; b "src.Fetch";
     b "mounter.Mount"; b "opts.OnMounted"; b "opts.PostCopy"]%string /\
  c04_calls_ExtendedCopyGraph =
    [b "findRoots"; b "semaphore.NewWeighted"; b "status.NewTracker"; b "syncutil.Go"; b "region.End";
     b "copyGraph"; b "region.Start"]%string /\
  c04_calls_Go =
    [b "LimitRegion"; b "region.Start"; b "eg.Go"; b "lr.End"; b "fn"; b "eg.Wait"; b "context.Cause"]%string /\
  c04_calls_Start = [b "lr.limiter.Acquire"]%string /\
  c04_calls_End = [b "lr.limiter.Release"]%string.
Proof. exact source_call_order. Qed.
Print Assumptions C04_source_call_order.

(* ... and the transition system enforces that order on the visible events of every node, in every
   interleaving.  For a blob: PreCopy before src.Fetch; *)
Theorem C04_fetch_after_precopy :
  forall (g : graph) (c : cfg) (d0 : list node) (tr1 : list event) (n : node) (tr2 : list event) (st : state),
    accepts g c d0 (tr1 ++ SFB n :: tr2) = Some st ->
    g_ismf g n = false -> root_refpush c n = false -> In (Cb CPre n) tr1.
Proof. exact fetch_after_precopy. Qed.
Print Assumptions C04_fetch_after_precopy.

(* content that is not in the proxy cache is pushed while its source reader is open (Fetch called
   and returned before dst.Push is called); *)
Theorem C04_push_after_fetch :
  forall (g : graph) (c : cfg) (d0 : list node) (tr1 : list event) (n : node) (r : bool)
         (tr2 : list event) (st : state),
    accepts g c d0 (tr1 ++ PuB n r :: tr2) = Some st ->
    exists st1, accepts g c d0 tr1 = Some st1 /\
                (memb n (cached st1) = false -> In (SFB n) tr1 /\ In (SFE n) tr1).
Proof. exact push_after_fetch. Qed.
Print Assumptions C04_push_after_fetch.

(* the reader is closed only after dst.Push was called (the deferred rc.Close); PostCopy after the push
   returned is C04_push_between_callbacks *)
Theorem C04_close_after_push :
  forall (g : graph) (c : cfg) (d0 : list node) (tr1 : list event) (n : node) (tr2 : list event) (st : state),
    accepts g c d0 (tr1 ++ SFC n :: tr2) = Some st ->
    g_ismf g n = false -> c_mount c = false -> In (PuB n (root_refpush c n)) tr1.
Proof. exact close_after_push. Qed.
Print Assumptions C04_close_after_push.

(* ---- second extension round: the real semaphore's free-permit readings are part of the recorded run
   and are judged by the model (Model/CopyPermit.v), not only by the oracle ---- *)

(* every reading f of an accepted run taken while the call runs: the permits that the overlay knows to
   be held at that instant plus the free ones fit into K -- hence the operations in flight plus the
   free permits do; a reading taken after the call returned (nil or an error) shows ALL K permits free
   (a leaked permit is a rejected run; protocol-side: C04_all_permits_free_at_return) *)
Theorem C04_permit_readings_bounded :
  forall (cs : cbset) (g : graph) (c : cfg) (d0 : list node) (tr1 : list pev) (f : nat) (tr2 : list pev)
         (st : state) (full : list event),
    paccepts_opt cs g c d0 (tr1 ++ PFree f :: tr2) = Some (st, full) ->
    exists st1 f1, paccepts_opt cs g c d0 tr1 = Some (st1, f1) /\
      (returned st1 = None ->
         holders g st1 + f <= c_K c /\ holders g st1 <= c_K c /\
         inflight_src g st1 + f <= c_K c /\ inflight_dst g st1 + f <= c_K c) /\
      (returned st1 <> None -> f = c_K c).
Proof. exact readings_bounded. Qed.
Print Assumptions C04_permit_readings_bounded.

(* a run with readings is a run: dropping the readings leaves a trace the overlay accepts with the same
   final state and elaboration, so every theorem above applies to it *)
Theorem C04_permit_readings_run :
  forall (cs : cbset) (g : graph) (c : cfg) (d0 : list node) (tr : list pev) (st : state) (full : list event),
    paccepts_opt cs g c d0 tr = Some (st, full) ->
    accepts_opt_h cs g c d0 (events_of tr) = Some (st, full).
Proof. exact paccepts_opt_events. Qed.
Print Assumptions C04_permit_readings_run.

(* the protocol model says the same about the semaphore: in every reachable state the free permits and
   the tasks standing at a counter where they must hold one fit into K *)
Theorem C04_free_permits_cover_must_hold :
  forall succ K ext roots s, CopyImplBase.Reachable succ K ext roots s ->
    CopyImpl.free s + must_holders s <= K.
Proof. exact free_permits_cover_must_hold. Qed.
Print Assumptions C04_free_permits_cover_must_hold.

(* transport: a reading travels as the token of dst.Tag; that token is free in CopyGraph runs -- no
   trace of mode MGraph accepted by the transition system contains a TagB event -- what the runner
   evaluates is the decoded run, and outside CopyGraph nothing is decoded *)
Theorem C04_no_tag_in_copygraph :
  forall (cs : cbset) (g : graph) (c : cfg) (d0 : list node) (tr : list event) (st : state)
         (full : list event) (n : node),
    accepts_opt cs g c d0 tr = Some (st, full) -> c_mode c = MGraph -> ~ In (TagB n) tr.
Proof. exact no_tag_in_copygraph_opt. Qed.
Print Assumptions C04_no_tag_in_copygraph.

Theorem C04_runner_decodes_readings :
  forall (cs : cbset) (g : graph) (c : cfg) (tr : list event) (st : state),
    run_opt_p cs g c st tr = prun_opt cs g c st (map (decode c) tr).
Proof. exact run_opt_p_prun_opt. Qed.
Print Assumptions C04_runner_decodes_readings.

Theorem C04_runner_other_modes_unchanged :
  forall (cs : cbset) (g : graph) (c : cfg) (s : CopyCancel.cstate) (ce : CopyCancel.cevent),
    c_mode c <> MGraph -> cstep_opt_p cs g c s ce = cstep_opt_h cs g c s ce.
Proof. exact cstep_opt_p_other_modes. Qed.
Print Assumptions C04_runner_other_modes_unchanged.

(* satisfiable and sharp: K = 2, both blobs of a manifest in their copy -- a reading of 0 free permits
   is accepted, a reading of 1 is rejected although the events alone are a run of the overlay; the complete
   run with 2 free permits after the return is accepted, with 1 (a leaked permit) rejected *)
Example C04_permit_readings_example :
  (exists r, paccepts_opt all_set g_leaf c_perm [] ptr_ok = Some r) /\
  paccepts_opt all_set g_leaf c_perm [] ptr_bad = None /\
  (exists r, accepts_opt_h all_set g_leaf c_perm [] (events_of ptr_bad) = Some r) /\
  paccepts_opt all_set g_leaf c_perm [] ptr_leak = None.
Proof. exact readings_example. Qed.
