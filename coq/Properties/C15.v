(* C15 -- Listings return every item exactly once and never over-read metadata.
   Only statements closed by [exact]; the lemmas live in Proofs/Paging.v.
   Constants (defaultMaxMetadataBytes, filter names) are Generated/GC15.v,
   re-translated from registry/remote on every run. *)
From Oras Require Import Base.Prelude Generated.GC15 Model.Paging Model.PagingUrl Model.PagingJson Proofs.Paging Proofs.PagingUrl Proofs.PagingFacts Proofs.PagingJson.
From Coq Require Import Permutation Sorted.

(* parseLink returns exactly the text between '<' and the first '>' whatever follows *)
Theorem C15_parse_link :
  forall t rest, contains c_gt t = false ->
    parse_link (c_lt :: t ++ c_gt :: rest) = LTarget t.
Proof. exact parse_link_wellformed. Qed.
Print Assumptions C15_parse_link.

(* Tags / Repositories against any registry (any item list without duplicates, any split
   oracle [ds], any cap, any page size, any [last], any Link rendering that net/url
   resolves to the intended target): the loop ends without error, the concatenation of
   the callback arguments is exactly the registry's suffix after [last] -- each item
   once, in the registry's order -- within |suffix|+1 requests. *)
Theorem C15_exactly_once :
  forall (L : list item) (cap : nat) (ds : nat -> decision)
         (render : nat -> url -> url -> str) (trailer : nat -> str)
         (resolve : url -> str -> option url) (c : cfg) (cu : cursor) (npath : nat -> str -> str) (vis : item -> bool)
         (path last0 : str) (fuel : nat),
    cursor_ok cu ->
    c_kind c <> KReferrers ->
    NoDup (map fst L) -> (forall it, In it L -> fst it <> []) ->
    (forall i base x, In x (map fst L) ->
       contains c_gt (render i base (link_target ds cu npath i base x)) = false) ->
    (forall i base x, In x (map fst L) ->
       resolve base (render i base (link_target ds cu npath i base x)) = Some (link_target ds cu npath i base x)) ->
    (forall i, (Z.of_N (d_doc_len (ds i)) <= eff_limit (c_limit c))%Z) ->
    (length (after last0 L) < fuel)%nat ->
    let t := loop (reg_serve (c_kind c) cu npath vis L cap ds render trailer) resolve (fun _ => false) c
                  fuel 0 0 (mkUrl path []) last0 in
    t_out t = Done /\
    concat (t_pages t) = filter vis (after last0 L) /\
    NoDup (map fst (concat (t_pages t))) /\
    (length (t_reqs t) <= S (length (after last0 L)))%nat.
Proof. exact listing_exactly_once. Qed.
Print Assumptions C15_exactly_once.

(* Referrers: the delivered referrers are exactly those of the requested artifact type
   (all of them when none is requested), once, in order, whether each page was filtered
   by the registry (announced by header, by annotation, or not announced) or not. *)
Theorem C15_filter :
  forall (L : list item) (cap : nat) (ds : nat -> decision)
         (render : nat -> url -> url -> str) (trailer : nat -> str)
         (resolve : url -> str -> option url) (c : cfg) (cu : cursor) (npath : nat -> str -> str) (vis : item -> bool)
         (path : str) (fuel : nat),
    cursor_ok cu ->
    c_kind c = KReferrers ->
    NoDup (map fst L) -> (forall it, In it L -> fst it <> []) ->
    (forall i base x, In x (map fst L) ->
       contains c_gt (render i base (link_target ds cu npath i base x)) = false) ->
    (forall i base x, In x (map fst L) ->
       resolve base (render i base (link_target ds cu npath i base x)) = Some (link_target ds cu npath i base x)) ->
    (forall i, (Z.of_N (d_doc_len (ds i)) <= eff_limit (c_limit c))%Z) ->
    (forall i, qget k_at (d_extra (ds i)) = None) ->
    (length L < fuel)%nat ->
    let t := loop (reg_serve KReferrers cu npath vis L cap ds render trailer) resolve (fun _ => false) c
                  fuel 0 0 (mkUrl path (referrers_query (c_at c))) [] in
    t_out t = Done /\
    concat (t_pages t) = filter_referrers (filter vis L) (c_at c) /\
    (length (t_reqs t) <= S (length L))%nat.
Proof. exact referrers_exactly_once. Qed.
Print Assumptions C15_filter.

(* ---------- the hypotheses are satisfiable: a concrete registry and a toy net/url ---------- *)

Example C15_example_tags :
  let t := loop (reg_serve KTags CLast (fun _ p => p) (fun _ => true) ex_L 2 ex_ds ex_render (fun _ => b "; rel=""next""")) ex_resolve
                (fun _ => false) (ex_cfg KTags) 5 0 0 (mkUrl (b "/v2/r/tags/list") []) (b "a") in
  t_out t = Done /\ map fst (concat (t_pages t)) = [b "b"; b "c"; b "d"] /\ length (t_reqs t) = 2%nat.
Proof. vm_compute. repeat split. Qed.

Example C15_example_hypotheses :
  NoDup (map fst ex_L) /\ (forall it, In it ex_L -> fst it <> []) /\
  (forall i base x, In x (map fst ex_L) ->
     contains c_gt (ex_render i base (link_target ex_ds CLast (fun _ p => p) i base x)) = false) /\
  (forall i base x, In x (map fst ex_L) ->
     ex_resolve base (ex_render i base (link_target ex_ds CLast (fun _ p => p) i base x)) = Some (link_target ex_ds CLast (fun _ p => p) i base x)) /\
  (forall i, (Z.of_N (d_doc_len (ex_ds i)) <= eff_limit (c_limit (ex_cfg KTags)))%Z) /\
  (forall i, qget k_at (d_extra (ex_ds i)) = None).
Proof. exact example_hypotheses. Qed.

(* the same registry paging one item per page with an opaque cursor "token=p;<name>" under
   another path, not showing entry "c": its page is empty, the listing goes on *)
Example C15_example_token_cursor :
  let t := loop (reg_serve KTags ex_cu ex_npath ex_vis ex_L 1 ex_ds ex_render_tok (fun _ => [])) ex_resolve_tok
                (fun _ => false) (ex_cfg KTags) 5 0 0 (mkUrl (b "/v2/r/tags/list") []) (b "a") in
  t_out t = Done /\ map (map fst) (t_pages t) = [[b "b"]; []; [b "d"]] /\
  map u_path (t_reqs t) = [b "/v2/r/tags/list"; b "/v2/r/tags/list/~p"; b "/v2/r/tags/list/~p"].
Proof. vm_compute. repeat split. Qed.

Example C15_example_token_hypotheses :
  cursor_ok ex_cu /\
  (forall i base x, In x (map fst ex_L) ->
     contains c_gt (ex_render_tok i base (link_target ex_ds ex_cu ex_npath i base x)) = false) /\
  (forall i base x, In x (map fst ex_L) ->
     ex_resolve_tok base (ex_render_tok i base (link_target ex_ds ex_cu ex_npath i base x)) = Some (link_target ex_ds ex_cu ex_npath i base x)).
Proof. exact example_token_hypotheses. Qed.

Example C15_example_referrers :
  let t := loop (reg_serve KReferrers CLast (fun _ p => p) (fun _ => true) ex_L 2 ex_ds ex_render (fun _ => [])) ex_resolve
                (fun _ => false) (ex_cfg KReferrers) 6 0 0
                (mkUrl (b "/v2/r/referrers/d") (referrers_query (b "t1"))) [] in
  t_out t = Done /\ map fst (concat (t_pages t)) = [b "a"; b "c"; b "d"].
Proof. vm_compute. repeat split. Qed.

(* ---------- callback failure (any server, any resolver) ---------- *)

(* With a failing callback the listing is the truncation of the undisturbed one: either no
   invoked callback fails and nothing changes, or the first failing invocation m ends the
   loop with the callback's error, exactly the first m+1 pages were delivered and the
   requests sent are a prefix of the undisturbed requests. *)
Theorem C15_stops_on_error :
  forall (serve : nat -> url -> response) (resolve : url -> str -> option url) (c : cfg)
         (cb_fail : nat -> bool) fuel i k u last,
    let t0 := loop serve resolve (fun _ => false) c fuel i k u last in
    let t1 := loop serve resolve cb_fail c fuel i k u last in
    (t1 = t0 /\ forall j, (j < length (t_pages t0))%nat -> cb_fail (k + j)%nat = false) \/
    (exists n m, t_out t1 = ErrCallback /\
                 t_reqs t1 = firstn (S n) (t_reqs t0) /\
                 t_pages t1 = firstn (S m) (t_pages t0) /\
                 (m < length (t_pages t0))%nat /\
                 cb_fail (k + m)%nat = true /\
                 forall j, (j < m)%nat -> cb_fail (k + j)%nat = false).
Proof. exact loop_fail_prefix. Qed.
Print Assumptions C15_stops_on_error.

(* Tags / Repositories with ANY callback behaviour: the listing ends Done having delivered
   the whole suffix, or with the callback's error having delivered a prefix of it *)
Theorem C15_exactly_once_any_callback :
  forall (L : list item) (cap : nat) (ds : nat -> decision)
         (render : nat -> url -> url -> str) (trailer : nat -> str)
         (resolve : url -> str -> option url) (c : cfg) (cu : cursor) (npath : nat -> str -> str) (vis : item -> bool)
         (cb_fail : nat -> bool) (path last0 : str) (fuel : nat),
    cursor_ok cu ->
    c_kind c <> KReferrers ->
    NoDup (map fst L) -> (forall it, In it L -> fst it <> []) ->
    (forall i base x, In x (map fst L) ->
       contains c_gt (render i base (link_target ds cu npath i base x)) = false) ->
    (forall i base x, In x (map fst L) ->
       resolve base (render i base (link_target ds cu npath i base x)) = Some (link_target ds cu npath i base x)) ->
    (forall i, (Z.of_N (d_doc_len (ds i)) <= eff_limit (c_limit c))%Z) ->
    (length (after last0 L) < fuel)%nat ->
    let t := loop (reg_serve (c_kind c) cu npath vis L cap ds render trailer) resolve cb_fail c
                  fuel 0 0 (mkUrl path []) last0 in
    (t_out t = Done /\ concat (t_pages t) = filter vis (after last0 L)) \/
    (t_out t = ErrCallback /\ exists rest', filter vis (after last0 L) = concat (t_pages t) ++ rest').
Proof. exact listing_prefix_any_callback. Qed.
Print Assumptions C15_exactly_once_any_callback.

(* the error is ErrCallback exactly when the last invoked callback failed; no callback is
   invoked after a failing one *)
Theorem C15_callback_discipline :
  forall (serve : nat -> url -> response) (resolve : url -> str -> option url) (c : cfg)
         (cb_fail : nat -> bool) fuel i k u last,
    let t := loop serve resolve cb_fail c fuel i k u last in
    ok_calls cb_fail k (t_pages t) (t_out t).
Proof. exact loop_calls. Qed.
Print Assumptions C15_callback_discipline.

(* Referrers never hands an empty page to the callback *)
Theorem C15_no_empty_referrers_page :
  forall (serve : nat -> url -> response) (resolve : url -> str -> option url) (c : cfg)
         (cb_fail : nat -> bool),
    c_kind c = KReferrers ->
    forall fuel i k u last,
      Forall (fun p => p <> []) (t_pages (loop serve resolve cb_fail c fuel i k u last)).
Proof. exact loop_no_empty_page. Qed.
Print Assumptions C15_no_empty_referrers_page.

(* ---------- the limit ---------- *)

(* MaxMetadataBytes <= 0 means the (generated) default; what passes limitReader ([seen]) is a prefix of the body
   of at most that many bytes; a page is produced only from a well-formed document that fits, a larger document
   is an error; a successful listing decoded only fitting documents. *)
Theorem C15_limit :
  (forall n, (n <= 0)%Z -> eff_limit n = defaultMaxMetadataBytes) /\
  (forall n, (0 < n)%Z -> eff_limit n = n) /\
  (forall limit body,
     (Z.of_nat (length (seen limit body)) <= eff_limit limit)%Z /\
     (exists rest, body = seen limit body ++ rest) /\
     ((Z.of_nat (length body) <= eff_limit limit)%Z -> seen limit body = body)) /\
  (forall c rs p, handle c rs = inr p ->
     rs_json_ok rs = true /\ (Z.of_N (rs_doc_len rs) <= eff_limit (c_limit c))%Z) /\
  (forall c rs, (eff_limit (c_limit c) < Z.of_N (rs_doc_len rs))%Z -> exists e, handle c rs = inl e) /\
  (forall serve resolve cb_fail c fuel i k u last,
     let t := loop serve resolve cb_fail c fuel i k u last in
     t_out t = Done ->
     forall j rq, nth_error (t_reqs t) j = Some rq ->
       rs_json_ok (serve (i + j)%nat rq) = true /\
       (Z.of_N (rs_doc_len (serve (i + j)%nat rq)) <= eff_limit (c_limit c))%Z).
Proof. exact limit_spec. Qed.
Print Assumptions C15_limit.

(* Every kind of listing against any registry, documents of any size: either the listing
   completes with exactly the expected items and every document it read fitted, or it
   fails with a decode error at the first request j whose document does not fit, having
   delivered only whole pages (the view of a prefix of the items) -- never items of a
   truncated document, and no request after j. *)
Theorem C15_limit_listing :
  forall (L : list item) (cap : nat) (ds : nat -> decision)
         (render : nat -> url -> url -> str) (trailer : nat -> str)
         (resolve : url -> str -> option url) (c : cfg) (cu : cursor) (npath : nat -> str -> str) (vis : item -> bool)
         (path last0 : str) (fuel : nat),
    cursor_ok cu ->
    NoDup (map fst L) -> (forall it, In it L -> fst it <> []) ->
    (forall i base x, In x (map fst L) ->
       contains c_gt (render i base (link_target ds cu npath i base x)) = false) ->
    (forall i base x, In x (map fst L) ->
       resolve base (render i base (link_target ds cu npath i base x)) = Some (link_target ds cu npath i base x)) ->
    (c_kind c = KReferrers -> forall i, qget k_at (d_extra (ds i)) = None) ->
    (length (start_rest c last0 L) < fuel)%nat ->
    let t := loop (reg_serve (c_kind c) cu npath vis L cap ds render trailer) resolve (fun _ => false) c
                  fuel 0 0 (mkUrl path (start_query c)) last0 in
    let fit := fun i => (Z.of_N (d_doc_len (ds i)) <= eff_limit (c_limit c))%Z in
    (t_out t = Done /\ concat (t_pages t) = view c vis (start_rest c last0 L) /\
     forall j, (j < length (t_reqs t))%nat -> fit j) \/
    (t_out t = ErrDecode /\
     exists n j, concat (t_pages t) = view c vis (firstn n (start_rest c last0 L)) /\
                 length (t_reqs t) = S j /\ ~ fit j /\ forall j', (j' < j)%nat -> fit j').
Proof. exact listing_limit. Qed.
Print Assumptions C15_limit_listing.

(* bytes: behind io.LimitReader a stream decoder sees at most the limit, and for a
   self-delimiting document d (value v) followed by anything it yields v when d fits and
   fails otherwise -- never a value decoded from a truncated document *)
Theorem C15_limit_bytes :
  forall (A : Type) (decode_stream : str -> option A) (d : str) (v : A) (pad : str) (limit : Z),
    is_document A decode_stream d v ->
    (Z.of_nat (length (seen limit (d ++ pad))) <= eff_limit limit)%Z /\
    decode_stream (seen limit (d ++ pad)) =
      if (Z.of_nat (length d) <=? eff_limit limit)%Z then Some v else None.
Proof. exact limit_bytes. Qed.
Print Assumptions C15_limit_bytes.

(* The digest probe of FetchReference (manifest GET without Docker-Content-Digest, e.g. the index
   of the referrers tag schema; code after 4290d32): never more than MaxMetadataBytes is read, a
   body over the limit is refused with nothing read, a body that is not refused is read completely *)
Theorem C15_digest_probe :
  forall limit clen body,
    (Z.of_nat (length (fst (digest_probe limit clen body))) <= eff_limit limit)%Z /\
    (clen = Z.of_nat (length body) ->
       (snd (digest_probe limit clen body) = true <-> (eff_limit limit < Z.of_nat (length body))%Z) /\
       (snd (digest_probe limit clen body) = true -> fst (digest_probe limit clen body) = []) /\
       (snd (digest_probe limit clen body) = false -> fst (digest_probe limit clen body) = body)).
Proof. exact digest_probe_spec. Qed.
Print Assumptions C15_digest_probe.

(* the first version of that fix (digest_probe_v1: a reader of limit+1 bytes) over-read by one *)
Theorem C15_digest_probe_v1_over_read_refuted :
  exists limit body, (eff_limit limit < Z.of_nat (length (fst (digest_probe_v1 limit body))))%Z.
Proof. exact digest_probe_v1_refuted. Qed.
Print Assumptions C15_digest_probe_v1_over_read_refuted.

(* limitSize (referrers tag schema path) rejects exactly the descriptors larger than the limit *)
Theorem C15_limit_size :
  forall limit size, limit_size_rejects limit size = true <-> (eff_limit limit < size)%Z.
Proof. exact limit_size_spec. Qed.
Print Assumptions C15_limit_size.

(* Referrers through the tag schema (registries without referrers API): an index larger
   than the limit is an error with nothing delivered; otherwise the callback gets, in one
   non-empty page, the referrers of the requested artifact type among the cleaned index
   (empty entries skipped, a repeated descriptor only once), no referrer twice; a failing
   callback is the listing's error *)
Theorem C15_tag_schema :
  forall limit size items a cb_fail,
    let r := tag_schema limit true size items a cb_fail in
    ((eff_limit limit < size)%Z -> r = ([], ErrSize)) /\
    ((size <= eff_limit limit)%Z ->
       Forall (fun p => p <> []) (fst r) /\
       concat (fst r) = filter_referrers (clean_index items) a /\
       NoDup (map fst (concat (fst r))) /\
       (snd r = Done \/ (snd r = ErrCallback /\ cb_fail 0%nat = true /\ fst r <> [])) /\
       (cb_fail 0%nat = false -> snd r = Done)).
Proof. exact tag_schema_spec. Qed.
Print Assumptions C15_tag_schema.

(* the cleaned index: every non-empty name of the index exactly once, entries of the index
   only; an index without repeated or empty entries is left as it is *)
Theorem C15_tag_schema_clean_index :
  forall items,
    NoDup (map fst (clean_index items)) /\
    (forall x, In x (clean_index items) -> In x items /\ fst x <> []) /\
    (forall x, In x items -> fst x <> [] -> In (fst x) (map fst (clean_index items))) /\
    (NoDup (map fst items) -> (forall x, In x items -> fst x <> []) -> clean_index items = items).
Proof. exact clean_index_spec. Qed.
Print Assumptions C15_tag_schema_clean_index.

(* ---------- Repository.Referrers: capability detection around the two paths ---------- *)

(* api = the run of referrersByAPI, ts = the run of referrersByTagSchema.  The callback
   arguments come from exactly one of the two paths (the tag schema is run from the unknown
   state only when the API answered "unsupported" before anything was delivered); the
   capability never changes once set; from unknown it becomes supported exactly on a
   successful API listing and unsupported exactly when the tag schema was used. *)
Theorem C15_referrers_capability :
  forall st cbu (api : trace) ts,
    let w := referrers_wrap st cbu api ts in
    ((w_fell_back w = false /\ w_pages w = t_pages api /\ w_out w = t_out api) \/
     (w_fell_back w = true /\ w_pages w = fst (ts 0%nat) /\ w_out w = snd (ts 0%nat) /\
      (st = RUnknown -> t_pages api = [] /\ unsupported_class cbu (t_out api) = true))) /\
    (st <> RUnknown -> w_state w = st) /\
    (st = RUnknown ->
       (w_state w = RSupported <-> t_out api = Done) /\
       (w_state w = RUnsupported <-> w_fell_back w = true) /\
       (w_state w = RUnknown <-> (t_out api <> Done /\ w_fell_back w = false))) /\
    (st = RUnsupported -> w_fell_back w = true) /\
    (st = RSupported -> w_fell_back w = false).
Proof. exact wrap_spec. Qed.
Print Assumptions C15_referrers_capability.

(* whatever the callback's error is (also one of the class errdef.ErrUnsupported), it is
   what Referrers returns, and no callback is invoked afterwards *)
Theorem C15_referrers_callback_error :
  forall serve resolve cb_fail c fuel u st cbu ts,
    st <> RUnsupported ->
    let api := loop serve resolve cb_fail c fuel 0 0 u [] in
    t_out api = ErrCallback ->
    let w := referrers_wrap st cbu api ts in
    w_out w = ErrCallback /\ w_pages w = t_pages api /\ w_fell_back w = false.
Proof. exact wrap_callback_error. Qed.
Print Assumptions C15_referrers_callback_error.

(* end to end, unknown capability, registry with the referrers API (hypotheses of C15_filter):
   exactly the requested referrers, capability becomes supported, no tag schema *)
Theorem C15_referrers_unknown_with_api :
  forall (L : list item) (cap : nat) (ds : nat -> decision)
         (render : nat -> url -> url -> str) (trailer : nat -> str)
         (resolve : url -> str -> option url) (c : cfg) (cu : cursor) (npath : nat -> str -> str) (vis : item -> bool)
         (path : str) (fuel : nat) cbu ts,
    cursor_ok cu ->
    c_kind c = KReferrers ->
    NoDup (map fst L) -> (forall it, In it L -> fst it <> []) ->
    (forall i base x, In x (map fst L) ->
       contains c_gt (render i base (link_target ds cu npath i base x)) = false) ->
    (forall i base x, In x (map fst L) ->
       resolve base (render i base (link_target ds cu npath i base x)) = Some (link_target ds cu npath i base x)) ->
    (forall i, (Z.of_N (d_doc_len (ds i)) <= eff_limit (c_limit c))%Z) ->
    (forall i, qget k_at (d_extra (ds i)) = None) ->
    (length L < fuel)%nat ->
    let api := loop (reg_serve KReferrers cu npath vis L cap ds render trailer) resolve (fun _ => false) c
                    fuel 0 0 (mkUrl path (referrers_query (c_at c))) [] in
    let w := referrers_wrap RUnknown cbu api ts in
    w_out w = Done /\ concat (w_pages w) = filter_referrers (filter vis L) (c_at c) /\
    w_state w = RSupported /\ w_fell_back w = false.
Proof. exact referrers_unknown_with_api. Qed.
Print Assumptions C15_referrers_unknown_with_api.

(* unknown capability, registry answering the referrers endpoint with a plain 404: one API
   request, then exactly the tag-schema result (C15_tag_schema), capability unsupported *)
Theorem C15_referrers_unknown_without_api :
  forall (serve : nat -> url -> response) (resolve : url -> str -> option url) (c : cfg)
         (cb_fail : nat -> bool) (u : url) (fuel : nat) cbu found size items,
    c_kind c = KReferrers -> (0 < fuel)%nat ->
    (forall i rq, rs_status (serve i rq) = 404 /\ rs_name_unknown (serve i rq) = false) ->
    let api := loop serve resolve cb_fail c fuel 0 0 u [] in
    let ts := fun k => tag_schema (c_limit c) found size items (c_at c) (fun j => cb_fail (k + j)%nat) in
    let w := referrers_wrap RUnknown cbu api ts in
    length (w_reqs w) = 1%nat /\ w_fell_back w = true /\ w_state w = RUnsupported /\
    w_pages w = fst (ts 0%nat) /\ w_out w = snd (ts 0%nat).
Proof. exact referrers_unknown_without_api. Qed.
Print Assumptions C15_referrers_unknown_without_api.

(* the code before the fix (model referrers_wrap_prefix): a callback error of the unsupported
   class was swallowed, the tag schema run, a referrer delivered twice, success returned *)
Theorem C15_referrers_fallback_refuted :
  exists (cb_fail : nat -> bool),
    let api := loop (reg_serve KReferrers CLast (fun _ p => p) (fun _ => true) wit_L 5 wit_ds wit_render (fun _ => [])) wit_resolve
                    cb_fail wit_cfg 9 0 0 wit_u [] in
    let w := referrers_wrap_prefix RUnknown true api (wit_ts cb_fail) in
    t_out api = ErrCallback /\ w_out w = Done /\ w_state w = RUnsupported /\
    ~ NoDup (map fst (concat (w_pages w))).
Proof. exact wrap_prefix_refuted. Qed.
Print Assumptions C15_referrers_fallback_refuted.

(* the referrers response must carry exactly the index media type (no parameters, no other
   spelling); a 404 means "no referrers API" unless it says NAME_UNKNOWN *)
Theorem C15_content_type_exact :
  forall c rs, c_kind c = KReferrers -> rs_status rs = 200 ->
    (rs_ctype rs <> mediaTypeImageIndex -> handle c rs = inl ErrCType) /\
    (forall p, handle c rs = inr p -> rs_ctype rs = mediaTypeImageIndex).
Proof. exact handle_ctype. Qed.
Print Assumptions C15_content_type_exact.

Theorem C15_referrers_404 :
  forall c rs, c_kind c = KReferrers -> rs_status rs = 404 ->
    handle c rs = inl (if rs_name_unknown rs then ErrStatus else ErrUnsupported).
Proof. exact handle_404. Qed.
Print Assumptions C15_referrers_404.

(* pingReferrers agrees with Referrers: a known capability is returned without change; from
   the unknown state "unsupported" is answered exactly for the responses that the referrers
   listing reads as "no referrers API", "supported" exactly for 200 + index media type, and
   the capability is set accordingly (errors leave it unknown) *)
Theorem C15_ping_agrees :
  forall st rs c,
    c_kind c = KReferrers ->
    (st = RSupported -> ping st rs = (st, Some true)) /\
    (st = RUnsupported -> ping st rs = (st, Some false)) /\
    (st = RUnknown ->
       (snd (ping st rs) = Some false <->
          (handle c rs = inl ErrUnsupported \/ handle c rs = inl ErrCType)) /\
       (snd (ping st rs) = Some true <-> (rs_status rs = 200 /\ rs_ctype rs = mediaTypeImageIndex)) /\
       (fst (ping st rs) = RUnsupported <-> snd (ping st rs) = Some false) /\
       (fst (ping st rs) = RSupported <-> snd (ping st rs) = Some true) /\
       (fst (ping st rs) = RUnknown <-> snd (ping st rs) = None)).
Proof. exact ping_spec. Qed.
Print Assumptions C15_ping_agrees.

(* the code before fix 635f618 (mk_request_prefix): with a page size configured, a link
   parameter that url.ParseQuery rejects -- here the registry's cursor token=p;b -- is lost *)
Theorem C15_lossy_query_refuted :
  let link := mkUrl (b "/v2/r/tags/list") [(b "token", VS (b "p;b")); (b "x", VS (b "1"))] in
  let cu := CToken (b "token") (b "p;") in
  cursor_read cu (u_query (mk_request_prefix wit_parses (mkCfg KTags 2 0 []) link [])) = [] /\
  cursor_read cu (u_query (mk_request (mkCfg KTags 2 0 []) link [])) = b "b" /\
  mk_request_prefix wit_parses (mkCfg KTags 0 0 []) link [] = link.
Proof. exact lossy_query_refuted. Qed.
Print Assumptions C15_lossy_query_refuted.

(* ---------- several link-values / Link lines ---------- *)

(* Only the first Link line is read (rs_link = hd), and of it the first "<...>"
   (C15_parse_link): whatever follows the next link -- further link-values, further lines --
   does not matter (C15_exactly_once quantifies over the trailer).  A link-value of another
   relation type BEFORE the next link is followed instead of it (known finding
   link-rel-ignored): the listing re-reads the first page and does not end. *)
Theorem C15_link_rel_first_refuted :
  exists fuel,
    let t := loop relfirst_serve wit_resolve (fun _ => false) (mkCfg KTags 0 0 []) fuel 0 0
                  (mkUrl (b "/v2/r/tags/list") []) [] in
    t_out t = OutOfFuel /\ ~ NoDup (map fst (concat (t_pages t))) /\
    (forall rq, In rq (t_reqs t) -> exists pre, rs_link (relfirst_serve 0 rq) =
         pre ++ c_lt :: b "a" ++ c_gt :: b "; rel=""next""").
Proof. exact link_rel_first_refuted. Qed.
Print Assumptions C15_link_rel_first_refuted.

(* ---------- content/oci ---------- *)

(* listTags: ascending; each non-digest reference greater than last exactly as often as the
   resolver map holds it; nothing else *)
Theorem C15_oci_tags :
  forall entries last,
    Sorted sle (list_tags entries last) /\
    Permutation (list_tags entries last) (map fst (filter (tag_listed last) entries)) /\
    (forall t, In t (list_tags entries last) <->
               exists d, In (t, d) entries /\ t <> d /\ (last = [] \/ str_ltb last t = true)).
Proof. exact list_tags_spec. Qed.
Print Assumptions C15_oci_tags.

(* the iteration order of the Go map does not matter *)
Theorem C15_oci_tags_order_independent :
  forall entries entries' last,
    Permutation entries entries' -> list_tags entries last = list_tags entries' last.
Proof. exact list_tags_order_independent. Qed.
Print Assumptions C15_oci_tags_order_independent.

(* on a sorted registry an unknown [last] selects the greater items: the registry model
   and listTags read [last] the same way *)
Theorem C15_last_on_sorted_registry :
  forall x L,
    StronglySorted (fun a b0 => str_ltb (fst a) (fst b0) = true) L ->
    x <> [] -> ~ In x (map fst L) ->
    after x L = filter (fun it => str_ltb x (fst it)) L.
Proof. exact after_sorted_unknown. Qed.
Print Assumptions C15_last_on_sorted_registry.

(* ---------- further examples ---------- *)

Example C15_example_document : is_document str ex_decode (b "{ab}") (b "{ab}").
Proof. exact example_document. Qed.

Example C15_example_limit_bytes :
  ex_decode (seen 4 (b "{ab}" ++ b "  ")) = Some (b "{ab}") /\ ex_decode (seen 3 (b "{ab}" ++ b "  ")) = None.
Proof. split; reflexivity. Qed.

Example C15_example_oci_tags :
  list_tags [(b "v2", b "sha256:x"); (b "sha256:x", b "sha256:x"); (b "latest", b "sha256:y");
             (b "a", b "sha256:x"); (b "v10", b "sha256:y")] (b "latest")
  = [b "v10"; b "v2"].
Proof. reflexivity. Qed.

Example C15_example_stops :
  let t := loop (reg_serve KTags CLast (fun _ p => p) (fun _ => true) ex_L 1 ex_ds ex_render (fun _ => [])) ex_resolve
                (fun k => (k =? 1)%nat) (ex_cfg KTags) 9 0 0 (mkUrl (b "/v2/r/tags/list") []) [] in
  t_out t = ErrCallback /\ map (map fst) (t_pages t) = [[b "a"]; [b "b"]] /\ length (t_reqs t) = 2%nat.
Proof. vm_compute. repeat split. Qed.

(* a document over the limit on the second page: one whole page delivered, then ErrDecode *)
Example C15_example_limit_listing :
  let ds := fun i => mkDec 1 [] false [] [] (if (i =? 1)%nat then 101 else 100) 0 in
  let t := loop (reg_serve KTags CLast (fun _ p => p) (fun _ => true) ex_L 1 ds ex_render (fun _ => [])) ex_resolve
                (fun _ => false) (ex_cfg KTags) 9 0 0 (mkUrl (b "/v2/r/tags/list") []) [] in
  t_out t = ErrDecode /\ map (map fst) (t_pages t) = [[b "a"]] /\ length (t_reqs t) = 2%nat.
Proof. vm_compute. repeat split. Qed.

(* ---------- the string level: net/url, setQueryParams, escaping (Model/PagingUrl.v) ---------- *)

(* url.QueryUnescape undoes url.QueryEscape on every byte string *)
Theorem C15_escape_roundtrip :
  forall s, Forall byte_ok s -> query_unescape (query_escape s) = Some s.
Proof. exact escape_roundtrip. Qed.
Print Assumptions C15_escape_roundtrip.

(* setQueryParams: every parameter that is not set is forwarded byte for byte and in order
   (also one that url.ParseQuery would reject), the set ones follow *)
Theorem C15_set_query_params_verbatim :
  forall raw kvs, Forall kv_ok kvs ->
    raw_params (set_query_params raw kvs) =
    filter (fun p => not_set kvs (param_key p)) (raw_params raw) ++ map new_param kvs.
Proof. exact set_query_params_verbatim. Qed.
Print Assumptions C15_set_query_params_verbatim.

(* ... and a registry reading the result finds the other parameters as before and the new values *)
Theorem C15_set_query_params_read :
  forall raw kvs, Forall kv_ok kvs ->
    parse_query_lenient (set_query_params raw kvs) =
    filter (fun kv' => not_set kvs (fst kv')) (parse_query_lenient raw) ++ kvs.
Proof. exact set_query_params_spec. Qed.
Print Assumptions C15_set_query_params_read.

(* the raw request the client sends refines the association-list request of Model/Paging.v:
   whatever key a registry looks up, it reads what [mk_request] says *)
Theorem C15_request_query_refines :
  forall c p raw q last, Forall byte_ok last -> repr raw q ->
    repr (request_query c raw last) (u_query (mk_request c (mkUrl p q) last)).
Proof. exact request_query_refines. Qed.
Print Assumptions C15_request_query_refines.

(* net/url reference resolution (URL.Parse + ResolveReference as modelled) sends each of the
   link forms </path?q>, <?q>, <http://host/path?q>, <//host/path?q> -- followed by anything
   after '>' -- to the intended path and raw query; the next request is that path with n set *)
Theorem C15_next_request_link_forms :
  forall c base P segs Q t trailer hc ht,
    link_form base P Q t ->
    clean_path P segs -> forallb path_char P = true -> forallb query_char Q = true ->
    s_host base = hc :: ht -> forallb host_char (s_host base) = true -> host_ok (s_host base) = true ->
    link_ok t -> contains c_gt t = false ->
    next_request c base (c_lt :: t ++ c_gt :: trailer) = NNext P (request_query c Q []).
Proof. exact next_request_link_forms. Qed.
Print Assumptions C15_next_request_link_forms.

(* a clean path is a fixed point of net/url's dot-segment removal *)
Theorem C15_resolve_path_clean :
  forall P segs, clean_path P segs -> resolve_path P [] = P.
Proof. exact resolve_path_clean. Qed.
Print Assumptions C15_resolve_path_clean.

Example C15_example_string_step :
  let base := mkS (b "http") (b "reg.test") (b "/v2/repo/tags/list") (b "n=2&last=a") in
  next_request (mkCfg KTags 2 0 []) base (b "<?last=b&tok=x;y>; rel=""next""")
    = NNext (b "/v2/repo/tags/list") (b "last=b&tok=x;y&n=2") /\
  next_request (mkCfg KTags 0 0 []) base (b "<./list/~p?token=p%3Bb>")
    = NNext (b "/v2/repo/tags/list/~p") (b "token=p%3Bb") /\
  first_query (mkCfg KTags 3 0 []) [] (b "a b/c") = b "n=3&last=a+b%2Fc".
Proof. vm_compute. repeat split. Qed.

(* the syntactic facts about the Go sources the models assume (translator kind c15_srcfact) *)
Theorem C15_source_facts :
  c15_fact_link_header && c15_fact_link_resolve && c15_fact_setq_split && c15_fact_setq_cut &&
  c15_fact_tags_clear_last && c15_fact_repos_clear_last && c15_fact_refs_nonempty &&
  c15_fact_wrap_delivered && c15_fact_tagschema_clean && c15_fact_probe_contentlength &&
  c15_fact_oci_last && c15_fact_oci_sort = true.
Proof. exact (eq_refl true). Qed.

(* a registry that writes its link query by escaping is read back exactly *)
Theorem C15_parse_enc_pairs :
  forall l, Forall kv_ok l -> parse_query_lenient (enc_pairs l) = l.
Proof. exact parse_enc_pairs. Qed.
Print Assumptions C15_parse_enc_pairs.

(* one step end to end: a link in one of the four forms to (P, escaped q') makes the string
   level send a request to P whose raw query represents the model's request for (P, q') *)
Theorem C15_step_simulation :
  forall c base P segs q' t trailer hc ht,
    let Q := enc_pairs (shown q') in
    link_form base P Q t -> query_ok q' ->
    clean_path P segs -> forallb path_char P = true ->
    s_host base = hc :: ht -> forallb host_char (s_host base) = true -> host_ok (s_host base) = true ->
    link_ok t -> contains c_gt t = false ->
    exists raw, next_request c base (c_lt :: t ++ c_gt :: trailer) = NNext P raw /\
                repr raw (u_query (mk_request c (mkUrl P q') [])).
Proof. exact step_simulation. Qed.
Print Assumptions C15_step_simulation.

(* all histories: the page loop on strings (raw queries, setQueryParams, net/url as modelled)
   refines the page loop on association lists -- same pages, same outcome, pairwise
   indistinguishable requests -- for any server answering indistinguishable requests alike and
   any links that net/url resolves like the abstract resolver *)
Theorem C15_string_loop_refines :
  forall (sch host : str) (serve_s : nat -> sreq -> response) (serve : nat -> url -> response)
         (resolve : url -> str -> option url) (cb_fail : nat -> bool) (c : cfg),
    (forall i rs rq, same_request rs rq -> serve_s i rs = serve i rq) ->
    (forall i rs rq t, same_request rs rq -> parse_link (rs_link (serve i rq)) = LTarget t ->
       match resolve_ref (mkS sch host (sr_path rs) (sr_query rs)) t, resolve rq t with
       | ROk u, Some u' => s_path u <> [] /\ s_path u = u_path u' /\ repr (s_query u) (u_query u')
       | RErr, None => True
       | _, _ => False
       end) ->
    forall fuel i k p raw q last,
      repr raw q -> Forall byte_ok last ->
      exists ts, loop_s sch host serve_s cb_fail c fuel i k p raw last = Some ts /\
                 let t := loop serve resolve cb_fail c fuel i k (mkUrl p q) last in
                 st_pages ts = t_pages t /\ st_out ts = t_out t /\
                 Forall2 same_request (st_reqs ts) (t_reqs t).
Proof. exact loop_s_refines. Qed.
Print Assumptions C15_string_loop_refines.

(* exactly once for the loop on strings *)
Theorem C15_exactly_once_string_loop :
  forall (sch host : str) (serve_s : nat -> sreq -> response)
         (L : list item) (cap : nat) (ds : nat -> decision)
         (render : nat -> url -> url -> str) (trailer : nat -> str)
         (resolve : url -> str -> option url) (c : cfg) (cu : cursor) (npath : nat -> str -> str) (vis : item -> bool)
         (path last0 : str) (fuel : nat),
    cursor_ok cu ->
    c_kind c <> KReferrers ->
    NoDup (map fst L) -> (forall it, In it L -> fst it <> []) ->
    (forall i base x, In x (map fst L) ->
       contains c_gt (render i base (link_target ds cu npath i base x)) = false) ->
    (forall i base x, In x (map fst L) ->
       resolve base (render i base (link_target ds cu npath i base x)) = Some (link_target ds cu npath i base x)) ->
    (forall i, (Z.of_N (d_doc_len (ds i)) <= eff_limit (c_limit c))%Z) ->
    (length (after last0 L) < fuel)%nat ->
    Forall byte_ok last0 ->
    let serve := reg_serve (c_kind c) cu npath vis L cap ds render trailer in
    (forall i rs rq, same_request rs rq -> serve_s i rs = serve i rq) ->
    (forall i rs rq t, same_request rs rq -> parse_link (rs_link (serve i rq)) = LTarget t ->
       match resolve_ref (mkS sch host (sr_path rs) (sr_query rs)) t, resolve rq t with
       | ROk u, Some u' => s_path u <> [] /\ s_path u = u_path u' /\ repr (s_query u) (u_query u')
       | RErr, None => True
       | _, _ => False
       end) ->
    exists ts, loop_s sch host serve_s (fun _ => false) c fuel 0 0 path [] last0 = Some ts /\
               st_out ts = Done /\ concat (st_pages ts) = filter vis (after last0 L) /\
               (length (st_reqs ts) <= S (length (after last0 L)))%nat.
Proof. exact string_loop_exactly_once. Qed.
Print Assumptions C15_exactly_once_string_loop.

(* the fifth link form, <./seg?q>: relative to the directory of the request path *)
Theorem C15_next_request_dot_relative :
  forall c base dirs lastB seg Q trailer,
    s_path base = c_sl :: join [c_sl] (dirs ++ [lastB]) ->
    Forall seg_ok dirs -> seg_ok lastB -> seg_ok seg ->
    forallb path_char seg = true -> forallb query_char Q = true ->
    link_ok (c_dot :: c_sl :: seg ++ c_qm :: Q) -> contains c_gt (c_dot :: c_sl :: seg ++ c_qm :: Q) = false ->
    next_request c base (c_lt :: (c_dot :: c_sl :: seg ++ c_qm :: Q) ++ c_gt :: trailer) =
    NNext (c_sl :: join [c_sl] (dirs ++ [seg])) (request_query c Q []).
Proof. exact next_request_dot_relative. Qed.
Print Assumptions C15_next_request_dot_relative.

(* ---------- encoding/json: the first value of a stream (Model/PagingJson.v) ---------- *)

(* a complete bracketed value is self-delimiting: the stream decoder stops at its end whatever
   follows, and no proper prefix of it is complete *)
Theorem C15_json_self_delimiting :
  forall d, scan d = Some (length d) ->
    (forall tail, first_value (d ++ tail) = Some d) /\
    (forall k, (k < length d)%nat -> first_value (firstn k d) = None).
Proof. exact first_value_self_delimiting. Qed.
Print Assumptions C15_json_self_delimiting.

(* so behind limitReader a document is decoded completely when it fits and not at all when it
   does not: C15_limit_bytes without its hypothesis, for the bracket scanner *)
Theorem C15_limit_bytes_scan :
  forall d pad limit, scan d = Some (length d) ->
    (Z.of_nat (length (seen limit (d ++ pad))) <= eff_limit limit)%Z /\
    first_value (seen limit (d ++ pad)) =
      if (Z.of_nat (length d) <=? eff_limit limit)%Z then Some d else None.
Proof. exact scan_limit_bytes. Qed.
Print Assumptions C15_limit_bytes_scan.

Example C15_example_scan :
  scan (b " {""tags"":[""a}"",""b\""]""]} x") = Some 23%nat /\
  scan (b " {""tags"":[""a}"",""b\""]""]") = None.
Proof. vm_compute. split; reflexivity. Qed.

(* the bytes of a metadata answer the client consumes (limitReader, then json.Decoder's buffer
   refills, as modelled and compared with a counting body on every decoded answer): never more
   than MaxMetadataBytes, never more than the body, at least the document when it fits *)
Theorem C15_bytes_consumed :
  forall limit docend total,
    (Z.of_N (consumed_of limit docend total) <= eff_limit limit)%Z /\
    consumed_of limit docend total <= total /\
    (docend <= total -> (Z.of_N docend <= eff_limit limit)%Z -> docend <= consumed_of limit docend total).
Proof. exact consumed_of_spec. Qed.
Print Assumptions C15_bytes_consumed.

(* the index of the referrers tag schema: refused unread when over the limit, else read whole *)
Theorem C15_bytes_consumed_index :
  forall limit size,
    (Z.of_N (consumed_index limit size) <= eff_limit limit)%Z /\ consumed_index limit size <= size.
Proof. exact consumed_index_spec. Qed.
Print Assumptions C15_bytes_consumed_index.

(* the refinement with an invariant of the request paths (weaker hypotheses: only requests whose
   path satisfies InvP need to be answered alike / resolved alike) *)
Theorem C15_string_loop_refines_inv :
  forall (sch host : str) (serve_s : nat -> sreq -> response) (serve : nat -> url -> response)
         (resolve : url -> str -> option url) (cb_fail : nat -> bool) (c : cfg) (InvP : str -> Prop),
    (forall i rs rq, InvP (sr_path rs) -> same_request rs rq -> serve_s i rs = serve i rq) ->
    (forall i rs rq t,
       InvP (sr_path rs) -> same_request rs rq -> parse_link (rs_link (serve i rq)) = LTarget t ->
       match resolve_ref (mkS sch host (sr_path rs) (sr_query rs)) t, resolve rq t with
       | ROk u, Some u' => s_path u <> [] /\ s_path u = u_path u' /\ repr (s_query u) (u_query u') /\ InvP (s_path u)
       | RErr, None => True
       | _, _ => False
       end) ->
    forall fuel i k p raw q last,
      InvP p -> repr raw q -> Forall byte_ok last ->
      exists ts, loop_s sch host serve_s cb_fail c fuel i k p raw last = Some ts /\
                 let t := loop serve resolve cb_fail c fuel i k (mkUrl p q) last in
                 st_pages ts = t_pages t /\ st_out ts = t_out t /\
                 Forall2 same_request (st_reqs ts) (t_reqs t).
Proof. exact loop_s_refines_inv. Qed.
Print Assumptions C15_string_loop_refines_inv.

(* its hypotheses are satisfiable: a two-page registry with a query-only link *)
Example C15_example_refinement_hypotheses :
  (forall i rs rq, exs_inv (sr_path rs) -> same_request rs rq -> exs_serve_s i rs = exs_serve i rq) /\
  (forall i rs rq t,
     exs_inv (sr_path rs) -> same_request rs rq -> parse_link (rs_link (exs_serve i rq)) = LTarget t ->
     match resolve_ref (mkS (b "http") (b "reg.test") (sr_path rs) (sr_query rs)) t, exs_resolve rq t with
     | ROk u, Some u' => s_path u <> [] /\ s_path u = u_path u' /\ repr (s_query u) (u_query u') /\ exs_inv (s_path u)
     | RErr, None => True
     | _, _ => False
     end).
Proof. exact example_refinement_hypotheses. Qed.

Example C15_example_string_loop :
  loop_s (b "http") (b "reg.test") exs_serve_s (fun _ => false) (mkCfg KTags 2 0 []) 5 0 0 exs_path [] []
  = Some (mkST [mkSR exs_path (b "n=2"); mkSR exs_path (b "last=a&n=2")] [[(b "a", [])]; [(b "b", [])]] Done).
Proof. vm_compute. reflexivity. Qed.

(* registry.Tags / registry.Repositories: the whole list the registry shows, once, in order *)
Theorem C15_collect_all :
  forall (L : list item) (cap : nat) (ds : nat -> decision)
         (render : nat -> url -> url -> str) (trailer : nat -> str)
         (resolve : url -> str -> option url) (c : cfg) (cu : cursor) (npath : nat -> str -> str) (vis : item -> bool)
         (path : str) (fuel : nat),
    cursor_ok cu ->
    c_kind c <> KReferrers ->
    NoDup (map fst L) -> (forall it, In it L -> fst it <> []) ->
    (forall i base x, In x (map fst L) ->
       contains c_gt (render i base (link_target ds cu npath i base x)) = false) ->
    (forall i base x, In x (map fst L) ->
       resolve base (render i base (link_target ds cu npath i base x)) = Some (link_target ds cu npath i base x)) ->
    (forall i, (Z.of_N (d_doc_len (ds i)) <= eff_limit (c_limit c))%Z) ->
    (length L < fuel)%nat ->
    collect_all (loop (reg_serve (c_kind c) cu npath vis L cap ds render trailer) resolve (fun _ => false) c
                      fuel 0 0 (mkUrl path []) []) = (Done, filter vis L).
Proof. exact collect_all_listing. Qed.
Print Assumptions C15_collect_all.

(* registry.Referrers / Repository.Predecessors *)
Theorem C15_collect_all_referrers :
  forall (L : list item) (cap : nat) (ds : nat -> decision)
         (render : nat -> url -> url -> str) (trailer : nat -> str)
         (resolve : url -> str -> option url) (c : cfg) (cu : cursor) (npath : nat -> str -> str) (vis : item -> bool)
         (path : str) (fuel : nat),
    cursor_ok cu ->
    c_kind c = KReferrers ->
    NoDup (map fst L) -> (forall it, In it L -> fst it <> []) ->
    (forall i base x, In x (map fst L) ->
       contains c_gt (render i base (link_target ds cu npath i base x)) = false) ->
    (forall i base x, In x (map fst L) ->
       resolve base (render i base (link_target ds cu npath i base x)) = Some (link_target ds cu npath i base x)) ->
    (forall i, (Z.of_N (d_doc_len (ds i)) <= eff_limit (c_limit c))%Z) ->
    (forall i, qget k_at (d_extra (ds i)) = None) ->
    (length L < fuel)%nat ->
    collect_all (loop (reg_serve KReferrers cu npath vis L cap ds render trailer) resolve (fun _ => false) c
                      fuel 0 0 (mkUrl path (referrers_query (c_at c))) []) =
    (Done, filter_referrers (filter vis L) (c_at c)).
Proof. exact collect_all_referrers. Qed.
Print Assumptions C15_collect_all_referrers.

(* the decoder behind limitReader succeeds exactly when the first value of the body ends within
   the limit, and then yields the whole value: body_fits (document length <= limit) of the
   listing model is what the scanner-decoder does on the bytes *)
Theorem C15_decoder_behind_limit :
  forall body limit,
    first_value (seen limit body) =
    match scan body with
    | Some m => if (Z.of_nat m <=? eff_limit limit)%Z then Some (firstn m body) else None
    | None => None
    end.
Proof. exact scan_behind_limit. Qed.
Print Assumptions C15_decoder_behind_limit.

(* known finding link-rel-ignored, on the string level *)
Theorem C15_link_rel_first_string_refuted :
  exists header,
    let base := mkS (b "http") (b "reg.test") (b "/v2/r/tags/list") (b "last=a") in
    (exists pre, header = pre ++ b "<?last=b>; rel=""next""") /\
    next_request (mkCfg KTags 0 0 []) base header = NNext (b "/v2/r/tags/list") [] /\
    next_request (mkCfg KTags 0 0 []) base (b "<?last=b>; rel=""next""") = NNext (b "/v2/r/tags/list") (b "last=b").
Proof. exact link_rel_first_string_refuted. Qed.
Print Assumptions C15_link_rel_first_string_refuted.

(* exactly once with the link hypotheses only for requests satisfying an invariant *)
Theorem C15_exactly_once_inv :
  forall (L : list item) (cap : nat) (ds : nat -> decision)
         (render : nat -> url -> url -> str) (trailer : nat -> str)
         (resolve : url -> str -> option url) (c : cfg) (cu : cursor) (npath : nat -> str -> str) (vis : item -> bool)
         (InvQ : url -> Prop) (path last0 : str) (fuel : nat),
    cursor_ok cu ->
    c_kind c <> KReferrers ->
    NoDup (map fst L) -> (forall it, In it L -> fst it <> []) ->
    (forall i base x, InvQ base -> In x (map fst L) ->
       contains c_gt (render i base (link_target ds cu npath i base x)) = false) ->
    (forall i base x, InvQ base -> In x (map fst L) ->
       resolve base (render i base (link_target ds cu npath i base x)) = Some (link_target ds cu npath i base x)) ->
    (forall i base x, InvQ base -> In x (map fst L) ->
       InvQ (mk_request c (link_target ds cu npath i base x) [])) ->
    InvQ (mk_request c (mkUrl path []) last0) ->
    (forall i, (Z.of_N (d_doc_len (ds i)) <= eff_limit (c_limit c))%Z) ->
    (length (after last0 L) < fuel)%nat ->
    let t := loop (reg_serve (c_kind c) cu npath vis L cap ds render trailer) resolve (fun _ => false) c
                  fuel 0 0 (mkUrl path []) last0 in
    t_out t = Done /\
    concat (t_pages t) = filter vis (after last0 L) /\
    (length (t_reqs t) <= S (length (after last0 L)))%nat.
Proof. exact listing_exactly_once_inv. Qed.
Print Assumptions C15_exactly_once_inv.

(* EXACTLY ONCE WITHOUT ABSTRACT net/url: a registry that writes its next links as
   </path?escaped query> (render_c), the client resolving them with net/url as modelled in
   Model/PagingUrl.v (resolve_c = resolve_ref + lenient query reading, n read as a number), any page size:
   Tags / Repositories deliver exactly what the registry shows after `last`, once, in order --
   for every list, split oracle, cap, cursor kind (last or opaque token), shown subset, extra
   link parameters and start value.  No hypothesis about rendering or resolution is left. *)
Theorem C15_exactly_once_concrete :
  forall (sch host P0 : str) (segs0 : list str),
    clean_path P0 segs0 ->
    forallb path_char P0 = true ->
    forallb printable P0 = true ->
    forall (L : list item) (cap : nat) (ds : nat -> decision)
           (trailer : nat -> str) (vis : item -> bool) (cu : cursor) (c : cfg),
    cursor_ok cu ->
    match cu with
    | CLast => True
    | CToken k s => Forall byte_ok k /\ Forall byte_ok s
    end ->
    (forall x : str, In x (map fst L) -> Forall byte_ok x) ->
    (forall i : nat, all_vs (d_extra (ds i)) /\ query_ok (d_extra (ds i))) ->
    (c_n c < 10 ^ 40)%Z ->
    forall (last0 : list N) (fuel : nat),
    c_kind c <> KReferrers ->
    NoDup (map fst L) ->
    (forall it : item, In it L -> fst it <> []) ->
    Forall byte_ok last0 ->
    (forall i : nat, (Z.of_N (d_doc_len (ds i)) <= eff_limit (c_limit c))%Z) ->
    (length (after last0 L) < fuel)%nat ->
    let t := loop (reg_serve (c_kind c) cu (fun _ p => p) vis L cap ds render_c trailer) (resolve_c sch host)
                  (fun _ => false) c fuel 0 0 (mkUrl P0 []) last0 in
    t_out t = Done /\
    concat (t_pages t) = filter vis (after last0 L) /\
    (length (t_reqs t) <= S (length (after last0 L)))%nat.
Proof. exact concrete_exactly_once. Qed.
Print Assumptions C15_exactly_once_concrete.

Example C15_example_concrete :
  let t := loop (reg_serve KTags (CToken (b "token") (b "p;")) (fun _ p => p) ex_vis ex_L 1 ex_ds render_c (fun _ => b "; rel=""next"""))
                (resolve_c (b "http") (b "reg.test")) (fun _ => false) (mkCfg KTags 7 0 []) 6 0 0 (mkUrl exs_path []) (b "a") in
  t_out t = Done /\ map (map fst) (t_pages t) = [[b "b"]; []; [b "d"]] /\
  map (fun u => qget (b "token") (u_query u)) (t_reqs t) = [None; Some (VS (b "p;b")); Some (VS (b "p;c"))] /\
  map (fun u => qget k_n (u_query u)) (t_reqs t) = [Some (VN 7); Some (VN 7); Some (VN 7)].
Proof. vm_compute. repeat split. Qed.

(* strconv.Itoa / Atoi as modelled: reading back what was written *)
Theorem C15_atoi_itoa : forall n, n < 10 ^ 40 -> atoi (itoa n) = Some n.
Proof. exact atoi_itoa. Qed.
Print Assumptions C15_atoi_itoa.

(* the same for Referrers (C15_filter with net/url as modelled): the referrers of the requested
   artifact type, once, in order, whether or not the registry filters *)
Theorem C15_filter_concrete :
  forall (sch host P0 : str) (segs0 : list str),
    clean_path P0 segs0 ->
    forallb path_char P0 = true ->
    forallb printable P0 = true ->
    forall (L : list item) (cap : nat) (ds : nat -> decision)
           (trailer : nat -> str) (vis : item -> bool) (cu : cursor) (c : cfg),
    cursor_ok cu ->
    match cu with
    | CLast => True
    | CToken k s => Forall byte_ok k /\ Forall byte_ok s
    end ->
    (forall x : str, In x (map fst L) -> Forall byte_ok x) ->
    (forall i : nat, all_vs (d_extra (ds i)) /\ query_ok (d_extra (ds i))) ->
    (c_n c < 10 ^ 40)%Z ->
    forall fuel : nat,
    c_kind c = KReferrers ->
    NoDup (map fst L) ->
    (forall it : item, In it L -> fst it <> []) ->
    Forall byte_ok (c_at c) ->
    (forall i : nat, (Z.of_N (d_doc_len (ds i)) <= eff_limit (c_limit c))%Z) ->
    (forall i : nat, qget k_at (d_extra (ds i)) = None) ->
    (length L < fuel)%nat ->
    let t := loop (reg_serve KReferrers cu (fun _ p => p) vis L cap ds render_c trailer) (resolve_c sch host)
                  (fun _ => false) c fuel 0 0 (mkUrl P0 (referrers_query (c_at c))) [] in
    t_out t = Done /\
    concat (t_pages t) = filter_referrers (filter vis L) (c_at c) /\
    (length (t_reqs t) <= S (length L))%nat.
Proof. exact concrete_referrers. Qed.
Print Assumptions C15_filter_concrete.

(* ---------- second extension round: every link form, without abstract net/url ---------- *)

(* C15_exactly_once_concrete for a registry that chooses, per answer, any of the forms
   </path?q> (0), <?q> (1), <http://host/path?q> (2), <//host/path?q> (3), <./last?q> (4..) -- fm i is the form of
   the i-th answer -- read by net/url as modelled (resolve_c): no hypothesis about rendering or
   resolution is left for any of them *)
Theorem C15_exactly_once_concrete_forms :
  forall (sch host : str) (hc : N) (ht : str),
       host = hc :: ht ->
       forallb host_char host = true ->
       host_ok host = true ->
       forall (P0 : str) (segs0 : list str),
       clean_path P0 segs0 ->
       forallb path_char P0 = true ->
       forallb printable P0 = true ->
       forall (L : list item) (cap : nat) (ds : nat -> decision) (trailer : nat -> str) 
         (vis : item -> bool) (cu : cursor) (c : cfg),
       cursor_ok cu ->
       match cu with
       | CLast => True
       | CToken k s => Forall byte_ok k /\ Forall byte_ok s
       end ->
       (forall x : str, In x (map fst L) -> Forall byte_ok x) ->
       (forall i : nat, all_vs (d_extra (ds i)) /\ query_ok (d_extra (ds i))) ->
       (c_n c < 10 ^ 40)%Z ->
       forallb printable host = true ->
       forall (fm : nat -> nat) (dirs0 : list str) (lastB0 : str),
       segs0 = dirs0 ++ [lastB0] ->
       forallb path_char lastB0 = true ->
       forall (last0 : list N) (fuel : nat),
       c_kind c <> KReferrers ->
       NoDup (map fst L) ->
       (forall it : item, In it L -> fst it <> []) ->
       Forall byte_ok last0 ->
       (forall i : nat, (Z.of_N (d_doc_len (ds i)) <= eff_limit (c_limit c))%Z) ->
       (length (after last0 L) < fuel)%nat ->
       let t :=
         loop
           (reg_serve (c_kind c) cu (fun (_ : nat) (p : str) => p) vis L cap ds (render_f host fm lastB0)
              trailer) (resolve_c sch host) (fun _ : nat => false) c fuel 0 0
           {| u_path := P0; u_query := [] |} last0 in
       t_out t = Done /\
       concat (t_pages t) = filter vis (after last0 L) /\
       (length (t_reqs t) <= S (length (after last0 L)))%nat.
Proof. exact concrete_exactly_once_forms. Qed.
Print Assumptions C15_exactly_once_concrete_forms.

Theorem C15_filter_concrete_forms :
  forall (sch host : str) (hc : N) (ht : str),
       host = hc :: ht ->
       forallb host_char host = true ->
       host_ok host = true ->
       forall (P0 : str) (segs0 : list str),
       clean_path P0 segs0 ->
       forallb path_char P0 = true ->
       forallb printable P0 = true ->
       forall (L : list item) (cap : nat) (ds : nat -> decision) (trailer : nat -> str) 
         (vis : item -> bool) (cu : cursor) (c : cfg),
       cursor_ok cu ->
       match cu with
       | CLast => True
       | CToken k s => Forall byte_ok k /\ Forall byte_ok s
       end ->
       (forall x : str, In x (map fst L) -> Forall byte_ok x) ->
       (forall i : nat, all_vs (d_extra (ds i)) /\ query_ok (d_extra (ds i))) ->
       (c_n c < 10 ^ 40)%Z ->
       forallb printable host = true ->
       forall (fm : nat -> nat) (dirs0 : list str) (lastB0 : str),
       segs0 = dirs0 ++ [lastB0] ->
       forallb path_char lastB0 = true ->
       forall fuel : nat,
       c_kind c = KReferrers ->
       NoDup (map fst L) ->
       (forall it : item, In it L -> fst it <> []) ->
       Forall byte_ok (c_at c) ->
       (forall i : nat, (Z.of_N (d_doc_len (ds i)) <= eff_limit (c_limit c))%Z) ->
       (forall i : nat, qget k_at (d_extra (ds i)) = None) ->
       (length L < fuel)%nat ->
       let t :=
         loop
           (reg_serve KReferrers cu (fun (_ : nat) (p : str) => p) vis L cap ds (render_f host fm lastB0)
              trailer) (resolve_c sch host) (fun _ : nat => false) c fuel 0 0
           {| u_path := P0; u_query := referrers_query (c_at c) |} [] in
       t_out t = Done /\
       concat (t_pages t) = filter_referrers (filter vis L) (c_at c) /\
       (length (t_reqs t) <= S (length L))%nat.
Proof. exact concrete_referrers_forms. Qed.
Print Assumptions C15_filter_concrete_forms.

(* forms 1, 2, 3, 4 in turn, opaque cursor, a hidden entry, page size 7 *)
Example C15_example_concrete_forms :
  let t := loop (reg_serve KTags (CToken (b "token") (b "p;")) (fun _ p => p) ex_vis ex_L 1 ex_ds
                           (render_f (b "reg.test") (fun i => S i) (b "list")) (fun _ => b "; rel=""next"""))
                (resolve_c (b "http") (b "reg.test")) (fun _ => false) (mkCfg KTags 7 0 []) 6 0 0 (mkUrl exs_path []) [] in
  t_out t = Done /\ map (map fst) (t_pages t) = [[b "a"]; [b "b"]; []; [b "d"]] /\
  map u_path (t_reqs t) = [exs_path; exs_path; exs_path; exs_path].
Proof. vm_compute. repeat split. Qed.

(* the typed reading (n as a number) of the raw request the client sends IS the request of the
   association-list model -- the same list, not only the same lookups *)
Theorem C15_request_query_exact :
  forall c p raw last, Forall byte_ok last -> (c_n c < 10 ^ 40)%Z ->
    typed_query (request_query c raw last) = u_query (mk_request c (mkUrl p (typed_query raw)) last).
Proof. exact request_query_exact. Qed.
Print Assumptions C15_request_query_exact.

(* all histories, for ANY registry on association lists that is fed the typed reading of the raw
   requests (serve_typed; it may echo every parameter of a request into its links): the page loop
   on strings and the page loop on association lists deliver the same pages with the same outcome,
   and the raw requests read exactly as the model's requests.  The former hypothesis "answers
   indistinguishable requests alike" is gone. *)
Theorem C15_string_loop_exact :
  forall (sch host : str) (serve : nat -> url -> response) (resolve : url -> str -> option url)
         (cb_fail : nat -> bool) (c : cfg) (Inv : sreq -> Prop),
    (c_n c < 10 ^ 40)%Z ->
    (forall i rs t,
       Inv rs -> parse_link (rs_link (serve i (typed_req rs))) = LTarget t ->
       match resolve_ref (mkS sch host (sr_path rs) (sr_query rs)) t, resolve (typed_req rs) t with
       | ROk u, Some u' => s_path u <> [] /\ u' = mkUrl (s_path u) (typed_query (s_query u)) /\
                           Inv (mkSR (s_path u) (request_query c (s_query u) []))
       | RErr, None => True
       | _, _ => False
       end) ->
    forall fuel i k p raw last,
      Inv (mkSR p (request_query c raw last)) -> Forall byte_ok last ->
      exists ts, loop_s sch host (serve_typed serve) cb_fail c fuel i k p raw last = Some ts /\
                 let t := loop serve resolve cb_fail c fuel i k (mkUrl p (typed_query raw)) last in
                 st_pages ts = t_pages t /\ st_out ts = t_out t /\ map typed_req (st_reqs ts) = t_reqs t.
Proof. exact loop_s_exact. Qed.
Print Assumptions C15_string_loop_exact.
