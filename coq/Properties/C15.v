(* C15 -- Listings return every item exactly once and never over-read metadata.
   Only statements closed by [exact]; the lemmas live in Proofs/Paging.v. *)
From Oras Require Import Base.Prelude Generated.GC15 Model.Paging Proofs.Paging.

(* parseLink returns exactly the text between '<' and the first '>' whatever follows *)
Theorem C15_parse_link :
  forall t rest, contains c_gt t = false ->
    parse_link (c_lt :: t ++ c_gt :: rest) = LTarget t.
Proof. exact parse_link_wellformed. Qed.
Print Assumptions C15_parse_link.
