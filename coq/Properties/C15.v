(* C15 -- Listings return every item exactly once and never over-read metadata.
   Only statements closed by [exact]; the lemmas live in Proofs/Paging.v.
   Constants (defaultMaxMetadataBytes, filter names) are Generated/GC15.v,
   re-translated from registry/remote on every run. *)
From Oras Require Import Base.Prelude Generated.GC15 Model.Paging Proofs.Paging.

(* parseLink returns exactly the text between '<' and the first '>' whatever follows *)
Theorem C15_parse_link :
  forall t rest, contains c_gt t = false ->
    parse_link (c_lt :: t ++ c_gt :: rest) = LTarget t.
Proof. exact parse_link_wellformed. Qed.
Print Assumptions C15_parse_link.

(* Tags / Repositories against any registry (any item list without duplicates, any split
   oracle [ds], any cap, any page size, any [last], any Link rendering that net/url
   resolves to the intended target): the loop ends without error, the concatenation of
   the callback arguments is exactly the registry's suffix after [last] -- each item
   once, in the registry's order -- within |suffix|+1 requests. *)
Theorem C15_exactly_once :
  forall (L : list item) (cap : nat) (ds : nat -> decision)
         (render : nat -> url -> url -> str) (trailer : nat -> str)
         (resolve : url -> str -> option url) (c : cfg) (path last0 : str) (fuel : nat),
    c_kind c <> KReferrers ->
    NoDup (map fst L) -> (forall it, In it L -> fst it <> []) ->
    (forall i base x, In x (map fst L) ->
       contains c_gt (render i base (link_target (ds i) base x)) = false) ->
    (forall i base x, In x (map fst L) ->
       resolve base (render i base (link_target (ds i) base x)) = Some (link_target (ds i) base x)) ->
    (forall i, (Z.of_N (d_doc_len (ds i)) <= eff_limit (c_limit c))%Z) ->
    (length (after last0 L) < fuel)%nat ->
    let t := loop (reg_serve (c_kind c) L cap ds render trailer) resolve (fun _ => false) c
                  fuel 0 0 (mkUrl path []) last0 in
    t_out t = Done /\
    concat (t_pages t) = after last0 L /\
    NoDup (map fst (concat (t_pages t))) /\
    (length (t_reqs t) <= S (length (after last0 L)))%nat.
Proof. exact listing_exactly_once. Qed.
Print Assumptions C15_exactly_once.

(* Referrers: the delivered referrers are exactly those of the requested artifact type
   (all of them when none is requested), once, in order, whether each page was filtered
   by the registry (announced by header, by annotation, or not announced) or not. *)
Theorem C15_filter :
  forall (L : list item) (cap : nat) (ds : nat -> decision)
         (render : nat -> url -> url -> str) (trailer : nat -> str)
         (resolve : url -> str -> option url) (c : cfg) (path : str) (fuel : nat),
    c_kind c = KReferrers ->
    NoDup (map fst L) -> (forall it, In it L -> fst it <> []) ->
    (forall i base x, In x (map fst L) ->
       contains c_gt (render i base (link_target (ds i) base x)) = false) ->
    (forall i base x, In x (map fst L) ->
       resolve base (render i base (link_target (ds i) base x)) = Some (link_target (ds i) base x)) ->
    (forall i, (Z.of_N (d_doc_len (ds i)) <= eff_limit (c_limit c))%Z) ->
    (forall i, qget k_at (d_extra (ds i)) = None) ->
    (length L < fuel)%nat ->
    let t := loop (reg_serve KReferrers L cap ds render trailer) resolve (fun _ => false) c
                  fuel 0 0 (mkUrl path (referrers_query (c_at c))) [] in
    t_out t = Done /\
    concat (t_pages t) = filter_referrers L (c_at c) /\
    (length (t_reqs t) <= S (length L))%nat.
Proof. exact referrers_exactly_once. Qed.
Print Assumptions C15_filter.

(* ---------- the hypotheses are satisfiable: a concrete registry and a toy net/url ---------- *)

Definition ex_L : list item := [(b "a", b "t1"); (b "b", b "t2"); (b "c", b "t1"); (b "d", b "t1")].
Definition ex_ds (i : nat) : decision :=
  mkDec (1 + Nat.modulo i 2) [(b "x", VS (b "1"))] (Nat.even i) [] (if Nat.even i then [] else b "foo,artifactType") 10 1.
(* link text = the cursor; the toy resolver rebuilds the target from it *)
Definition ex_render (i : nat) (base tgt : url) : str := qget_s k_last (u_query tgt).
Definition ex_resolve (base : url) (t : str) : option url := Some (link_target (ex_ds 0) base t).
Definition ex_cfg (k : kind) : cfg := mkCfg k 3 100 (b "t1").

Example C15_example_tags :
  let t := loop (reg_serve KTags ex_L 2 ex_ds ex_render (fun _ => b "; rel=""next""")) ex_resolve
                (fun _ => false) (ex_cfg KTags) 5 0 0 (mkUrl (b "/v2/r/tags/list") []) (b "a") in
  t_out t = Done /\ map fst (concat (t_pages t)) = [b "b"; b "c"; b "d"] /\ length (t_reqs t) = 2%nat.
Proof. vm_compute. repeat split. Qed.

Example C15_example_hypotheses :
  NoDup (map fst ex_L) /\ (forall it, In it ex_L -> fst it <> []) /\
  (forall i base x, In x (map fst ex_L) ->
     contains c_gt (ex_render i base (link_target (ex_ds i) base x)) = false) /\
  (forall i base x, In x (map fst ex_L) ->
     ex_resolve base (ex_render i base (link_target (ex_ds i) base x)) = Some (link_target (ex_ds i) base x)) /\
  (forall i, (Z.of_N (d_doc_len (ex_ds i)) <= eff_limit (c_limit (ex_cfg KTags)))%Z) /\
  (forall i, qget k_at (d_extra (ex_ds i)) = None).
Proof.
  split. { repeat constructor; simpl; intuition discriminate. }
  split. { simpl. intros it H. repeat (destruct H as [<-|H]; [discriminate|]). contradiction. }
  split. { intros i base x H. unfold ex_render, link_target, qget_s. cbn [u_query qget]. rewrite str_eqb_refl.
           simpl in H. repeat (destruct H as [<-|H]; [reflexivity|]). contradiction. }
  split. { intros i base x _. unfold ex_resolve, ex_render, link_target, qget_s. cbn [u_query qget].
           rewrite str_eqb_refl. reflexivity. }
  split. { intro i. vm_compute. discriminate. }
  intro i. reflexivity.
Qed.

Example C15_example_referrers :
  let t := loop (reg_serve KReferrers ex_L 2 ex_ds ex_render (fun _ => [])) ex_resolve
                (fun _ => false) (ex_cfg KReferrers) 6 0 0
                (mkUrl (b "/v2/r/referrers/d") (referrers_query (b "t1"))) [] in
  t_out t = Done /\ map fst (concat (t_pages t)) = [b "a"; b "c"; b "d"].
Proof. vm_compute. repeat split. Qed.
