(* C03 -- ExtendedCopy reaches every ancestor's graph; depth and filters bound it.
   Only statements closed by [exact]; the lemmas live in Proofs/FindRoots.v, the
   model of findRoots / FilterArtifactType / FilterAnnotation in Model/FindRoots.v.

   Vocabulary: [s_preds s x] is what the source's Predecessors serves for node x, in
   the served order (Go map order) -- every theorem quantifies over it.
   [find_preds s fs] is opts.FindPredecessors after the filter calls [fs];
   [anc s fs x a]: a is reachable from x through followed predecessors;
   [anc_steps s fs k x a]: in exactly k steps.  [acyclic_source]: content
   addressing (a predecessor embeds its successor's digest). *)
From Oras Require Import Base.Prelude Model.FindRoots Proofs.FindRoots.
From Oras Require Import Model.CopySpec Proofs.CopySpec Proofs.FindRootsCopy Proofs.FindRootsMem Proofs.FindRootsAll.
Local Open Scope nat_scope.

(* Depth <= 0 (any filter stack, in particular none: find_preds s [] = s_preds s):
   the roots are exactly the tops of the given node's upward closure, and every
   member of the upward closure lies under some root. *)
Theorem C03_roots_unlimited :
  forall (s : source) (fs : list filter) (rank : nat -> nat) (limit : Z) (node : desc)
         (fuel : nat) (roots : list desc),
    acyclic_source s rank -> (limit <= 0)%Z ->
    find_roots fuel s fs limit node = Some roots ->
    (forall r, In r roots -> anc s fs (d_id node) (d_id r) /\ find_preds s fs (d_id r) = []) /\
    (forall a, anc s fs (d_id node) a -> find_preds s fs a = [] -> In a (map d_id roots)) /\
    (forall a, anc s fs (d_id node) a -> exists r, In r roots /\ anc s fs a (d_id r)).
Proof. exact find_roots_unlimited. Qed.
Print Assumptions C03_roots_unlimited.

(* "no filter" is the empty stack: the followed relation is the source's own *)
Theorem C03_no_filter :
  forall (s : source) (x : nat), find_preds s [] x = s_preds s x.
Proof. exact find_preds_nil. Qed.
Print Assumptions C03_no_filter.

(* Depth = d > 0: every root is an ancestor at most d followed steps away (a top,
   or exactly d steps away), and the given node lies under some root. *)
Theorem C03_depth_bounds :
  forall (s : source) (fs : list filter) (rank : nat -> nat) (limit : Z) (node : desc)
         (fuel : nat) (roots : list desc),
    acyclic_source s rank -> (0 < limit)%Z ->
    find_roots fuel s fs limit node = Some roots ->
    (forall r, In r roots ->
       (exists k, Z.of_nat k <= limit /\ anc_steps s fs k (d_id node) (d_id r))%Z /\
       (find_preds s fs (d_id r) = [] \/ anc_steps s fs (Z.to_nat limit) (d_id node) (d_id r))) /\
    (exists r, In r roots /\ anc s fs (d_id node) (d_id r)).
Proof. exact find_roots_depth. Qed.
Print Assumptions C03_depth_bounds.

(* ... and for ANY Depth (in particular d = 1) every followed direct predecessor of the given node
   lies under a root: the two-sided bound is not exact further up (C03_depth_not_exact), but the
   direct predecessors / referrers are never lost *)
Theorem C03_direct_predecessors_covered :
  forall (s : source) (fs : list filter) (rank : nat -> nat) (limit : Z) (node : desc)
         (fuel : nat) (roots : list desc),
    acyclic_source s rank ->
    find_roots fuel s fs limit node = Some roots ->
    forall p, In p (find_preds s fs (d_id node)) -> exists r, In r roots /\ anc s fs (d_id p) (d_id r).
Proof. exact find_roots_direct_preds. Qed.
Print Assumptions C03_direct_predecessors_covered.

(* The loop terminates within the fuel the runner uses, on every finite source,
   for every depth, filter stack and served order (no acyclicity needed: the
   visited set bounds it). *)
Theorem C03_terminates :
  forall (s : source) (fs : list filter) (limit : Z) (node : desc) (n : nat),
    (forall x p, x < n -> In p (s_preds s x) -> d_id p < n) -> d_id node < n ->
    exists roots, find_roots (fuel_for s n) s fs limit node = Some roots.
Proof. exact find_roots_terminates. Qed.
Print Assumptions C03_terminates.

(* A caller may set opts.FindPredecessors itself.  The walk theorems hold for ANY such function
   (acyclic), and filters stacked on it follow exactly those of its predecessors whose manifest
   satisfies them. *)
Theorem C03_any_find_predecessors_unlimited :
  forall (fp : nat -> list desc) (rank : nat -> nat) (limit : Z) (node : desc) (fuel : nat) (roots : list desc),
    (forall x p, In p (fp x) -> rank x < rank (d_id p)) -> (limit <= 0)%Z ->
    find_roots_fp fuel fp limit node = Some roots ->
    (forall r, In r roots -> Proofs.FindRoots.reach fp (d_id node) (d_id r) /\ fp (d_id r) = []) /\
    (forall a, Proofs.FindRoots.reach fp (d_id node) a -> fp a = [] -> In a (map d_id roots)) /\
    (forall a, Proofs.FindRoots.reach fp (d_id node) a -> exists r, In r roots /\ Proofs.FindRoots.reach fp a (d_id r)).
Proof. exact find_roots_fp_unlimited. Qed.
Print Assumptions C03_any_find_predecessors_unlimited.

Theorem C03_any_find_predecessors_depth :
  forall (fp : nat -> list desc) (rank : nat -> nat) (limit : Z) (node : desc) (fuel : nat) (roots : list desc),
    (forall x p, In p (fp x) -> rank x < rank (d_id p)) -> (0 < limit)%Z ->
    find_roots_fp fuel fp limit node = Some roots ->
    (forall r, In r roots ->
       (exists k, Z.of_nat k <= limit /\ Proofs.FindRoots.path fp k (d_id node) (d_id r))%Z /\
       (fp (d_id r) = [] \/ Proofs.FindRoots.path fp (Z.to_nat limit) (d_id node) (d_id r))) /\
    (exists r, In r roots /\ Proofs.FindRoots.reach fp (d_id node) (d_id r)).
Proof. exact find_roots_fp_depth. Qed.
Print Assumptions C03_any_find_predecessors_depth.

Theorem C03_custom_filter_exact :
  forall (s : source) (custom : nat -> list desc) (fs : list filter) (x : nat),
    Forall (desc_consistent s) (custom x) ->
    map d_id (find_preds_custom s custom fs x) =
    List.filter (fun id => forallb (fun f => keep_spec s f id) fs) (map d_id (custom x)).
Proof. exact find_preds_custom_exact. Qed.
Print Assumptions C03_custom_filter_exact.

(* Depth <= 0: the SET of roots does not depend on how the source happens to serve its
   predecessors (order, multiplicity, which optional descriptor fields are present) -- fresh or
   reopened store, any Go map order. *)
Theorem C03_roots_order_independent :
  forall (s1 s2 : source) (fs : list filter) (rank1 rank2 : nat -> nat) (limit : Z) (node : desc)
         (fuel1 fuel2 : nat) (roots1 roots2 : list desc),
    (forall x y, In y (map d_id (s_preds s1 x)) <-> In y (map d_id (s_preds s2 x))) ->
    (forall f y, keep_spec s1 f y = keep_spec s2 f y) ->
    all_served_ok s1 -> all_served_ok s2 ->
    acyclic_source s1 rank1 -> acyclic_source s2 rank2 -> (limit <= 0)%Z ->
    find_roots fuel1 s1 fs limit node = Some roots1 ->
    find_roots fuel2 s2 fs limit node = Some roots2 ->
    forall a, In a (map d_id roots1) <-> In a (map d_id roots2).
Proof. exact roots_unlimited_order_independent. Qed.
Print Assumptions C03_roots_order_independent.

(* The call sequence (an intermediate observable compared with the implementation on every
   case): the logging loop returns the same roots, and opts.FindPredecessors is called at most
   once per node. *)
Theorem C03_calls_once :
  forall (fuel : nat) (s : source) (fs : list filter) (limit : Z) (node : desc) (roots : list desc) (calls : list nat),
    find_roots_log fuel s fs limit node = Some (roots, calls) ->
    find_roots fuel s fs limit node = Some roots /\ NoDup calls.
Proof. exact find_roots_log_spec. Qed.
Print Assumptions C03_calls_once.

(* The extracted runner executes the loop with the depth arithmetic re-read from findRoots by
   the translator (start depth, stop condition, pushed depth); it is the proved loop. *)
Theorem C03_runner_is_model :
  forall (fuel : nat) (s : source) (fs : list filter) (limit : Z) (node : desc),
    find_roots_run fuel (find_preds s fs) limit node = find_roots_log fuel s fs limit node.
Proof. exact find_roots_run_eq. Qed.
Print Assumptions C03_runner_is_model.

(* likewise the filters: the runner executes them with the keep closures and fetch guards
   re-read from FilterAnnotation / FilterArtifactType *)
Theorem C03_runner_filters_are_model :
  forall (s : source) (fs : list filter) (x : nat),
    find_preds_g s fs x = find_preds s fs x /\
    forall custom, find_preds_custom_g s custom fs x = find_preds_custom s custom fs x.
Proof. exact (fun s fs x => conj (find_preds_g_eq s fs x) (fun c => find_preds_custom_g_eq s c fs x)). Qed.
Print Assumptions C03_runner_filters_are_model.

(* Failing source operations (Predecessors / Referrers / the Fetch of a missing field), any
   position k of the armed fault: when findRoots nevertheless succeeds, its result is the
   fault-free one -- no error is swallowed into a partial predecessor list or root set; so
   every theorem above applies to every successful call.  Without a fault the error-aware
   model is the plain one. *)
Theorem C03_errors_surface :
  forall (fuel : nat) (s : source) (fs : list filter) (limit : Z) (node : desc) (k : nat) (roots : list desc),
    find_roots_e fuel s fs limit node k = ROk roots -> find_roots fuel s fs limit node = Some roots.
Proof. exact find_roots_e_success. Qed.
Print Assumptions C03_errors_surface.

(* the same below a caller-supplied FindPredecessors (its own call into the source is the first
   operation, every filter fetch follows) *)
Theorem C03_errors_surface_custom :
  forall (fuel : nat) (s : source) (custom : nat -> list desc) (fs : list filter) (limit : Z)
         (node : desc) (k : nat) (roots : list desc),
    find_roots_custom_e fuel s custom fs limit node k = ROk roots ->
    find_roots_fp fuel (find_preds_custom s custom fs) limit node = Some roots.
Proof. exact find_roots_custom_e_success. Qed.
Print Assumptions C03_errors_surface_custom.

(* totality: with the runner's fuel the error-aware findRoots ends with a root set or an error,
   for every armed fault, on every finite source *)
Theorem C03_errors_total :
  forall (s : source) (fs : list filter) (limit : Z) (node : desc) (n k : nat),
    (forall x p, x < n -> In p (s_preds s x) -> d_id p < n) -> d_id node < n ->
    find_roots_e (fuel_for s n) s fs limit node k <> RFuel.
Proof. exact find_roots_e_total. Qed.
Print Assumptions C03_errors_total.

Theorem C03_no_fault_agrees :
  forall (fuel : nat) (s : source) (fs : list filter) (limit : Z) (node : desc),
    find_roots_e fuel s fs limit node 0 =
    match find_roots fuel s fs limit node with Some roots => ROk roots | None => RFuel end.
Proof. exact find_roots_e_nofault. Qed.
Print Assumptions C03_no_fault_agrees.

(* a reached fault is an error: e.g. the very first operation *)
Theorem C03_first_operation_fails :
  forall (fuel : nat) (s : source) (fs : list filter) (limit : Z) (node : desc),
    (limit <= 0)%Z -> find_roots_e (S fuel) s fs limit node 1 = RErr.
Proof. exact find_roots_e_first_op. Qed.
Print Assumptions C03_first_operation_fails.

(* Filters: whatever descriptors the source serves ([served_ok]: fields present or
   missing, as long as present fields are the manifest's; complete when the source
   is a ReferrerLister, whose first filter does not fetch), a predecessor is followed exactly
   when its manifest's artifact type (artifactType, else config media type) /
   annotation value satisfies every filter; order and multiplicity preserved. *)
Theorem C03_filter_exact :
  forall (s : source) (fs : list filter) (x : nat),
    Forall (served_ok s) (s_preds s x) ->
    map d_id (find_preds s fs x) =
    List.filter (fun id => forallb (fun f => keep_spec s f id) fs) (map d_id (s_preds s x)).
Proof. exact find_preds_exact. Qed.
Print Assumptions C03_filter_exact.

(* no hypothesis on the descriptors is left for a store that serves plain descriptors (a reloaded
   OCI layout since fix fda86b1; the harness asserts it on every reopened source) *)
Theorem C03_filter_exact_plain :
  forall (s : source) (fs : list filter) (x : nat),
    s_lister s = false -> Forall plain_desc (s_preds s x) ->
    map d_id (find_preds s fs x) =
    List.filter (fun id => forallb (fun f => keep_spec s f id) fs) (map d_id (s_preds s x)).
Proof. exact find_preds_exact_plain. Qed.
Print Assumptions C03_filter_exact_plain.

Theorem C03_filter_followed_iff :
  forall (s : source) (fs : list filter) (x y : nat),
    Forall (served_ok s) (s_preds s x) ->
    (In y (map d_id (find_preds s fs x)) <->
     In y (map d_id (s_preds s x)) /\ forall f, In f fs -> keep_spec s f y = true).
Proof. exact find_preds_followed_iff. Qed.
Print Assumptions C03_filter_followed_iff.

(* The same in terms of manifest content only (filters composed with the walk):
   [followed_spec s fs x y]: the source lists y as a predecessor of x and y's manifest (artifact
   type = artifactType, else config media type; annotations) satisfies every filter;
   [anc_spec] its reflexive-transitive closure, [rpath] its k-step paths. *)
Theorem C03_roots_unlimited_by_content :
  forall (s : source) (fs : list filter) (rank : nat -> nat) (limit : Z) (node : desc)
         (fuel : nat) (roots : list desc),
    all_served_ok s -> acyclic_source s rank -> (limit <= 0)%Z ->
    find_roots fuel s fs limit node = Some roots ->
    (forall r, In r roots ->
       anc_spec s fs (d_id node) (d_id r) /\ forall y, ~ followed_spec s fs (d_id r) y) /\
    (forall a, anc_spec s fs (d_id node) a -> (forall y, ~ followed_spec s fs a y) -> In a (map d_id roots)) /\
    (forall a, anc_spec s fs (d_id node) a -> exists r, In r roots /\ anc_spec s fs a (d_id r)).
Proof. exact find_roots_unlimited_by_content. Qed.
Print Assumptions C03_roots_unlimited_by_content.

Theorem C03_depth_bounds_by_content :
  forall (s : source) (fs : list filter) (rank : nat -> nat) (limit : Z) (node : desc)
         (fuel : nat) (roots : list desc),
    all_served_ok s -> acyclic_source s rank -> (0 < limit)%Z ->
    find_roots fuel s fs limit node = Some roots ->
    (forall r, In r roots ->
       exists k, (Z.of_nat k <= limit)%Z /\ rpath (followed_spec s fs) k (d_id node) (d_id r)) /\
    (exists r, In r roots /\ anc_spec s fs (d_id node) (d_id r)).
Proof. exact find_roots_depth_by_content. Qed.
Print Assumptions C03_depth_bounds_by_content.

(* Sources backed by graph.Memory (memory, OCI layout, file store): composed with C07's theorem
   (Predecessors is exact after every history of Index / Remove / IndexAll), the walk is a walk
   over the LINKS of the stored content.  [backed_by s gm]: the store serves graph.Memory's
   predecessor sets; [followed_links]: y is stored, its content links to x (subject, config, layer,
   manifest, blob) and its manifest satisfies the filters; [content_acyclic]: content addressing.
   No source-level acyclicity or inverse-link hypothesis is left. *)
Theorem C03_roots_unlimited_memory_backed :
  forall (ct : GM.amap) (fuelm : nat) (ops : list GM.op) (s : source) (fs : list filter)
         (rank : GM.node -> nat) (limit : Z) (node : desc) (fuel : nat) (roots : list desc),
    let gm := GM.s_g (fst (GM.run ct fuelm GM.init_state ops)) in
    let R := followed_links (GM.ctab ct) gm s fs in
    let up a c := exists k, rpath R k a c in
    backed_by s gm -> all_served_ok s -> content_acyclic (GM.ctab ct) rank -> (limit <= 0)%Z ->
    find_roots fuel s fs limit node = Some roots ->
    (forall r, In r roots -> up (d_id node) (d_id r) /\ forall y, ~ R (d_id r) y) /\
    (forall a, up (d_id node) a -> (forall y, ~ R a y) -> In a (map d_id roots)) /\
    (forall a, up (d_id node) a -> exists r, In r roots /\ up a (d_id r)).
Proof. exact roots_unlimited_memory_backed. Qed.
Print Assumptions C03_roots_unlimited_memory_backed.

Theorem C03_memory_backed_inverse_link :
  forall (ct : GM.amap) (fuelm : nat) (ops : list GM.op) (s : source),
    let gm := GM.s_g (fst (GM.run ct fuelm GM.init_state ops)) in
    backed_by s gm ->
    forall x p, In p (s_preds s x) -> In (N.of_nat x) (GM.ctab ct (N.of_nat (d_id p))).
Proof. exact backed_pred_is_inverse_link. Qed.
Print Assumptions C03_memory_backed_inverse_link.

Example C03_ex_memory_backed :
  backed_by src_mem_two (GM.s_g (fst (GM.run ct_two 10 GM.init_state ops_two))) /\
  all_served_ok src_mem_two /\
  content_acyclic (GM.ctab ct_two) N.to_nat /\
  find_roots (fuel_for src_mem_two 3) src_mem_two [] 0%Z (mkDesc 0 [] None)
    = Some [mkDesc 2 [] None; mkDesc 1 [] None].
Proof. exact ex_backed. Qed.

(* The pinned source (before the fix: commit c24ca78 of the repository branch)
   violated it: fetchArtifactType answered with the config media type of an image
   manifest that declares artifactType (defect F9). *)
Theorem C03_filter_exact_refuted_prefix :
  exists (s : source) (re : str -> bool) (x : nat),
    Forall (served_ok s) (s_preds s x) /\
    map d_id (find_preds_prefix s [FArt (Some re)] x) <>
    List.filter (fun id => re (effective_type s id)) (map d_id (s_preds s x)).
Proof. exact find_preds_prefix_refuted. Qed.
Print Assumptions C03_filter_exact_refuted_prefix.

(* [served_ok] cannot be dropped: a served descriptor that carries fields which are not the
   manifest's (the annotations / artifactType of the index entry that points to it -- what a
   reloaded OCI layout served before fix fda86b1, audit F1) is judged on those fields; the
   annotation filter follows a manifest without annotations, the type filter drops a manifest
   whose effective type matches. *)
Theorem C03_filter_exact_refuted_embedded :
  let keyf := [FAnn (b "vnd.docker.reference.type") None] in
  let typf := [FArt (Some (str_eqb (b "application/vnd.oci.image.config.v1+json")))] in
  ~ Forall (served_ok embedded_source) (s_preds embedded_source 0) /\
  map d_id (find_preds embedded_source keyf 0) = [1] /\
  List.filter (fun id => forallb (fun f => keep_spec embedded_source f id) keyf)
              (map d_id (s_preds embedded_source 0)) = [] /\
  map d_id (find_preds embedded_source typf 0) = [] /\
  List.filter (fun id => forallb (fun f => keep_spec embedded_source f id) typf)
              (map d_id (s_preds embedded_source 0)) = [1].
Proof. exact filter_exact_refuted_embedded. Qed.
Print Assumptions C03_filter_exact_refuted_embedded.

(* End to end, general form (any link relation, any "held" predicate).  [succ] is the link relation, [down succ a x]: x is reachable from a
   through links, [held x]: the destination holds x byte-identical after return.
   The copy phase is C01's subject: its closure fact is the hypothesis
   [copy_closure_C01] (each root's graph arrives). *)
Section ExtendedClosure.
  Variable s : source.
  Variable fs : list filter.
  Variable limit : Z.
  Variable node : desc.
  Variable succ : nat -> list nat.
  Variable held : nat -> Prop.
  Variable rank : nat -> nat.
  Variable fuel : nat.
  Variable roots : list desc.
  Hypothesis source_acyclic : acyclic_source s rank.
  Hypothesis pred_is_inverse_link : forall x p, In p (s_preds s x) -> In x (succ (d_id p)).
  Hypothesis roots_found : find_roots fuel s fs limit node = Some roots.
  Hypothesis copy_closure_C01 : forall r, In r roots -> forall x, down succ (d_id r) x -> held x.

  (* unlimited depth: the destination holds the graph of every member of the
     given node's (filtered) upward closure *)
  Theorem C03_extended_closure_gen :
    (limit <= 0)%Z ->
    forall a, anc s fs (d_id node) a -> forall x, down succ a x -> held x.
  Proof.
    exact (fun Hl => extended_closure_gen s fs limit node succ pred_is_inverse_link held rank fuel roots
                       source_acyclic Hl roots_found copy_closure_C01).
  Qed.

  (* any depth: the given node's own graph is held *)
  Theorem C03_depth_own_graph_gen :
    forall x, down succ (d_id node) x -> held x.
  Proof.
    exact (depth_own_graph s fs limit node succ pred_is_inverse_link held rank fuel roots
             source_acyclic roots_found copy_closure_C01).
  Qed.

  (* Depth = d: nothing new outside the graphs of ancestors at most d steps away,
     given that the copy phase writes only below roots (C01's other half) *)
  Variable initially : nat -> Prop.
  Hypothesis copy_only_C01 :
    forall x, held x -> initially x \/ exists r, In r roots /\ down succ (d_id r) x.

  Theorem C03_depth_nothing_outside_gen :
    (0 < limit)%Z ->
    forall x, held x ->
      initially x \/
      exists a k, (Z.of_nat k <= limit)%Z /\ anc_steps s fs k (d_id node) a /\ down succ a x.
  Proof.
    exact (fun Hl => depth_upper s fs rank limit node succ held initially fuel roots
                       source_acyclic Hl roots_found copy_only_C01).
  Qed.
End ExtendedClosure.
Print Assumptions C03_extended_closure_gen.
Print Assumptions C03_depth_own_graph_gen.
Print Assumptions C03_depth_nothing_outside_gen.

(* End to end with C01's transition system (Model/CopySpec.v) in the place of the Section
   hypotheses: [g] is C01's content universe, [reach g] its link reachability (foreign layers
   cut), [has g final x]: the final destination holds x.
   [extended_copy_run g final roots]: the copy phase of ExtendedCopyGraph is ONE accepted run of
   the copyGraph transition system in which every root found is dispatched (c_root = one root,
   c_xroots = the others: one syncutil.Go, shared tracker, proxy and limiter), that returned
   success from a link-closed destination and whose destination content is part of the final
   destination.  Quantifying over the accepted trace quantifies over every interleaving of the
   roots' visible events for every Concurrency.  C01's invariants give closure below every root. *)
Theorem C03_extended_closure :
  forall (s : source) (fs : list filter) (limit : Z) (nd : desc) (rank : nat -> nat)
         (fuel : nat) (roots : list desc) (g : graph) (final : list node),
    acyclic_source s rank ->
    (forall x p, In p (s_preds s x) -> In x (succ' g (d_id p))) ->
    mt_consistent g ->
    find_roots fuel s fs limit nd = Some roots ->
    extended_copy_run g final roots ->
    (limit <= 0)%Z ->
    forall a, anc s fs (d_id nd) a ->
    forall x, Proofs.CopySpec.reach g a x -> has g final x = true.
Proof. exact extended_closure_C01. Qed.
Print Assumptions C03_extended_closure.

(* any Depth: the given node's own graph is held *)
Theorem C03_depth_own_graph :
  forall (s : source) (fs : list filter) (limit : Z) (nd : desc) (rank : nat -> nat)
         (fuel : nat) (roots : list desc) (g : graph) (final : list node),
    acyclic_source s rank ->
    (forall x p, In p (s_preds s x) -> In x (succ' g (d_id p))) ->
    mt_consistent g ->
    find_roots fuel s fs limit nd = Some roots ->
    extended_copy_run g final roots ->
    forall x, Proofs.CopySpec.reach g (d_id nd) x -> has g final x = true.
Proof. exact depth_own_graph_C01. Qed.
Print Assumptions C03_depth_own_graph.

(* Depth = d: nothing new outside the graphs of ancestors at most d steps away -- for every run
   (successful or not, any prefix) of the copy phase that dispatches only roots that findRoots
   returned; [d0] is what the destination held before *)
Theorem C03_depth_nothing_outside :
  forall (s : source) (fs : list filter) (limit : Z) (nd : desc) (rank : nat -> nat)
         (fuel : nat) (roots : list desc) (g : graph) (d0 final : list node),
    acyclic_source s rank -> (0 < limit)%Z ->
    find_roots fuel s fs limit nd = Some roots ->
    extended_copy_run_only g d0 final roots ->
    forall x, In x final ->
      In x d0 \/
      exists a k, (Z.of_nat k <= limit)%Z /\ anc_steps s fs k (d_id nd) a /\ Proofs.CopySpec.reach g a x.
Proof. exact depth_nothing_outside_C01. Qed.
Print Assumptions C03_depth_nothing_outside.

(* any Depth, any filter: nothing new outside the graphs of the followed ancestors *)
Theorem C03_nothing_outside :
  forall (s : source) (fs : list filter) (limit : Z) (nd : desc) (rank : nat -> nat)
         (fuel : nat) (roots : list desc) (g : graph) (d0 final : list node),
    acyclic_source s rank ->
    find_roots fuel s fs limit nd = Some roots ->
    extended_copy_run_only g d0 final roots ->
    forall x, In x final ->
      In x d0 \/ exists a, anc s fs (d_id nd) a /\ Proofs.CopySpec.reach g a x.
Proof. exact nothing_outside_C01. Qed.
Print Assumptions C03_nothing_outside.

(* satisfiable with two roots sharing a child (blob 0 <- manifests 1, 2): one accepted run,
   Concurrency 2, the two roots' events interleaved, the shared blob copied once *)
Example C03_ex_two_roots :
  acyclic_source src_two (fun x => x) /\
  (forall x p, In p (s_preds src_two x) -> In x (succ' g_two (d_id p))) /\
  mt_consistent g_two /\
  find_roots (fuel_for src_two 3) src_two [] 0%Z (mkDesc 0 [] None)
    = Some [mkDesc 2 [] None; mkDesc 1 [] None] /\
  extended_copy_run g_two [1; 2; 0] [mkDesc 2 [] None; mkDesc 1 [] None].
Proof. exact ex_two_roots. Qed.

Example C03_ex_two_roots_only :
  extended_copy_run_only g_two [] [1; 2; 0] [mkDesc 2 [] None; mkDesc 1 [] None].
Proof. exact ex_two_roots_only. Qed.

(* THE PROPERTY's first sentence for sources backed by graph.Memory (memory, OCI layout, file
   store), composed from C07 (Predecessors exact after EVERY history [ops] of Index / Remove /
   IndexAll), this property's walk, and C01's copy transition system: after a successful
   ExtendedCopyGraph with unlimited depth and no filter the destination holds every node [x]
   reachable through links from any stored node [a] that reaches the given node through links
   ([up_links]: paths over "y is stored and its content links to x").  Left as hypotheses: the
   store serves graph.Memory's sets ([backed_by], checked by the harness on every case), both
   models mean the same content.Successors ([links_agree]), content addressing, C01's
   mt_consistent, and that the real copy phase is an accepted run ([extended_copy_run]). *)
Theorem C03_property_unlimited_memory_backed :
  forall (ct : GM.amap) (fuelm : nat) (ops : list GM.op) (s : source) (g : graph) (nd : desc)
         (final : list node),
    backed_by s (GM.s_g (fst (GM.run ct fuelm GM.init_state ops))) ->
    (forall p x, In (N.of_nat x) (GM.ctab ct (N.of_nat p)) <-> In x (g_succ g p)) ->
    (forall a, anc s [] (d_id nd) a -> g_foreign g a = false) ->
    forall (rank : GM.node -> nat) (limit : Z) (fuel : nat) (roots : list desc),
    content_acyclic (GM.ctab ct) rank -> mt_consistent g -> (limit <= 0)%Z ->
    find_roots fuel s [] limit nd = Some roots ->
    extended_copy_run g final roots ->
    forall a, up_links ct fuelm ops (d_id nd) a ->
    forall x, Proofs.CopySpec.reach g a x -> has g final x = true.
Proof. exact property_unlimited. Qed.
Print Assumptions C03_property_unlimited_memory_backed.

(* ... its second sentence, Depth = d > 0: the given node's own graph is held, and nothing new
   lies outside the graphs of stored nodes at most d link steps above the given node
   ([extended_copy_run_only]: the copy phase dispatched only roots that findRoots returned;
   d0 = what the destination held before) *)
Theorem C03_property_depth_memory_backed :
  forall (ct : GM.amap) (fuelm : nat) (ops : list GM.op) (s : source) (g : graph) (nd : desc)
         (d0 final : list node),
    backed_by s (GM.s_g (fst (GM.run ct fuelm GM.init_state ops))) ->
    (forall p x, In (N.of_nat x) (GM.ctab ct (N.of_nat p)) <-> In x (g_succ g p)) ->
    (forall a, anc s [] (d_id nd) a -> g_foreign g a = false) ->
    forall (rank : GM.node -> nat) (limit : Z) (fuel : nat) (roots : list desc),
    content_acyclic (GM.ctab ct) rank -> mt_consistent g -> (0 < limit)%Z ->
    find_roots fuel s [] limit nd = Some roots ->
    extended_copy_run g final roots -> extended_copy_run_only g d0 final roots ->
    (forall x, Proofs.CopySpec.reach g (d_id nd) x -> has g final x = true) /\
    (forall x, In x final ->
       In x d0 \/
       exists a k, (Z.of_nat k <= limit)%Z /\
         rpath (link_up (GM.ctab ct) (GM.s_g (fst (GM.run ct fuelm GM.init_state ops)))) k (d_id nd) a /\
         Proofs.CopySpec.reach g a x).
Proof. exact property_depth. Qed.
Print Assumptions C03_property_depth_memory_backed.

(* ... and with filters (unlimited depth): everything below every stored node that reaches the
   given node through links whose manifests satisfy the filters *)
Theorem C03_property_filtered_memory_backed :
  forall (ct : GM.amap) (fuelm : nat) (ops : list GM.op) (s : source) (fs : list filter) (g : graph)
         (nd : desc) (final : list node),
    backed_by s (GM.s_g (fst (GM.run ct fuelm GM.init_state ops))) -> all_served_ok s ->
    (forall p x, In (N.of_nat x) (GM.ctab ct (N.of_nat p)) <-> In x (g_succ g p)) ->
    (forall a, anc s fs (d_id nd) a -> g_foreign g a = false) ->
    forall (rank : GM.node -> nat) (limit : Z) (fuel : nat) (roots : list desc),
    content_acyclic (GM.ctab ct) rank -> mt_consistent g -> (limit <= 0)%Z ->
    find_roots fuel s fs limit nd = Some roots ->
    extended_copy_run g final roots ->
    forall a, (exists k, rpath (followed_links (GM.ctab ct) (GM.s_g (fst (GM.run ct fuelm GM.init_state ops))) s fs)
                               k (d_id nd) a) ->
    forall x, Proofs.CopySpec.reach g a x -> has g final x = true.
Proof. exact property_filtered. Qed.
Print Assumptions C03_property_filtered_memory_backed.

Example C03_ex_property_all :
  forall a, up_links ct_two 10 ops_two (d_id (mkDesc 0 [] None)) a ->
  forall x, Proofs.CopySpec.reach g_two a x -> has g_two [1; 2; 0] x = true.
Proof. exact ex_property_all. Qed.

(* ExtendedCopy = Resolve; ExtendedCopyGraph; Tag: on success the destination
   reference (source reference when left blank) names the given node *)
Theorem C03_tagged :
  forall resolve ok tag_ok src_ref dst_ref tags node tags',
    extended_copy resolve ok tag_ok src_ref dst_ref tags = Some (node, tags') ->
    resolve src_ref = Some node /\ ok node = true /\
    resolve_tag (if is_empty dst_ref then src_ref else dst_ref) tags' = Some (d_id node).
Proof. exact extended_copy_tags. Qed.
Print Assumptions C03_tagged.

(* ... and when it fails, the error is that of the first failing step, in the order Resolve
   (source), FindPredecessors (source), copy of the roots, Tag (destination) *)
Theorem C03_error_origin :
  forall resolve roots_ok copy_ok tag_ok src_ref dst_ref tags,
    match extended_copy_x resolve roots_ok copy_ok tag_ok src_ref dst_ref tags with
    | XOk node tags' =>
        extended_copy resolve (fun _ => (roots_ok && copy_ok)%bool) tag_ok src_ref dst_ref tags = Some (node, tags')
    | XErr op =>
        extended_copy resolve (fun _ => (roots_ok && copy_ok)%bool) tag_ok src_ref dst_ref tags = None /\
        match op with
        | OpResolve => resolve src_ref = None
        | OpFindPredecessors => resolve src_ref <> None /\ roots_ok = false
        | OpCopy => resolve src_ref <> None /\ roots_ok = true /\ copy_ok = false
        | OpTag => resolve src_ref <> None /\ roots_ok = true /\ copy_ok = true /\ tag_ok = false
        end
    end.
Proof. exact extended_copy_x_spec. Qed.
Print Assumptions C03_error_origin.

(* ---- the hypotheses are satisfiable; concrete runs of the model ----
   (sources ex_source, ex_remote, diamond_source: Proofs/FindRoots.v) *)

Example C03_ex_acyclic : acyclic_source ex_source (fun x => x).
Proof. exact ex_acyclic. Qed.

Example C03_ex_consistent : forall x, Forall (served_ok ex_source) (s_preds ex_source x).
Proof. exact ex_served_ok. Qed.

Example C03_ex_all_served_ok : all_served_ok ex_source.
Proof. exact ex_all_served_ok. Qed.

(* a ReferrerLister source (remote repository) serving complete referrer descriptors *)
Example C03_ex_remote_ok : forall x, Forall (served_ok ex_remote) (s_preds ex_remote x).
Proof. exact ex_remote_served_ok. Qed.

Example C03_ex_remote_filter :
  map d_id (find_preds ex_remote [FAnn (b "k") None; FArt (Some (str_eqb (b "sbom")))] 1) = [2] /\
  map d_id (find_preds ex_remote [FArt (Some (str_eqb (b "sig")))] 1) = [4].
Proof. vm_compute. split; reflexivity. Qed.

(* unlimited, no filter: the two tops 2 and 4 *)
Example C03_ex_unlimited :
  option_map (map d_id) (find_roots (fuel_for ex_source 5) ex_source [] 0%Z ex_node) = Some [4; 2].
Proof. vm_compute. reflexivity. Qed.

(* depth 2: the index 3 stands in for its referrer 4 *)
Example C03_ex_depth2 :
  option_map (map d_id) (find_roots (fuel_for ex_source 5) ex_source [] 2%Z ex_node) = Some [3; 2].
Proof. vm_compute. reflexivity. Qed.

(* artifact-type filter "sbom" while walking from the image: only the artifact referrer is followed *)
Example C03_ex_filter :
  option_map (map d_id)
    (find_roots (fuel_for ex_source 5) ex_source [FArt (Some (str_eqb (b "sbom")))] 0%Z (mkDesc 1 [] None))
  = Some [2].
Proof. vm_compute. reflexivity. Qed.

(* the bound of C03_depth_bounds is two-sided, not exact: with Depth = 2 on the
   diamond the DFS reaches node 1 first at depth 2 (through 2) and stops there, so
   node 3 -- two steps away through 0 <- 1 <- 3 -- is under no root *)
Example C03_depth_not_exact :
  option_map (map d_id) (find_roots (fuel_for diamond_source 4) diamond_source [] 2%Z (mkDesc 0 [] None))
    = Some [1] /\
  anc_steps diamond_source [] 2 0 3.
Proof. exact diamond_depth_not_exact. Qed.

Example C03_ex_tagged :
  extended_copy (fun r => if str_eqb r (b "v1") then Some ex_node else None) (fun _ => true) true
                (b "v1") [] [] = Some (ex_node, [(b "v1", 0)]).
Proof. vm_compute. reflexivity. Qed.
