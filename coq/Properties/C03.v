From Oras Require Import Base.Prelude Model.FindRoots Proofs.FindRoots.
Theorem C03_stub : True. Proof. exact stub_true. Qed.
Print Assumptions C03_stub.
