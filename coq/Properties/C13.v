(* C13 -- A remote Repository is a faithful, spec-conforming view of the registry.
   Only statements closed by [exact]; lemmas live in Proofs/Remote*.v.
   Models: Model/Registry.v (distribution-spec registry + request grammar),
   Model/RemoteClient.v (registry/remote client + readSeekCloser),
   Model/RemoteSpec.v (the specifications). *)
From Oras Require Import Base.Prelude Base.Regex Generated.GC20 Generated.GC13 Model.Reference
  Model.Registry Model.RemoteClient Model.RemoteSpec
  Model.Location Proofs.Reference Proofs.RemoteClient Proofs.RemoteSeek Proofs.RemoteRefine Proofs.Location Proofs.RemotePaged
  Model.RefOps Proofs.RefURL Proofs.RemoteURL.

(* ------------------------------------------------------------------ *)
(* Refinement: the client run against the registry model behaves as the content store
   with tags [spec_run] (Model/RemoteSpec.v): for EVERY history of Push / Fetch / Exists /
   Delete / Resolve / FetchReference / Tag / PushReference / Mount / Predecessors /
   blob Resolve / blob FetchReference, EVERY capability profile [p] (digest headers, range support,
   Content-Length on GET, mounting, Referrers API), every ManifestMediaTypes option,
   every initial referrers state and any hash function producing well-formed digests:
   the results are those of the store and the registry's final content is the store's.

   Predecessors returns the stored manifests whose subject is the given descriptor.

   [_partial]: hypotheses [wf_hist], [rst_ok] (Model/RemoteSpec.v) -- descriptors are
   accurate for what the store holds, manifests are decodable and a subject is pushed only
   to a registry with the Referrers API (client-side referrers tag schema: C14), the
   referrers state is "unsupported" only against a registry without the API, and the
   excluded mechanism of the known finding
   head-tag-no-digest-header: a tag is resolved by HEAD only against a registry that
   sends Docker-Content-Digest.  [C13_refines_store_refuted] is the witness that the
   statement is false without that last hypothesis. *)
Theorem C13_refines_store_partial :
  forall (H : str -> str) (parse_mt : str -> option str) (subject_of : str -> option (option desc))
         (main other : str) (user_mts : list str) (limit : N) (skip_gc : bool)
         (index_of : str -> option (list desc)) (p : profile),
    str_eqb main other = false ->
    parse_mt ct_octet = Some ct_octet ->
    (forall c, valid_digest (H c) = true) ->
    forall other_blobs rst os g out,
      (forall d c, lookup d other_blobs = Some c -> d = H c) ->
      rst_ok p rst ->
      wf_hist H parse_mt subject_of main user_mts limit p (mkStore [] [] [] other_blobs) os ->
      run_history H parse_mt subject_of main other user_mts limit skip_gc index_of p None other_blobs rst os = (g, out) ->
      map snd out = snd (spec_run H subject_of main user_mts (mkStore [] [] [] other_blobs) os) /\
      store_of g = fst (spec_run H subject_of main user_mts (mkStore [] [] [] other_blobs) os).
Proof. exact run_history_refines. Qed.
Print Assumptions C13_refines_store_partial.

(* without the digest-header hypothesis the full statement is false (finding
   head-tag-no-digest-header): PushReference under a tag succeeds, Resolve of the tag fails *)
Theorem C13_refines_store_refuted :
  map snd (snd (run_history w_H (fun s => Some s) (fun _ => Some None) (b "app") (b "src") [] w_limit false w_index_of
                            w_profile None [] RSUnknown w_ops))
  = [ROk; RErr EOther] /\
  snd (spec_run w_H (fun _ => Some None) (b "app") [] (mkStore [] [] [] []) w_ops) = [ROk; RDesc w_desc].
Proof. exact resolve_tag_without_digest_header_refuted. Qed.
Print Assumptions C13_refines_store_refuted.

(* The excluded hypothesis is exactly the failing mechanism, in EVERY registry state: a tag
   that exists, resolved by HEAD (Resolve; FetchReference when the GET has no
   Content-Length) against a registry that sends no Docker-Content-Digest, fails although
   the store resolves it.  All other (profile, operation) combinations are inside
   C13_refines_store_partial -- [wf_op] puts no other condition on the profile. *)
Theorem C13_resolve_tag_needs_header :
  forall (H : str -> str) (parse_mt : str -> option str) (subject_of : str -> option (option desc))
         (main other : str) (user_mts : list str) (limit : N) (skip_gc : bool)
         (index_of : str -> option (list desc)) (p : profile) g n rst rs rf d mt c,
    resolve_ref main rs = Some rf -> valid_digest rf = false ->
    man_lookup (store_of g) rf = Some (d, (mt, c)) -> p_dighdr p = false ->
    snd (run_op H parse_mt subject_of main other user_mts limit skip_gc index_of (reg * N)
                (cexch H subject_of main other p None) (g, n) rst (OResolve rs)) = RErr EOther /\
    snd (spec_op H subject_of main user_mts (store_of g) (OResolve rs)) = RDesc (mkDesc mt d (len c)).
Proof. exact resolve_tag_needs_header. Qed.
Print Assumptions C13_resolve_tag_needs_header.

Theorem C13_fetchref_tag_needs_header :
  forall (H : str -> str) (parse_mt : str -> option str) (subject_of : str -> option (option desc))
         (main other : str) (user_mts : list str) (limit : N) (skip_gc : bool)
         (index_of : str -> option (list desc)) (p : profile) g n rst rs rf d mt c,
    resolve_ref main rs = Some rf -> valid_digest rf = false ->
    man_lookup (store_of g) rf = Some (d, (mt, c)) -> p_dighdr p = false -> p_clen p = false ->
    snd (run_op H parse_mt subject_of main other user_mts limit skip_gc index_of (reg * N)
                (cexch H subject_of main other p None) (g, n) rst (OFetchRef rs)) = RErr EOther /\
    snd (spec_op H subject_of main user_mts (store_of g) (OFetchRef rs)) = RDescBytes (mkDesc mt d (len c)) c.
Proof. exact fetchref_tag_needs_header. Qed.
Print Assumptions C13_fetchref_tag_needs_header.

(* every one of the 32 capability profiles, with the referrers state unknown, supported and
   (registries without the Referrers API) unsupported: a history with every operation --
   a tag resolved by HEAD wherever the hypothesis admits it, by digest otherwise -- gives
   the store's results (computation inside Coq) *)
Example C13_all_profiles_covered :
  length all_profiles = 32%nat /\
  forallb (fun p => covered p RSUnknown && covered p RSSupported
                    && (p_referrers p || covered p RSUnsupported)) all_profiles = true.
Proof. exact all_profiles_covered. Qed.

(* Predecessors over the Referrers API returns exactly the stored manifests whose
   subject is the given descriptor (any registry state, no hypothesis on the history) *)
Theorem C13_predecessors_reflect :
  forall (H : str -> str) (parse_mt : str -> option str) (subject_of : str -> option (option desc))
         (main other : str) (user_mts : list str) (limit : N) (index_of : str -> option (list desc)) (p : profile)
         g n rst d,
    p_referrers p = true -> rst <> RSUnsupported ->
    predecessors H parse_mt main user_mts limit index_of (reg * N) (cexch H subject_of main other p None) (g, n) rst d
    = ((g, n + 1), RSSupported,
       [(req GET main (EReferrers (d_dg d)),
         mkResp 200 (Some mt_index) None None None false None
                (referrers_of (subj_of subject_of) g (d_dg d)) [])],
       RDescs (referrers_of (subj_of subject_of) g (d_dg d))).
Proof. exact predecessors_reflect. Qed.
Print Assumptions C13_predecessors_reflect.

(* Registries WITHOUT the Referrers API (referrers tag schema): what updateReferrersIndex writes
   when a manifest with a subject is pushed is what Predecessors reads back.  In every registry
   state of the invariant, whether the referrers tag of the subject is absent or points to an
   index written before: adding referrer r succeeds, leaves the tag pointing to the new index
   (old referrers, deduplicated, then r; the old index deleted unless SkipReferrersGC; tags have
   one binding each, as the registry model keeps them) and
   Predecessors over the tag schema then lists exactly those.  For every profile that answers a
   tag with a digest header or a Content-Length (the known finding otherwise). *)
Theorem C13_tag_schema_add_then_listed :
  forall (H : str -> str) (parse_mt : str -> option str) (subject_of : str -> option (option desc))
         (main other : str) (user_mts : list str) (limit : N) (skip_gc : bool)
         (index_of : str -> option (list desc)) (p : profile),
    (forall c, valid_digest (H c) = true) ->
    (forall l, subject_of (gen_index l) = Some None) ->
    parse_mt mt_index = Some mt_index ->
    forall g n rst subj old r,
      inv H parse_mt subject_of limit p g ->
      rst_ok p rst ->
      valid_digest (d_dg subj) = true ->
      let tag := ref_tag (d_dg subj) in
      resolve_ref main tag = Some tag -> valid_digest tag = false ->
      p_clen p = true \/ p_dighdr p = true ->
      index_state g tag old -> (match old with Some (_, l0) => index_of (gen_index l0) = Some l0 | None => True end) ->
      NoDup (map fst (g_tags g)) ->
      let l := match old with Some (_, l) => l | None => [] end in
      let upd := clean_refs [] l ++ [r] in
      existsb (RemoteClient.desc_eqb r) (clean_refs [] l) = false ->
      len (gen_index upd) <= limit -> index_of (gen_index upd) = Some upd ->
      skip_gc = true \/ (forall od l0, old = Some (od, l0) -> od <> H (gen_index upd)) ->
      exists g' n' t,
        update_referrers_index H parse_mt main user_mts limit skip_gc index_of (reg * N)
                               (cexch H subject_of main other p None) (g, n) rst subj (RAdd r)
        = ((g', n'), rst, t, ROk) /\
        inv H parse_mt subject_of limit p g' /\
        exists n'' t',
          tag_schema_referrers H parse_mt main user_mts limit index_of (reg * N)
                               (cexch H subject_of main other p None) (g', n') subj
          = ((g', n''), t', RDescs (clean_refs [] upd)).
Proof. exact tag_schema_add_then_listed. Qed.
Print Assumptions C13_tag_schema_add_then_listed.

(* ... and what Delete of a manifest with a subject does: the referrer disappears from the
   listing; when it was the last one the index and its tag are removed (or, with
   SkipReferrersGC, an empty index stays) *)
Theorem C13_tag_schema_remove_then_absent :
  forall (H : str -> str) (parse_mt : str -> option str) (subject_of : str -> option (option desc))
         (main other : str) (user_mts : list str) (limit : N) (skip_gc : bool)
         (index_of : str -> option (list desc)) (p : profile),
    (forall c, valid_digest (H c) = true) ->
    (forall l, subject_of (gen_index l) = Some None) ->
    parse_mt mt_index = Some mt_index ->
    forall g n rst subj od l r,
      inv H parse_mt subject_of limit p g ->
      rst_ok p rst ->
      valid_digest (d_dg subj) = true ->
      let tag := ref_tag (d_dg subj) in
      resolve_ref main tag = Some tag -> valid_digest tag = false ->
      p_clen p = true \/ p_dighdr p = true ->
      index_state g tag (Some (od, l)) -> index_of (gen_index l) = Some l ->
      NoDup (map fst (g_tags g)) ->
      let upd := filter (fun x => negb (RemoteClient.desc_eqb r x)) (clean_refs [] l) in
      existsb (RemoteClient.desc_eqb r) (clean_refs [] l) = true ->
      len (gen_index upd) <= limit -> index_of (gen_index upd) = Some upd ->
      skip_gc = true \/ od <> H (gen_index upd) ->
      exists g' n' t,
        update_referrers_index H parse_mt main user_mts limit skip_gc index_of (reg * N)
                               (cexch H subject_of main other p None) (g, n) rst subj (RRemove r)
        = ((g', n'), rst, t, ROk) /\
        inv H parse_mt subject_of limit p g' /\
        exists n'' t',
          tag_schema_referrers H parse_mt main user_mts limit index_of (reg * N)
                               (cexch H subject_of main other p None) (g', n') subj
          = ((g', n''), t', RDescs (clean_refs [] upd)).
Proof. exact tag_schema_remove_then_absent. Qed.
Print Assumptions C13_tag_schema_remove_then_absent.

(* ... lifted to EVERY SEQUENCE of referrer changes of one subject (the index updates of pushes and
   deletes of manifests with that subject, in any order; [run_changes] = updateReferrersIndex once
   per change): every update succeeds, the referrers tag afterwards points to what
   applyReferrerChanges yields step by step ([spec_changes]), and Predecessors lists it.
   [changes_ok] are the per-step side conditions: the change is effective, the index read
   decodes, the new index fits MaxMetadataBytes and its digest differs from the old one's
   (or SkipReferrersGC); satisfiable: C13_tag_schema_changes_satisfiable. *)
Theorem C13_tag_schema_changes :
  forall (H : str -> str) (parse_mt : str -> option str) (subject_of : str -> option (option desc))
         (main other : str) (user_mts : list str) (limit : N) (skip_gc : bool)
         (index_of : str -> option (list desc)) (p : profile),
    (forall c, valid_digest (H c) = true) ->
    (forall l, subject_of (gen_index l) = Some None) ->
    parse_mt mt_index = Some mt_index ->
    forall rst subj chs g n st,
      minv H parse_mt limit g -> rst_ok p rst ->
      valid_digest (d_dg subj) = true ->
      let tag := ref_tag (d_dg subj) in
      resolve_ref main tag = Some tag -> valid_digest tag = false ->
      p_clen p = true \/ p_dighdr p = true ->
      index_state g tag st -> NoDup (map fst (g_tags g)) ->
      changes_ok H limit skip_gc index_of st chs ->
      exists g' n',
        run_changes H parse_mt subject_of main other user_mts limit skip_gc index_of p (g, n) rst subj chs
        = ((g', n'), map (fun _ => ROk) chs) /\
        minv H parse_mt limit g' /\
        index_state g' tag (spec_changes H skip_gc st chs) /\
        NoDup (map fst (g_tags g')) /\
        (json_ok_st index_of (spec_changes H skip_gc st chs) ->
         exists n'' t',
           tag_schema_referrers H parse_mt main user_mts limit index_of (reg * N)
                                (cexch H subject_of main other p None) (g', n') subj
           = ((g', n''), t', RDescs (clean_refs [] (ix_list (spec_changes H skip_gc st chs))))).
Proof. exact tag_schema_changes. Qed.
Print Assumptions C13_tag_schema_changes.

Example C13_tag_schema_changes_satisfiable :
  changes_ok w_H w_limit true sat_index_of2 None sat_changes /\
  spec_changes w_H true None sat_changes = Some (w_H (gen_index [sat_b]), [sat_b]) /\
  json_ok_st sat_index_of2 (spec_changes w_H true None sat_changes).
Proof. exact tag_schema_changes_satisfiable. Qed.

(* ... and at the level of the OPERATIONS, in any registry state of a registry WITHOUT the
   Referrers API (manifests with subjects may already be stored: [minv] is [inv] without the
   condition on who indexes subjects): Push of an accurate, indexable manifest whose subject is
   sj succeeds, leaves the client in referrers state "unsupported", the referrers tag points to
   the regenerated index, the manifest is stored, and Predecessors(sj) then lists the old
   referrers followed by the pushed descriptor. *)
Theorem C13_push_subject_then_predecessors :
  forall (H : str -> str) (parse_mt : str -> option str) (subject_of : str -> option (option desc))
         (main other : str) (user_mts : list str) (limit : N) (skip_gc : bool)
         (index_of : str -> option (list desc)) (p : profile),
    (forall c, valid_digest (H c) = true) ->
    (forall l, subject_of (gen_index l) = Some None) ->
    parse_mt mt_index = Some mt_index ->
    forall g n rst d c sj old,
      minv H parse_mt limit g -> p_referrers p = false -> rst <> RSSupported ->
      is_manifest user_mts d = true -> indexable (d_mt d) = true ->
      len c = d_sz d -> H c = d_dg d -> valid_digest (d_dg d) = true ->
      parse_mt (d_mt d) = Some (d_mt d) -> len c <= limit ->
      subject_of c = Some (Some sj) -> valid_digest (d_dg sj) = true ->
      let tag := ref_tag (d_dg sj) in
      resolve_ref main tag = Some tag -> valid_digest tag = false ->
      p_clen p = true \/ p_dighdr p = true ->
      index_state g tag old -> (match old with Some (_, l0) => index_of (gen_index l0) = Some l0 | None => True end) ->
      NoDup (map fst (g_tags g)) ->
      (forall od l0, old = Some (od, l0) -> od <> d_dg d) ->
      let l := match old with Some (_, l) => l | None => [] end in
      let upd := clean_refs [] l ++ [d] in
      existsb (RemoteClient.desc_eqb d) (clean_refs [] l) = false ->
      len (gen_index upd) <= limit -> index_of (gen_index upd) = Some upd ->
      skip_gc = true \/ (forall od l0, old = Some (od, l0) -> od <> H (gen_index upd)) ->
      exists g' n' t,
        run_op H parse_mt subject_of main other user_mts limit skip_gc index_of (reg * N)
               (cexch H subject_of main other p None) (g, n) rst (OPush d c)
        = ((g', n'), RSUnsupported, t, ROk) /\
        minv H parse_mt limit g' /\
        index_state g' tag (Some (H (gen_index upd), upd)) /\ NoDup (map fst (g_tags g')) /\
        (d_dg d <> H (gen_index upd) -> lookup (d_dg d) (g_mans g') = Some (d_mt d, c)) /\
        exists n'' t',
          run_op H parse_mt subject_of main other user_mts limit skip_gc index_of (reg * N)
                 (cexch H subject_of main other p None) (g', n') RSUnsupported (OPreds sj)
          = ((g', n''), RSUnsupported, t', RDescs (clean_refs [] upd)).
Proof. exact push_subject_then_predecessors. Qed.
Print Assumptions C13_push_subject_then_predecessors.

(* ... and Delete of a stored manifest with subject sj (referrers state unknown -- the client then
   pings the API first -- or "unsupported"): the referrer is taken out of the index, the manifest is deleted,
   Predecessors(sj) lists the remaining referrers. *)
Theorem C13_delete_subject_then_predecessors :
  forall (H : str -> str) (parse_mt : str -> option str) (subject_of : str -> option (option desc))
         (main other : str) (user_mts : list str) (limit : N) (skip_gc : bool)
         (index_of : str -> option (list desc)) (p : profile),
    (forall c, valid_digest (H c) = true) ->
    (forall l, subject_of (gen_index l) = Some None) ->
    parse_mt mt_index = Some mt_index ->
    forall g n rst d c sj od l,
      minv H parse_mt limit g -> p_referrers p = false -> rst <> RSSupported ->
      is_manifest user_mts d = true -> indexable_del (d_mt d) = true ->
      lookup (d_dg d) (g_mans g) = Some (d_mt d, c) -> len c = d_sz d -> valid_digest (d_dg d) = true ->
      subject_of c = Some (Some sj) -> valid_digest (d_dg sj) = true ->
      let tag := ref_tag (d_dg sj) in
      resolve_ref main tag = Some tag -> valid_digest tag = false ->
      p_clen p = true \/ p_dighdr p = true ->
      index_state g tag (Some (od, l)) -> index_of (gen_index l) = Some l ->
      NoDup (map fst (g_tags g)) ->
      od <> d_dg d ->
      let upd := filter (fun x => negb (RemoteClient.desc_eqb d x)) (clean_refs [] l) in
      existsb (RemoteClient.desc_eqb d) (clean_refs [] l) = true ->
      len (gen_index upd) <= limit -> index_of (gen_index upd) = Some upd ->
      H (gen_index upd) <> d_dg d ->
      skip_gc = true \/ od <> H (gen_index upd) ->
      exists g' n' t,
        run_op H parse_mt subject_of main other user_mts limit skip_gc index_of (reg * N)
               (cexch H subject_of main other p None) (g, n) rst (ODelete d)
        = ((g', n'), RSUnsupported, t, ROk) /\
        minv H parse_mt limit g' /\ lookup (d_dg d) (g_mans g') = None /\
        index_state g' tag (if is_nil upd && negb skip_gc then None else Some (H (gen_index upd), upd)) /\
        NoDup (map fst (g_tags g')) /\
        exists n'' t',
          run_op H parse_mt subject_of main other user_mts limit skip_gc index_of (reg * N)
                 (cexch H subject_of main other p None) (g', n') RSUnsupported (OPreds sj)
          = ((g', n''), RSUnsupported, t', RDescs (clean_refs [] upd)).
Proof. exact delete_subject_then_predecessors. Qed.
Print Assumptions C13_delete_subject_then_predecessors.

(* the hypotheses of C13_push_subject_then_predecessors are satisfiable: instantiated on the empty
   registry without the API (every hypothesis discharged by computation) *)
Example C13_push_subject_satisfiable :
  exists g' n' t,
    run_op w_H (fun s => Some s) sat_subject (b "app") (b "src") [] w_limit false sat_index_of (reg * N)
           (cexch w_H sat_subject (b "app") (b "src") ts_profile None) (reg0 [], 0) RSUnknown (OPush sat_d sat_c)
    = ((g', n'), RSUnsupported, t, ROk) /\
    minv w_H (fun s => Some s) w_limit g' /\
    index_state g' (ref_tag zero_digest) (Some (w_H (gen_index [sat_d]), [sat_d])) /\
    exists n'' t',
      run_op w_H (fun s => Some s) sat_subject (b "app") (b "src") [] w_limit false sat_index_of (reg * N)
             (cexch w_H sat_subject (b "app") (b "src") ts_profile None) (g', n') RSUnsupported (OPreds sat_sj)
      = ((g', n''), RSUnsupported, t', RDescs [sat_d]).
Proof. exact push_subject_satisfiable. Qed.

(* ... lifted to HISTORIES of operations: every sequence of Push / Delete of manifests with ONE subject
   sj and Predecessors(sj) (in any order, any length) run by the client ([run_ops]) against a
   registry without the Referrers API, from any registry state: every Push/Delete succeeds, every
   Predecessors in between lists exactly the index of that moment ([ts_results]), the client never
   believes the API is there, the referrers tag ends at what applyReferrerChanges yields step by step ([ts_final])
   and Predecessors(sj) lists exactly that.  [ts_hist_ok] (Proofs/RemoteRefine.v) checks the LOCAL side
   conditions of each operation in the state it meets, as wf_hist does for the store: accurate,
   indexable manifest with subject sj that is new to / listed in the index (for Delete: stored); the
   indexes read and written decode and fit MaxMetadataBytes; no digest collision between manifest,
   old index and new index.  Satisfiable: C13_tag_schema_history_satisfiable. *)
Theorem C13_tag_schema_history :
  forall (H : str -> str) (parse_mt : str -> option str) (subject_of : str -> option (option desc))
         (main other : str) (user_mts : list str) (limit : N) (skip_gc : bool)
         (index_of : str -> option (list desc)) (p : profile),
    (forall c, valid_digest (H c) = true) ->
    (forall l, subject_of (gen_index l) = Some None) ->
    parse_mt mt_index = Some mt_index ->
    forall sj os g n rst st,
      minv H parse_mt limit g -> p_referrers p = false -> rst <> RSSupported ->
      valid_digest (d_dg sj) = true ->
      let tag := ref_tag (d_dg sj) in
      resolve_ref main tag = Some tag -> valid_digest tag = false ->
      p_clen p = true \/ p_dighdr p = true ->
      index_state g tag st -> NoDup (map fst (g_tags g)) ->
      ts_hist_ok H parse_mt subject_of main other user_mts limit skip_gc index_of p sj (g, n) rst st os ->
      exists g' n' rst' out,
        run_ops H parse_mt subject_of main other user_mts limit skip_gc index_of (reg * N)
                (cexch H subject_of main other p None) (g, n) rst (map (ts_op sj) os) = ((g', n'), rst', out) /\
        map snd out = ts_results H skip_gc st os /\ rst' <> RSSupported /\
        minv H parse_mt limit g' /\ index_state g' tag (ts_final H skip_gc st os) /\
        NoDup (map fst (g_tags g')) /\
        (json_ok_st index_of (ts_final H skip_gc st os) ->
         exists n'' t',
           tag_schema_referrers H parse_mt main user_mts limit index_of (reg * N)
                                (cexch H subject_of main other p None) (g', n') sj
           = ((g', n''), t', RDescs (clean_refs [] (ix_list (ts_final H skip_gc st os))))).
Proof. exact tag_schema_history. Qed.
Print Assumptions C13_tag_schema_history.

Example C13_tag_schema_history_satisfiable :
  (forall c, valid_digest (sat3_H c) = true) /\
  ts_hist_ok sat3_H (fun s => Some s) sat_subject (b "app") (b "src") [] w_limit false sat3_index_of ts_profile
             sat_sj (reg0 [], 0) RSUnknown None sat3_ops /\
  ts_final sat3_H false None sat3_ops = None /\
  ts_results sat3_H false None sat3_ops = [ROk; RDescs [sat3_d]; ROk].
Proof. exact tag_schema_history_satisfiable. Qed.

(* (JSON decoding is the parameter index_of: the theorems above ask it to invert gen_index on the two
   indexes involved -- the one read and the one written --, not on all lists: gen_index does not
   escape, a hypothesis for ALL descriptor lists would be unsatisfiable.  The Example below
   instantiates it.) *)
(* ... end to end on a concrete registry without the API: Push of a manifest with a subject makes
   Predecessors list it and the referrers tag resolve to the generated index (the JSON the
   client writes is the last conjunct); Delete removes both again *)
Example C13_tag_schema_example :
  map snd (snd (run_history toy_H (fun s => Some s) ts_subject (b "app") (b "src") [] w_limit false ts_index_of
                            ts_profile None [] RSUnknown ts_ops))
  = [ROk; RDescs []; ROk; RDescs [ts_d1];
     RDesc (mkDesc mt_index (toy_H (gen_index [ts_d1])) (len (gen_index [ts_d1])));
     ROk; RDescs []; RErr ENotFound] /\
  ts_index_of (gen_index [ts_d1]) = Some [ts_d1] /\ ts_subject (gen_index [ts_d1]) = Some None /\
  gen_index [ts_d1] = b "{""schemaVersion"":2,""mediaType"":""application/vnd.oci.image.index.v1+json"",""manifests"":[{""mediaType"":""application/vnd.oci.image.manifest.v1+json"",""digest"":""sha256:7d317b0000000000000000000000000000000000000000000000000000000000"",""size"":3}]}".
Proof. exact tag_schema_example. Qed.

(* Composition with C15 (Model/Paging.v): in every state the registry model reaches from
   the empty registry by any request sequence the manifest digests are distinct and
   non-empty, hence against a registry that PAGINATES the Referrers API in any legal way
   (C15: any page split below the cap, last= or opaque-token cursors, any Link rendering that
   resolves, filtering announced or not, entries held back by the registry's visibility filter) the client's page loop delivers, concatenated, exactly the stored manifests with
   the given subject (of the requested artifact type): Predecessors = concat of the pages. *)
Theorem C13_registry_digests_distinct :
  forall (H : str -> str) (sj : str -> option desc) (main other : str) (p : profile),
    (forall c, H c <> []) ->
    forall ob qs, keys_ok (fold_left (fun g q => fst (handle H sj main other p g q)) qs (reg0 ob)).
Proof. exact reachable_keys_ok. Qed.
Print Assumptions C13_registry_digests_distinct.

Theorem C13_registry_tags_unique :
  forall (H : str -> str) (sj : str -> option desc) (main other : str) (p : profile) ob qs,
    NoDup (map fst (g_tags (fold_left (fun g q => fst (handle H sj main other p g q)) qs (reg0 ob)))).
Proof. exact reachable_tags_unique. Qed.
Print Assumptions C13_registry_tags_unique.

Theorem C13_referrers_paged :
  forall (sj : str -> option desc) (atype : str -> str) g dg (cap : nat) (ds : nat -> P.decision)
         (render : nat -> P.url -> P.url -> str) (trailer : nat -> str)
         (resolve : P.url -> str -> option P.url) (c : P.cfg)
         (cu : P.cursor) (npath : nat -> str -> str) (vis : P.item -> bool) (path : str) (fuel : nat),
    keys_ok g ->
    PP.cursor_ok cu ->
    P.c_kind c = P.KReferrers ->
    (forall i base x, In x (map fst (ref_items sj atype g dg)) ->
       contains P.c_gt (render i base (PP.link_target ds cu npath i base x)) = false) ->
    (forall i base x, In x (map fst (ref_items sj atype g dg)) ->
       resolve base (render i base (PP.link_target ds cu npath i base x)) = Some (PP.link_target ds cu npath i base x)) ->
    (forall i, (Z.of_N (P.d_doc_len (ds i)) <= P.eff_limit (P.c_limit c))%Z) ->
    (forall i, P.qget P.k_at (P.d_extra (ds i)) = None) ->
    (length (ref_items sj atype g dg) < fuel)%nat ->
    let t := P.loop (P.reg_serve P.KReferrers cu npath vis (ref_items sj atype g dg) cap ds render trailer) resolve
                    (fun _ => false) c fuel 0 0 (P.mkUrl path (PP.referrers_query (P.c_at c))) [] in
    P.t_out t = P.Done /\
    concat (P.t_pages t) = P.filter_referrers (filter vis (ref_items sj atype g dg)) (P.c_at c) /\
    (length (P.t_reqs t) <= S (length (ref_items sj atype g dg)))%nat.
Proof. exact referrers_paged. Qed.
Print Assumptions C13_referrers_paged.

Theorem C13_predecessors_paged :
  forall (sj : str -> option desc) (atype : str -> str) g dg cap ds render trailer resolve c cu npath vis path fuel,
    keys_ok g -> PP.cursor_ok cu -> P.c_kind c = P.KReferrers -> P.c_at c = [] ->
    (forall it, vis it = true) ->
    (forall i base x, In x (map fst (ref_items sj atype g dg)) ->
       contains P.c_gt (render i base (PP.link_target ds cu npath i base x)) = false) ->
    (forall i base x, In x (map fst (ref_items sj atype g dg)) ->
       resolve base (render i base (PP.link_target ds cu npath i base x)) = Some (PP.link_target ds cu npath i base x)) ->
    (forall i, (Z.of_N (P.d_doc_len (ds i)) <= P.eff_limit (P.c_limit c))%Z) ->
    (forall i, P.qget P.k_at (P.d_extra (ds i)) = None) ->
    (length (ref_items sj atype g dg) < fuel)%nat ->
    let t := P.loop (P.reg_serve P.KReferrers cu npath vis (ref_items sj atype g dg) cap ds render trailer) resolve
                    (fun _ => false) c fuel 0 0 (P.mkUrl path []) [] in
    P.t_out t = P.Done /\
    map fst (concat (P.t_pages t)) = map d_dg (referrers_of sj g dg).
Proof. exact predecessors_paged. Qed.
Print Assumptions C13_predecessors_paged.

(* non-vacuity of the refinement hypotheses: a manifest pushed under a tag, resolved,
   fetched, re-tagged; a second manifest whose subject is the first one, found by
   Predecessors; a blob mounted from the sibling repository; deletions *)
Example C13_refines_store_nonvacuous :
  wf_hist w_H (fun s => Some s) ex_subject (b "app") [] w_limit ex_profile
          (mkStore [] [] [] [(zero_digest, ex_blob)]) ex_ops /\
  rst_ok ex_profile RSUnknown /\
  snd (spec_run w_H ex_subject (b "app") [] (mkStore [] [] [] [(zero_digest, ex_blob)]) ex_ops)
  = [ROk; RDesc w_desc; RDescBytes w_desc w_content; RBytes w_content; ROk; RBool true; ROk;
     RBytes ex_blob; RDescs []; ROk; RErr ENotFound; ROk; RDescs [ex_rdesc]].
Proof. exact refines_store_nonvacuous. Qed.


(* ------------------------------------------------------------------ *)
(* Every request the client emits is one the specification allows -- against ANY
   server (arbitrary, also corrupted, responses), any referrers state, any
   history of operations whose descriptors carry a valid digest and a media type
   (reference strings are arbitrary).  The only thing asked of the server is that
   the Location of a POST answer, when present, is an upload session. *)
Theorem C13_requests_allowed :
  forall (H : str -> str) (parse_mt : str -> option str) (subject_of : str -> option (option desc))
         (main other : str) (user_mts : list str) (limit : N) (skip_gc : bool)
         (index_of : str -> option (list desc))
         (srv : Type) (exch : srv -> request -> srv * response),
    valid_repository main = true -> valid_repository other = true ->
    loc_ok srv exch ->
    (forall c, valid_digest (H c) = true) ->
    forall os s rst s' rst' out,
      Forall op_ok os ->
      run_ops H parse_mt subject_of main other user_mts limit skip_gc index_of srv exch s rst os = (s', rst', out) ->
      Forall (fun tr => Forall (fun qr => allowed (fst qr) = true) (fst tr)) out.
Proof. exact run_ops_allowed. Qed.
Print Assumptions C13_requests_allowed.

(* the registry model itself meets [loc_ok], also with one response corrupted in any
   field except the status: every request of every history is allowed *)
Theorem C13_requests_allowed_registry :
  forall (H : str -> str) (parse_mt : str -> option str) (subject_of : str -> option (option desc))
         (main other : str) (user_mts : list str) (limit : N) (skip_gc : bool)
         (index_of : str -> option (list desc)) (p : profile) (kor : option (N * corruption))
         other_blobs rst os g out,
    valid_repository main = true -> valid_repository other = true ->
    (forall c, valid_digest (H c) = true) ->
    no_status_corruption kor -> Forall op_ok os ->
    run_history H parse_mt subject_of main other user_mts limit skip_gc index_of p kor other_blobs rst os = (g, out) ->
    Forall (fun tr => Forall (fun qr => allowed (fst qr) = true) (fst tr)) out.
Proof. exact run_history_allowed. Qed.
Print Assumptions C13_requests_allowed_registry.

(* ------------------------------------------------------------------ *)
(* Corruption: whatever the server answers, a call succeeds only if the response
   does not contradict what was requested. *)

(* Fetch of a blob: bytes only from a 200 whose Content-Length is absent or the
   descriptor's size and whose digest header is absent or the descriptor's digest *)
Theorem C13_corruption_rejected_blob_fetch :
  forall (srv : Type) (exch : srv -> request -> srv * response) repo s d s' t c,
    blob_fetch srv exch repo s d = (s', t, RBytes c) ->
    exists q r, t = [(q, r)] /\ r_status r = 200 /\ c = r_body r /\
                len_consistent r (d_sz d) /\ dig_consistent r (d_dg d).
Proof. exact blob_fetch_consistent. Qed.
Print Assumptions C13_corruption_rejected_blob_fetch.

(* Fetch of a manifest: additionally the Content-Type parses to the descriptor's media type *)
Theorem C13_corruption_rejected_manifest_fetch :
  forall (parse_mt : str -> option str) (main : str)
         (srv : Type) (exch : srv -> request -> srv * response) s d s' t c,
    man_fetch parse_mt main srv exch s d = (s', t, RBytes c) ->
    exists q r, t = [(q, r)] /\ r_status r = 200 /\ c = r_body r /\
                parse_mt (nstr (r_ctype r)) = Some (d_mt d) /\
                len_consistent r (d_sz d) /\ dig_consistent r (d_dg d).
Proof. exact man_fetch_consistent. Qed.
Print Assumptions C13_corruption_rejected_manifest_fetch.

(* the same in the words of the property: take any response, corrupt one field so that it
   contradicts the descriptor (other digest, unparsable digest, Content-Length + 1, other /
   unparsable / missing Content-Type, a status other than 200) -- Fetch fails. *)
Theorem C13_corruption_rejected_single_field_blob :
  forall (srv : Type) repo (s : srv) k r0 d,
    contradicts_fetch (fun _ => None) false k r0 d ->
    exists e, snd (blob_fetch srv (fun s _ => (s, corrupt k r0)) repo s d) = RErr e.
Proof. exact blob_fetch_corrupted. Qed.
Print Assumptions C13_corruption_rejected_single_field_blob.

Theorem C13_corruption_rejected_single_field_manifest :
  forall (parse_mt : str -> option str) (main : str) (srv : Type) (s : srv) k r0 d,
    contradicts_fetch parse_mt true k r0 d ->
    exists e, snd (man_fetch parse_mt main srv (fun s _ => (s, corrupt k r0)) s d) = RErr e.
Proof. exact man_fetch_corrupted. Qed.
Print Assumptions C13_corruption_rejected_single_field_manifest.

(* non-vacuity: an honest 200 answer to Fetch of a 2-byte manifest is accepted; the same
   answer with Content-Length + 1 is refused *)
Example C13_corruption_example :
  let honest := mkResp 200 (Some mt_oci_manifest) (Some 2) (Some zero_digest) None false None [] (b "{}") in
  snd (man_fetch (fun s => Some s) (b "app") unit (fun s _ => (s, honest)) tt w_desc) = RBytes (b "{}") /\
  snd (man_fetch (fun s => Some s) (b "app") unit (fun s _ => (s, corrupt KLenInc honest)) tt w_desc) = RErr EOther /\
  contradicts_fetch (fun s => Some s) true KLenInc honest w_desc.
Proof. vm_compute. repeat split; reflexivity. Qed.

(* generateDescriptor (Resolve / FetchReference): the descriptor is what the
   response states; it carries the reference's digest when the reference is a
   digest; a digest header must be valid and is the descriptor's digest; without
   one, HEAD works only for digest references and GET hashes what it reads of the body: at
   most MaxMetadataBytes, and only when the Content-Length is within that limit. *)
Theorem C13_corruption_rejected_descriptor :
  forall (H : str -> str) (parse_mt : str -> option str) (limit : N) r rf hd d,
    gen_desc H parse_mt limit r rf hd = Some d ->
    parse_mt (nstr (r_ctype r)) = Some (d_mt d) /\ r_clen r = Some (d_sz d) /\
    (valid_digest rf = true -> d_dg d = rf) /\
    match nstr (r_dig r) with
    | [] => if hd then d_dg d = rf /\ valid_digest rf = true
            else d_dg d = H (hashed_body limit r) /\ (limit <? d_sz d) = false
    | sd => sd = d_dg d /\ valid_digest sd = true
    end.
Proof. exact gen_desc_consistent. Qed.
Print Assumptions C13_corruption_rejected_descriptor.

Theorem C13_corruption_rejected_resolve :
  forall (H : str -> str) (parse_mt : str -> option str) (main : str) (user_mts : list str) (limit : N)
         (srv : Type) (exch : srv -> request -> srv * response) s rs s' t d,
    man_resolve H parse_mt main user_mts limit srv exch s rs = (s', t, RDesc d) ->
    exists rf q r, resolve_ref main rs = Some rf /\ t = [(q, r)] /\ q_ep q = EManifest rf /\
                   r_status r = 200 /\ gen_desc H parse_mt limit r rf true = Some d.
Proof. exact man_resolve_consistent. Qed.
Print Assumptions C13_corruption_rejected_resolve.

Theorem C13_corruption_rejected_fetch_reference :
  forall (H : str -> str) (parse_mt : str -> option str) (main : str) (user_mts : list str) (limit : N)
         (srv : Type) (exch : srv -> request -> srv * response) s rs s' t d c,
    man_fetchref H parse_mt main user_mts limit srv exch s rs = (s', t, RDescBytes d c) ->
    exists rf q r rest, resolve_ref main rs = Some rf /\ t = (q, r) :: rest /\
      r_status r = 200 /\
      ((rest = [] /\ gen_desc H parse_mt limit r rf false = Some d /\
        c = match nstr (r_dig r) with [] => hashed_body limit r | _ => r_body r end) \/
       (r_clen r = None /\ c = r_body r /\ dig_consistent r (d_dg d) /\
        exists q2 r2, rest = [(q2, r2)] /\ r_status r2 = 200 /\
                      gen_desc H parse_mt limit r2 rf true = Some d)).
Proof. exact man_fetchref_consistent. Qed.
Print Assumptions C13_corruption_rejected_fetch_reference.

(* the referrers tag schema (registries without the Referrers API): the referrers index read
   through the referrers tag is used -- by Referrers/Predecessors and by the index update on
   push/delete of a manifest with a subject -- only if the body received is exactly what the
   descriptor derived from the SAME response says (length = Content-Length, digest = the digest
   header or the computed one) and decodes; whatever the server answers *)
Theorem C13_corruption_rejected_referrers_index :
  forall (H : str -> str) (parse_mt : str -> option str) (main : str) (user_mts : list str) (limit : N)
         (index_of : str -> option (list desc))
         (srv : Type) (exch : srv -> request -> srv * response) s tag s' t d l,
    referrers_from_index H parse_mt main user_mts limit index_of srv exch s tag = (s', t, ROk, Some (d, l)) ->
    exists body,
      man_fetchref H parse_mt main user_mts limit srv exch s tag = (s', t, RDescBytes d body) /\
      len body = d_sz d /\ H body = d_dg d /\ d_sz d <= limit /\ index_of body = Some l.
Proof. exact referrers_index_consistent. Qed.
Print Assumptions C13_corruption_rejected_referrers_index.

Theorem C13_corruption_rejected_tag_schema_referrers :
  forall (H : str -> str) (parse_mt : str -> option str) (main : str) (user_mts : list str) (limit : N)
         (index_of : str -> option (list desc))
         (srv : Type) (exch : srv -> request -> srv * response) s d s' t l,
    tag_schema_referrers H parse_mt main user_mts limit index_of srv exch s d = (s', t, RDescs l) ->
    l = [] \/
    exists id body idx,
      man_fetchref H parse_mt main user_mts limit srv exch s (ref_tag (d_dg d)) = (s', t, RDescBytes id body) /\
      len body = d_sz id /\ H body = d_dg id /\ index_of body = Some idx /\ l = clean_refs [] idx.
Proof. exact tag_schema_consistent. Qed.
Print Assumptions C13_corruption_rejected_tag_schema_referrers.

(* blob FetchReference: also when the GET has no Content-Length (descriptor from a HEAD), the
   digest header of the GET, whose body is returned, must not contradict the digest asked for *)
Theorem C13_corruption_rejected_blob_fetch_reference :
  forall (parse_mt : str -> option str) (main : str)
         (srv : Type) (exch : srv -> request -> srv * response) s rs s' t d c,
    blob_fetchref parse_mt main srv exch s rs = (s', t, RDescBytes d c) ->
    exists rf q r rest, resolve_ref main rs = Some rf /\ valid_digest rf = true /\ t = (q, r) :: rest /\
      r_status r = 200 /\ c = r_body r /\ d_dg d = rf /\ dig_consistent r rf.
Proof. exact blob_fetchref_consistent. Qed.
Print Assumptions C13_corruption_rejected_blob_fetch_reference.

(* blob Resolve / Exists *)
Theorem C13_corruption_rejected_blob_resolve :
  forall (parse_mt : str -> option str) (main : str)
         (srv : Type) (exch : srv -> request -> srv * response) s rs s' t d,
    blob_resolve parse_mt main srv exch s rs = (s', t, RDesc d) ->
    exists rf q r, resolve_ref main rs = Some rf /\ valid_digest rf = true /\ t = [(q, r)] /\
                   r_status r = 200 /\ d_dg d = rf /\ r_clen r = Some (d_sz d) /\ dig_consistent r rf.
Proof. exact blob_resolve_consistent. Qed.
Print Assumptions C13_corruption_rejected_blob_resolve.

(* writes: exact status, non-contradicting digest header, Location present *)
Theorem C13_corruption_rejected_delete :
  forall (main : str) (srv : Type) (exch : srv -> request -> srv * response) s d man s' t,
    delete_req main srv exch s d man = (s', t, ROk) ->
    exists q r, t = [(q, r)] /\ r_status r = 202 /\ dig_consistent r (d_dg d).
Proof. exact delete_req_consistent. Qed.
Print Assumptions C13_corruption_rejected_delete.

Theorem C13_corruption_rejected_manifest_put :
  forall (main : str) (srv : Type) (exch : srv -> request -> srv * response)
         s rst d c sized rf s' rst' t,
    man_put main srv exch s rst d c sized rf = (s', rst', t, ROk) ->
    exists q r, t = [(q, r)] /\ r_status r = 201 /\ dig_consistent r (d_dg d) /\
                q_body q = c /\ q_ctype q = Some (d_mt d) /\ (sized = true -> len c = d_sz d).
Proof. exact man_put_consistent. Qed.
Print Assumptions C13_corruption_rejected_manifest_put.

Theorem C13_corruption_rejected_blob_upload :
  forall (srv : Type) (exch : srv -> request -> srv * response) s r1 d c sized s' t,
    complete_push srv exch s r1 d c sized = (s', t, ROk) ->
    exists rp ep q r2, r_loc r1 = Some (rp, ep) /\ t = [(q, r2)] /\ r_status r2 = 201 /\
                       q_repo q = rp /\ q_ep q = ep /\ q_digest q = Some (d_dg d) /\ q_body q = c /\
                       (valid_digest (nstr (r_dig r2)) = true -> nstr (r_dig r2) = d_dg d).
Proof. exact complete_push_consistent. Qed.
Print Assumptions C13_corruption_rejected_blob_upload.

Theorem C13_corruption_rejected_mount :
  forall (main other : str) (srv : Type) (exch : srv -> request -> srv * response) s d g s' t,
    blob_mount main other srv exch s d g = (s', t, ROk) ->
    exists q r rest, t = (q, r) :: rest /\
      ((r_status r = 201 /\ rest = [] /\ dig_consistent r (d_dg d)) \/
       (r_status r = 202 /\ rest <> [] /\ r_loc r <> None)).
Proof. exact blob_mount_consistent. Qed.
Print Assumptions C13_corruption_rejected_mount.

(* ------------------------------------------------------------------ *)
(* URL construction (url.go; [request_url] is compared with the URL of every real request):
   composition of the request grammar with C20_url_exact.  For every request of the grammar
   (C13_requests_allowed: all the client emits), against a registry name net/url accepts
   ([reg_clean], C20's single fact about net/url), the URL is -- under RFC 3986 splitting --
   scheme://host/v2/<repository>/{manifests|blobs|referrers}/<reference> with exactly these path
   segments, no user info, no query, no fragment (the referrers page-size extension ?n= aside);
   the upload POST without mount goes to /v2/<repository>/blobs/uploads/ . *)
Theorem C13_request_url_exact :
  forall (vr : str -> bool) plain host page q,
    (forall reg, vr reg = true -> reg_clean reg = true) ->
    vr host = true -> contains c_slash host = false ->
    allowed q = true ->
    match q_ep q with
    | EManifest r => url_is (request_url plain host page q) plain (mkRef host (q_repo q) r) (b "manifests")
    | EBlob d => url_is (request_url plain host page q) plain (mkRef host (q_repo q) d) (b "blobs")
    | EReferrers d =>
        page = 0 -> url_is (request_url plain host page q) plain (mkRef host (q_repo q) d) (b "referrers")
    | EUploads =>
        q_mount q = None ->
        url_split (request_url plain host page q)
        = Some (mkParts (scheme plain) (host_of host) (b "/v2/" ++ q_repo q ++ b "/blobs/uploads/") None None)
    | ESession _ => True
    end.
Proof. exact request_url_exact. Qed.
Print Assumptions C13_request_url_exact.

(* ------------------------------------------------------------------ *)
(* Step 2 of the two-step upload (Model/Location.v, completePushAfterInitialPost): the PUT
   follows the Location of the 202 -- same scheme, host and path; the POST's authority for
   an absolute-path Location; the port is restored only when the POST went to port 443 of
   the same host and the Location names no port (issue 177); the query is the Location's
   with digest=<descriptor digest> set, nothing else added or dropped. *)
Theorem C13_location_authority :
  forall req l dg,
    let t := resolve req l in
    let u := put_url req l dg in
    u_scheme u = u_scheme t /\ u_host u = u_host t /\ u_path u = u_path t /\
    u_port u = (if needs_repair req t then port443 else u_port t).
Proof. exact put_url_authority. Qed.
Print Assumptions C13_location_authority.

Theorem C13_location_relative :
  forall req p q dg,
    let u := put_url req (LPath p q) dg in
    u_scheme u = u_scheme req /\ u_host u = u_host req /\ u_port u = u_port req /\ u_path u = p.
Proof. exact put_url_relative. Qed.
Print Assumptions C13_location_relative.

Theorem C13_location_port_repaired :
  forall req sch pa q dg,
    u_port req = port443 ->
    let u := put_url req (LAbs (mkUrl sch (u_host req) [] pa q)) dg in
    u_host u = u_host req /\ u_port u = port443 /\ u_path u = pa.
Proof. exact put_url_repaired. Qed.
Print Assumptions C13_location_port_repaired.

Theorem C13_location_followed :
  forall req t dg,
    (u_port req <> port443 \/ u_host t <> u_host req \/ u_port t <> []) ->
    let u := put_url req (LAbs t) dg in
    u_scheme u = u_scheme t /\ u_host u = u_host t /\ u_port u = u_port t /\ u_path u = u_path t.
Proof. exact put_url_followed. Qed.
Print Assumptions C13_location_followed.

Theorem C13_location_query :
  forall req l dg k v,
    In (k, v) (u_query (put_url req l dg)) <->
    (k = k_digest /\ v = dg) \/ (k <> k_digest /\ In (k, v) (u_query (resolve req l))).
Proof. exact put_url_query. Qed.
Print Assumptions C13_location_query.

Example C13_location_example :
  put_url_str (b "https") (b "registry.example") (b "443")
              (b "https://registry.example/v2/app/blobs/uploads/7?_state=s1") (b "sha256:ab")
  = Some (b "https://registry.example:443/v2/app/blobs/uploads/7?_state=s1&digest=sha256%3Aab").
Proof. vm_compute. reflexivity. Qed.

(* ------------------------------------------------------------------ *)
(* Read/Seek on a blob reader, with the registry model (any profile with range support)
   answering the Range requests, = an in-memory reader over the
   blob's bytes, for every script and every behaviour of the response bodies (chunking,
   data together with io.EOF); a Range request "bytes=off-(size-1)" is emitted exactly when
   the position changes to an offset inside the blob. *)
Theorem C13_seek :
  forall (modes : nat -> bmode) (p : profile) (d : str),
    p_range p = true ->
    forall content os,
      rsc_run modes (range_srv p d content None) (rsc_open content (len content)) os
      = ref_run modes content (mkPos 0 false 0) os.
Proof. exact seek_refines. Qed.
Print Assumptions C13_seek.

(* Seek against ANY server (arbitrary, also corrupted, answers to the Range request): at most
   one request, for bytes t..size-1 with t inside the blob, and it is one the specification
   allows; a reconnect is accepted only from a 206 whose Content-Length is absent or the length
   of the requested range, and the reader then serves that response's body.  (The digest header
   of a 206 is not looked at: known finding seek-206-digest-unverified.) *)
Theorem C13_seek_request_shape :
  forall (modes : nat -> bmode) (srv : nat -> N -> N -> response) k o k1 rq out,
    rsc_step modes srv k o = (k1, rq, out) ->
    rq = [] \/ exists t, rq = [(t, k_size k - 1)] /\ t < k_size k /\ k_rq k1 = S (k_rq k).
Proof. exact seek_request_shape. Qed.
Print Assumptions C13_seek_request_shape.

Theorem C13_seek_request_allowed :
  forall (modes : nat -> bmode) (srv : nat -> N -> N -> response) main d k o k1 a bb out,
    valid_repository main = true -> valid_digest d = true ->
    rsc_step modes srv k o = (k1, [(a, bb)], out) ->
    allowed (mkReq GET main (EBlob d) None None None None None (Some (a, bb)) []) = true.
Proof. exact seek_request_allowed. Qed.
Print Assumptions C13_seek_request_allowed.

Theorem C13_corruption_rejected_seek :
  forall (modes : nat -> bmode) (srv : nat -> N -> N -> response) k off w k1 t0 b0 t,
    rsc_step modes srv k (SSeek off w) = (k1, [(t0, b0)], SPos t) ->
    let r := srv (k_rq k) t (k_size k - 1) in
    t0 = t /\ r_status r = 206 /\ len_consistent r (k_size k - t) /\ k_rc k1 = r_body r /\ k_off k1 = t.
Proof. exact seek_accepts_consistent. Qed.
Print Assumptions C13_corruption_rejected_seek.

(* known finding seek-206-digest-unverified: a 206 whose well-formed digest header names other
   content is accepted (witness; the full "digest header contradicts -> fail" is false for Seek) *)
Theorem C13_corruption_rejected_seek_digest_refuted :
  let '(k1, rq, out) := rsc_step (fun _ => mkBm 0 false) w_seek_srv (rsc_open (b "hello world") 11) (SSeek 6 SeekStart) in
  out = SPos 6 /\ rq = [(6, 10)] /\ k_rc k1 = b "world" /\
  r_dig (w_seek_srv 0%nat 6 10) = Some w_seek_other /\ valid_digest w_seek_other = true /\
  str_eqb w_seek_other w_seek_digest = false.
Proof. exact seek_206_digest_unverified_refuted. Qed.
Print Assumptions C13_corruption_rejected_seek_digest_refuted.

(* the readers C13_seek speaks of are the ones the client hands out: in every capability
   profile (also ranges without Content-Length on the GET, where the descriptor comes from a
   HEAD) blob FetchReference and Fetch open the reader with the blob's true size *)
Theorem C13_seek_size_fetch_reference :
  forall (H : str -> str) (parse_mt : str -> option str) (subject_of : str -> option (option desc))
         (main other : str) (p : profile),
    parse_mt ct_octet = Some ct_octet ->
    forall g n rs rf c,
      resolve_ref main rs = Some rf -> valid_digest rf = true -> lookup rf (g_blobs g) = Some c ->
      exists n' t res,
        blob_fetchref parse_mt main (reg * N) (cexch H subject_of main other p None) (g, n) rs
        = ((g, n'), t, res) /\
        seeker_of res 0 = Some (rsc_open c (len c)).
Proof. exact fetchref_seeker. Qed.
Print Assumptions C13_seek_size_fetch_reference.

Theorem C13_seek_size_fetch :
  forall (H : str -> str) (subject_of : str -> option (option desc)) (main other : str) (p : profile)
         g n d c,
    lookup (d_dg d) (g_blobs g) = Some c -> len c = d_sz d -> valid_digest (d_dg d) = true ->
    exists t res,
      blob_fetch (reg * N) (cexch H subject_of main other p None) main (g, n) d = ((g, n + 1), t, res) /\
      seeker_of res (d_sz d) = Some (rsc_open c (len c)).
Proof. exact fetch_seeker. Qed.
Print Assumptions C13_seek_size_fetch.

(* ... and that reader returns, for EVERY body behaviour (short reads of any chunk size, the
   last bytes with or before io.EOF, per body), a prefix of the bytes at the position, no
   longer than the buffer, advances by exactly what it returned, and reports io.EOF only
   at the end of the content *)
Theorem C13_seek_read :
  forall (modes : nat -> bmode) content k n k1 rq c eof,
    s_closed k = false ->
    ref_step modes content k (SRead n) = (k1, rq, SData c eof) ->
    rq = [] /\ c = firstn (length c) (skipn (N.to_nat (s_off k)) content) /\
    (len c <= n) /\ s_off k1 = s_off k + len c /\
    (eof = true -> skipn (N.to_nat (s_off k1)) content = []).
Proof. exact ref_read_spec. Qed.
Print Assumptions C13_seek_read.

(* non-vacuity: a body that delivers 3 bytes per call and the last ones together with EOF;
   read to the very end, ask for the position, step back, re-read, seek to the same place *)
Example C13_seek_example :
  rsc_run (fun _ => mkBm 3 true) (range_srv (mkProfile true true true false false) zero_digest (b "hello world") None)
          (rsc_open (b "hello world") 11)
          [SRead 2; SSeek 6 SeekStart; SRead 100; SRead 100; SSeek 0 SeekCurrent; SRead 1;
           SSeek (-1) SeekCurrent; SRead 5; SSeek 11 SeekStart; SSeek 0 SeekEnd]
  = [([], SData (b "he") false); ([(6, 10)], SPos 6); ([], SData (b "wor") false);
     ([], SData (b "ld") true); ([], SPos 11); ([], SData [] true);
     ([(10, 10)], SPos 10); ([], SData (b "d") true); ([], SPos 11); ([], SPos 11)].
Proof. vm_compute. reflexivity. Qed.
