(* C10 -- A process crash never leaves an OCI layout unreadable, corrupt or half-updated.
   Only statements closed by [exact]; the lemmas live in Proofs/OciCrash.v, the model in
   Model/OciCrash.v (operations compiled to file-system micro-steps; a crash is a cut of
   the interrupted operation's step list at any position) and the meaning of
   "recoverable" in Model/OciCrashSpec.v.

   The model is configured by two facts re-read from the Go source on every run
   (Generated/GC10.v): [src_inplace] (does writeIndexFile write index.json in place, or a
   temporary sibling that is renamed) and [src_unlink_first] (does Store.delete remove the
   blob before or after it rewrites index.json).  The theorems are stated for the model
   of the CURRENT source; they stop checking when the source order changes. *)
From Oras Require Import Base.Prelude Generated.GC10 Model.OciCrash Model.OciCrashSpec Proofs.OciCrash.
From Oras Require Model.OciGC Proofs.OciGC.
From Oras Require Import Proofs.OciCrashGC.
From Oras Require Import Model.OciCrashConc Proofs.OciCrashConc.
From Oras Require Import Proofs.OciCrashOff Proofs.OciCrashSync Proofs.OciCrashGo.

(* For every digest/size verification function H, every iteration order of saveIndex,
   every history h of completed Push/Tag/Untag/Delete/SaveIndex operations on a freshly
   initialised store, every interrupted operation o and every cut k of its micro-steps:
   the directory found afterwards has a valid oci-layout, every file under blobs/ is
   complete and matches its name, index.json parses and each entry names an existing
   blob, index.json is the one before or the one after o, every blob that was there
   before and would be there after is there, and no other blob appeared. *)
Theorem C10_crash_safe :
  forall (H : list N -> N) (shuffle : nat -> list entry -> list entry),
    (forall c l e, In e (shuffle c l) <-> In e l) ->
    forall (h : list op) (o : op) (k : nat),
      let s := run H shuffle src_inplace src_unlink_first true h init in
      Recoverable H (sfs s) (crash_fs H shuffle src_inplace src_unlink_first true s o k)
        (sfs (run_op H shuffle src_inplace src_unlink_first true s o)).
Proof. exact crash_safe_src. Qed.
Print Assumptions C10_crash_safe.

(* The same after ANY earlier crashes: histories in which every operation either completed
   ([Done o]) or was interrupted at an arbitrary cut ([Crashed o k]) and the store was
   reopened with oci.New on whatever was left (the tag resolver is reloaded from
   index.json, leftover temporaries stay).  In particular the reopened store can always
   be read (take k = 0), and a crash during recovery work is again harmless. *)
Theorem C10_crash_safe_after_recoveries :
  forall (H : list N -> N) (shuffle : nat -> list entry -> list entry),
    (forall c l e, In e (shuffle c l) <-> In e l) ->
    forall (h : list hop) (o : op) (k : nat),
      let s := runc H shuffle src_inplace src_unlink_first true h init in
      Recoverable H (sfs s) (crash_fs H shuffle src_inplace src_unlink_first true s o k)
        (sfs (run_op H shuffle src_inplace src_unlink_first true s o)).
Proof. exact crash_safe_recovered_src. Qed.
Print Assumptions C10_crash_safe_after_recoveries.

(* Delete with AutoGC and GC: one API call that performs several primitive operations in a
   row ([steps_seq]): the plain deletes of the target, of its untagged referrers and of the
   content left dangling (queue order), resp. [Forget live] (drop the digest references
   of unreachable content, save the index) followed by the plain delete of every blob
   file outside the live set (directory order).  For EVERY list of primitives (whatever
   the cascade or the sweep visits, in whatever order), after any history with earlier
   crashes and for every cut k: the directory found is a crash state of ONE primitive o
   of the call -- recoverable between the quiescent states before and after o, which are
   reached from the start of the call by completed primitives -- or the final state.
   In particular index.json is rewritten before each unlink of the cascade and before
   the sweep. *)
Theorem C10_crash_safe_composite :
  forall (H : list N -> N) (shuffle : nat -> list entry -> list entry),
    (forall c l e, In e (shuffle c l) <-> In e l) ->
    forall (h : list hop) (os : list op) (k : nat),
      let s := runc H shuffle src_inplace src_unlink_first true h init in
      let fsk := crash_seq H shuffle src_inplace src_unlink_first true s os k in
      (exists pre o post,
         os = pre ++ o :: post /\
         let sj := run H shuffle src_inplace src_unlink_first true pre s in
         Recoverable H (sfs sj) fsk (sfs (run_op H shuffle src_inplace src_unlink_first true sj o))) \/
      (fsk = sfs (run H shuffle src_inplace src_unlink_first true os s) /\
       layout_ok fsk /\ blob_ok H fsk /\ index_ok fsk).
Proof. exact crash_safe_composite_src. Qed.
Print Assumptions C10_crash_safe_composite.

(* ... and relative to the whole call: a Delete-with-AutoGC cascade or a GC (any list of plain
   deletes, Forget and SaveIndex) only ever removes: whatever the cut, every blob that was
   there before the call and is there after it is there, and nothing is there that was
   not there before the call. *)
Theorem C10_cascade_blobs_between :
  forall (H : list N -> N) (shuffle : nat -> list entry -> list entry),
    (forall c l e, In e (shuffle c l) <-> In e l) ->
    forall (h : list hop) (os : list op) (k : nat),
      (forall o, In o os -> match o with Delete _ | Forget _ | SaveIndex => True | _ => False end) ->
      let s := runc H shuffle src_inplace src_unlink_first true h init in
      let fsk := crash_seq H shuffle src_inplace src_unlink_first true s os k in
      let fs1 := sfs (run H shuffle src_inplace src_unlink_first true os s) in
      (forall d, has (sfs s) (FBlob d) -> has fs1 (FBlob d) -> has fsk (FBlob d)) /\
      (forall d, has fsk (FBlob d) -> has (sfs s) (FBlob d)).
Proof. exact crash_shrinking_between_src. Qed.
Print Assumptions C10_cascade_blobs_between.

(* Delete with AutoGC, tag mapping: the cascade deletes the target d and then nodes xs that
   carry no reference name (the code skips tagged referrers and tagged dangling content).
   Whatever the cut, after any earlier crashes: the tag mapping read from index.json is
   the one before the call or the one after it -- although index.json itself is rewritten
   several times during the cascade. *)
Theorem C10_cascade_tags_before_or_after :
  forall (H : list N -> N) (shuffle : nat -> list entry -> list entry),
    (forall c l e, In e (shuffle c l) <-> In e l) ->
    forall (h : list hop) (d : N) (xs : list N) (k : nat),
      let s := runc H shuffle src_inplace src_unlink_first true h init in
      (forall l, read_index (sfs s) = Some l -> forall x r, In x xs -> ~ tag_of l r x) ->
      let os := Delete d :: map Delete xs in
      let fsk := crash_seq H shuffle src_inplace src_unlink_first true s os k in
      same_tags fsk (sfs s) \/ same_tags fsk (sfs (run H shuffle src_inplace src_unlink_first true os s)).
Proof. exact cascade_tags_src. Qed.
Print Assumptions C10_cascade_tags_before_or_after.

(* GC as the code does it: Forget (rebuild the maps, save index.json), then BARE removals of
   blob files (os.Remove, no Store.delete).  Under the fact the sweep relies on -- no swept
   blob is in the live set or carries a reference name (checked by the harness on every
   recorded GC) -- each removal of the call is exactly one unlink (the model's plain Delete
   degenerates to it), the tag mapping read from index.json is unchanged at every cut, and
   index.json is the one before the call or the one Forget saved.  Together with
   C10_crash_safe_composite and C10_cascade_blobs_between (gc_ops is such a list) this is
   the property for GC. *)
Theorem C10_gc_crash_safe :
  forall (H : list N -> N) (shuffle : nat -> list entry -> list entry),
    (forall c l e, In e (shuffle c l) <-> In e l) ->
    forall (h : list hop) (live xs : list N) (k : nat),
      let s := runc H shuffle src_inplace src_unlink_first true h init in
      (forall l, read_index (sfs s) = Some l ->
         forall x, In x xs -> ~ In x live /\ forall r, ~ tag_of l r x) ->
      let os := gc_ops live xs in
      let fsk := crash_seq H shuffle src_inplace src_unlink_first true s os k in
      (forall pre x post, map Delete xs = pre ++ Delete x :: post ->
         let sj := run H shuffle src_inplace src_unlink_first true pre
                     (run_op H shuffle src_inplace src_unlink_first true s (Forget live)) in
         op_steps H shuffle src_inplace src_unlink_first true sj (Delete x)
           = if exists_file (sfs sj) (FBlob x) then [Unlink (FBlob x)] else []) /\
      same_tags fsk (sfs s) /\
      (read_index fsk = read_index (sfs s) \/
       read_index fsk = read_index (sfs (run_op H shuffle src_inplace src_unlink_first true s (Forget live)))).
Proof. exact gc_crash_safe_src. Qed.
Print Assumptions C10_gc_crash_safe.

(* Bridge to C09 (Model/OciGC.v: WHAT Delete-with-AutoGC and GC remove, proved exact there).  The
   hypotheses of the two theorems above are derived from C09's characterisation of the removed
   sets, for every enumeration of them, given only that the two models agree on which nodes
   carry a reference name (node n of the C09 model = blob N.of_nat n here):
   the nodes C09's Delete removes besides its target ([Gone]) ... *)
Theorem C10_cascade_of_gc_model :
  forall (H : list N -> N) (shuffle : nat -> list entry -> list entry),
    (forall c l e, In e (shuffle c l) <-> In e l) ->
    forall succ subject manifest (g : Oras.Model.OciGC.state) (x : nat) (h : list hop) (xs : list nat) (k : nat),
      let s := runc H shuffle src_inplace src_unlink_first true h init in
      names_agree g s ->
      (forall y, In y xs -> Oras.Proofs.OciGC.Gone succ subject manifest g x y /\ y <> x) ->
      let os := Delete (N.of_nat x) :: map Delete (map N.of_nat xs) in
      let fsk := crash_seq H shuffle src_inplace src_unlink_first true s os k in
      same_tags fsk (sfs s) \/ same_tags fsk (sfs (run H shuffle src_inplace src_unlink_first true os s)).
Proof. exact cascade_of_gc_model_src. Qed.
Print Assumptions C10_cascade_of_gc_model.

(* ... and the stored nodes outside C09's live set ([Live]) that GC sweeps. *)
Theorem C10_gc_of_gc_model :
  forall (H : list N -> N) (shuffle : nat -> list entry -> list entry),
    (forall c l e, In e (shuffle c l) <-> In e l) ->
    forall succ subject manifest (g : Oras.Model.OciGC.state) (h : list hop) (live : list N) (xs : list nat) (k : nat),
      let s := runc H shuffle src_inplace src_unlink_first true h init in
      names_agree g s ->
      (forall z, In z live -> exists n, z = N.of_nat n /\ Oras.Proofs.OciGC.Live succ subject manifest g n) ->
      (forall y, In y xs -> In y (Oras.Model.OciGC.blobs g) /\ ~ Oras.Proofs.OciGC.Live succ subject manifest g y) ->
      let os := gc_ops live (map N.of_nat xs) in
      let fsk := crash_seq H shuffle src_inplace src_unlink_first true s os k in
      same_tags fsk (sfs s) /\
      (read_index fsk = read_index (sfs s) \/
       read_index fsk = read_index (sfs (run_op H shuffle src_inplace src_unlink_first true s (Forget live)))).
Proof. exact gc_of_gc_model_src. Qed.
Print Assumptions C10_gc_of_gc_model.

(* the agreement hypothesis is satisfiable (a layer and a tagged manifest in both models) *)
Example C10_names_agree_example :
  let Hf := fun c : list N => match c with [7] => 1 | [9] => 2 | _ => 0 end in
  let s := runc Hf (fun _ l => l) src_inplace src_unlink_first true
             [Done (Push 1 [7] false); Done (Push 2 [9] true); Done (Tag 2 5)] init in
  let g := {| Oras.Model.OciGC.blobs := [1; 2]%nat;
              Oras.Model.OciGC.idx := [(Oras.Model.OciGC.RDig 2, 2%nat); (Oras.Model.OciGC.RTag 5, 2%nat)];
              Oras.Model.OciGC.gnodes := [1; 2]%nat; Oras.Model.OciGC.strays := [];
              Oras.Model.OciGC.autogc := true |} in
  names_agree g s /\ read_index (sfs s) = Some [(2, Some 5)].
Proof. exact names_agree_example. Qed.

(* the tag mapping a reader derives from index.json is the one before or the one after *)
Theorem C10_tag_mapping_before_or_after :
  forall (H : list N -> N) (shuffle : nat -> list entry -> list entry),
    (forall c l e, In e (shuffle c l) <-> In e l) ->
    forall (h : list op) (o : op) (k : nat),
      let s := run H shuffle src_inplace src_unlink_first true h init in
      let fsk := crash_fs H shuffle src_inplace src_unlink_first true s o k in
      same_tags fsk (sfs s) \/
      same_tags fsk (sfs (run_op H shuffle src_inplace src_unlink_first true s o)).
Proof. exact crash_tags_src. Qed.
Print Assumptions C10_tag_mapping_before_or_after.

(* Effects of operations that returned are all present: after any history of completed
   operations the blobs under blobs/ and the tag mapping read from index.json are exactly
   those of the sequential specification of the API (spec_run: Push adds a verified blob,
   Delete removes it and its tags, Tag/Untag update the map). *)
Theorem C10_completed_effects :
  forall (H : list N -> N) (shuffle : nat -> list entry -> list entry),
    (forall c l e, In e (shuffle c l) <-> In e l) ->
    forall (h : list op),
      let s := run H shuffle src_inplace src_unlink_first true h init in
      let bs := fst (spec_run H h (fun _ => false) (fun _ => None)) in
      let tg := snd (spec_run H h (fun _ => false) (fun _ => None)) in
      (forall d, exists_file (sfs s) (FBlob d) = bs d) /\
      exists l, read_index (sfs s) = Some l /\ forall r n, tag_of l r n <-> tg r = Some n.
Proof. exact completed_effects_src. Qed.
Print Assumptions C10_completed_effects.

(* "Effects of operations that had returned before the crash are all present", across any
   number of crashes: a blob stored by a Push that returned is there as long as no later
   operation -- completed or interrupted at any cut -- is a Delete of it (cascades and
   sweeps are sequences of such deletes) ... *)
Theorem C10_completed_push_survives_crashes :
  forall (H : list N -> N) (shuffle : nat -> list entry -> list entry),
    (forall c l e, In e (shuffle c l) <-> In e l) ->
    forall (h : list hop) (d : N),
      stored_since H d h = true ->
      exists_file (sfs (runc H shuffle src_inplace src_unlink_first true h init)) (FBlob d) = true.
Proof. exact completed_push_survives_src. Qed.
Print Assumptions C10_completed_push_survives_crashes.

(* ... and a reference set by a Tag that returned (on a stored blob) is in index.json as long as
   no later operation -- completed or interrupted -- is a Tag or Untag of that name or a
   Delete of that blob. *)
Theorem C10_completed_tag_survives_crashes :
  forall (H : list N -> N) (shuffle : nat -> list entry -> list entry),
    (forall c l e, In e (shuffle c l) <-> In e l) ->
    forall (h : list hop) (d r : N),
      tagged_since H d r h = true ->
      exists l, read_index (sfs (runc H shuffle src_inplace src_unlink_first true h init)) = Some l /\
                tag_of l r d.
Proof. exact completed_tag_survives_src. Qed.
Print Assumptions C10_completed_tag_survives_crashes.

(* The converse, across any number of crashes: nothing is invented.  Every blob file under
   blobs/ was pushed (with content that verifies) by some operation of the history, completed or
   interrupted; every reference name in index.json was set by some Tag of the history. *)
Theorem C10_nothing_invented :
  forall (H : list N -> N) (shuffle : nat -> list entry -> list entry),
    (forall c l e, In e (shuffle c l) <-> In e l) ->
    forall (h : list hop),
      let s := runc H shuffle src_inplace src_unlink_first true h init in
      (forall d, exists_file (sfs s) (FBlob d) = true -> pushed_in H d h) /\
      (forall l d r, read_index (sfs s) = Some l -> tag_of l r d -> tagged_in d r h).
Proof. exact nothing_invented_src. Qed.
Print Assumptions C10_nothing_invented.

Example C10_survives_example :
  let H := fun c : list N => match c with [7] => 1 | [9] => 2 | _ => 0 end in
  let h := [Done (Push 2 [9] true); Done (Tag 2 5); Crashed (Push 1 [7] false) 3;
            Crashed (Tag 2 6) 2; Done (Push 1 [7] false); Crashed (Delete 1) 0] in
  stored_since H 2 h = true /\ tagged_since H 2 5 h = true /\
  stored_since H 1 h = false /\ tagged_since H 2 6 h = false.
Proof. vm_compute. repeat split; reflexivity. Qed.

(* The API layer (Model expand / runa): a call of the Store is a list of primitives that depends
   on the media type and on the decodability of the content -- a manifest-typed blob whose
   bytes do not decode is stored, found unindexable and removed again by Push, and refused
   by Tag.  "The directory can be opened again" in full: after ANY history of completed and
   interrupted calls and ANY cut of ANY call, loadIndex succeeds -- index.json parses, every
   entry names a blob file, and every manifest-typed entry decodes. *)
Theorem C10_api_reopen_loads :
  forall (H : list N -> N) (shuffle : nat -> list entry -> list entry),
    (forall c l e, In e (shuffle c l) <-> In e l) ->
    forall (mt dec : N -> bool) (h : list acall) (a : api) (k : nat),
      let s := runa H shuffle src_inplace src_unlink_first true mt dec h init in
      load_okb mt dec (crash_seq H shuffle src_inplace src_unlink_first true s (expand H mt dec s a) k) = true.
Proof. exact api_crash_load_ok_src. Qed.
Print Assumptions C10_api_reopen_loads.

(* ... and the cut is a crash state of one primitive of the call's expansion, recoverable between
   the quiescent states around it (all earlier theorems apply to histories of calls). *)
Theorem C10_api_crash_safe :
  forall (H : list N -> N) (shuffle : nat -> list entry -> list entry),
    (forall c l e, In e (shuffle c l) <-> In e l) ->
    forall (mt dec : N -> bool) (h : list acall) (a : api) (k : nat),
      let s := runa H shuffle src_inplace src_unlink_first true mt dec h init in
      let os := expand H mt dec s a in
      let fsk := crash_seq H shuffle src_inplace src_unlink_first true s os k in
      (exists pre o post,
         os = pre ++ o :: post /\
         let sj := run H shuffle src_inplace src_unlink_first true pre s in
         Recoverable H (sfs sj) fsk (sfs (run_op H shuffle src_inplace src_unlink_first true sj o))) \/
      (fsk = sfs (run H shuffle src_inplace src_unlink_first true os s) /\
       layout_ok fsk /\ blob_ok H fsk /\ index_ok fsk).
Proof. exact api_crash_safe_src. Qed.
Print Assumptions C10_api_crash_safe.

(* A history of calls IS a history of primitives with crashes, so the theorems about [runc]
   (completed effects survive, nothing is invented, cascades, GC) speak about API histories. *)
Theorem C10_api_history_is_primitive_history :
  forall (H : list N -> N) (shuffle : nat -> list entry -> list entry),
    (forall c l e, In e (shuffle c l) <-> In e l) ->
    forall (mt dec : N -> bool) (h : list acall),
    exists hs, runa H shuffle src_inplace src_unlink_first true mt dec h init
               = runc H shuffle src_inplace src_unlink_first true hs init.
Proof. exact runa_is_runc_src. Qed.
Print Assumptions C10_api_history_is_primitive_history.

(* Before the repairs of audit F2 (Push kept the undecodable manifest, Tag accepted it):
   refuted -- loadIndex fails on the resulting index. *)
Theorem C10_api_reopen_refuted_undecodable :
  exists (mt dec : N -> bool) (H : list N -> N) (os : list op),
    load_okb mt dec (sfs (run H (fun _ l => l) false false true os init)) = false.
Proof. exact reopen_refuted_undecodable. Qed.
Print Assumptions C10_api_reopen_refuted_undecodable.

(* Concurrent callers (Model/OciCrashConc.v).  Push, Tag, Untag and SaveIndex hold the Store's
   RWMutex for reading and run concurrently (Delete and GC run alone: the sequential model).
   Threads execute atomic actions -- append to the own ingest file, publish it (rename to
   blobs/<d>) once verified, update the resolver, and saveIndex as the critical section of
   indexLock (snapshot of the resolver when the lock is taken, published by one rename).
   For every history with earlier crashes, every set of concurrent calls and EVERY schedule
   (list of thread ids; a crash is the configuration after any prefix): oci-layout valid,
   every blob complete and matching its name, index.json parses and names only existing
   blobs, and every blob that was there when the calls started is there. *)
Theorem C10_conc_crash_safe :
  forall (H : list N -> N) (shuffle : nat -> list entry -> list entry),
    (forall c l e, In e (shuffle c l) <-> In e l) ->
    forall (h : list hop) (calls : list ccall) (is : list nat),
      let s := runc H shuffle src_inplace src_unlink_first true h init in
      let c := sched shuffle (start H s calls) is in
      layout_ok (cfs c) /\ blob_ok H (cfs c) /\ index_ok (cfs c) /\
      (forall d, has (sfs s) (FBlob d) -> has (cfs c) (FBlob d)).
Proof. exact conc_crash_safe_src. Qed.
Print Assumptions C10_conc_crash_safe.

(* ... and the tag mapping under concurrency: at every point of every schedule, a reference name in
   index.json was there when the calls started or is set by one of the concurrent Tag calls. *)
Theorem C10_conc_tags_origin :
  forall (H : list N -> N) (shuffle : nat -> list entry -> list entry),
    (forall c l e, In e (shuffle c l) <-> In e l) ->
    forall (h : list hop) (calls : list ccall) (is : list nat),
      let s := runc H shuffle src_inplace src_unlink_first true h init in
      let c := sched shuffle (start H s calls) is in
      forall l r n, read_index (cfs c) = Some l -> tag_of l r n ->
        (exists l0, read_index (sfs s) = Some l0 /\ tag_of l0 r n) \/ In (CTag n r) calls.
Proof. exact conc_tags_origin_src. Qed.
Print Assumptions C10_conc_tags_origin.

(* The concurrent model refines the sequential one: a call that runs ALONE (one thread, scheduled to
   completion) leaves exactly the shared directory (all non-temporary paths) and the resolver
   of the sequential model's operation -- the model that the kill-at-k correspondence ties to
   the code. *)
Theorem C10_conc_alone_refines :
  forall (H : list N -> N) (shuffle : nat -> list entry -> list entry),
    (forall c l e, In e (shuffle c l) <-> In e l) ->
    forall (h : list hop) (x : ccall),
      let s := runc H shuffle src_inplace src_unlink_first true h init in
      exists n,
        let c := sched shuffle (start H s [x]) (repeat 0%nat n) in
        let s1 := run_op H shuffle src_inplace src_unlink_first true s (op_of_call x) in
        ctags c = stags s1 /\ cdigs c = sdigs s1 /\
        (forall p, is_temp p = false -> files (cfs c) p = files (sfs s1) p) /\ clock c = false.
Proof. exact conc_alone_refines_src. Qed.
Print Assumptions C10_conc_alone_refines.

(* the order "publish the blob, then enter it into the resolver" is needed: a thread that tags
   first lets saveIndex write an entry for a blob that is not there yet *)
Theorem C10_conc_refuted_tag_before_publish :
  exists (H : list N -> N) (t : thread) (is : list nat),
    let c := sched (fun _ l => l) (mkConf init_fs [] [] false 0 [t]) is in
    ~ index_ok (cfs c).
Proof. exact conc_unsafe_tag_before_publish. Qed.
Print Assumptions C10_conc_refuted_tag_before_publish.

Example C10_conc_example :
  let H := fun c : list N => match c with [7] => 1 | [8] => 2 | [9] => 3 | _ => 0 end in
  let id := fun (_ : nat) (l : list entry) => l in
  let s := runc H id src_inplace src_unlink_first true [Done (Push 3 [9] true)] init in
  let c := sched id (start H s [CPush 1 [7] true; CPush 2 [8] true; CTag 3 5]) [0; 2; 0; 2; 2; 0; 2; 0; 1; 2]%nat in
  read_index (cfs c) = Some [(3, Some 5)] /\
  exists_file (cfs c) (FBlob 1) = true /\ exists_file (cfs c) (FBlob 2) = false /\
  cdigs c = [1; 3] /\ clock c = false.
Proof. vm_compute. repeat split; reflexivity. Qed.

(* What indexLock is for.  A history alternates sequential phases (any operations, Delete and GC
   included, completed or interrupted with the store reopened: PSeq), batches of concurrent
   Push / Tag / Untag / SaveIndex calls under any schedule that lets all calls of the batch
   return (PConc, [phases_quiet]) and batches killed after any prefix of any schedule, the
   store reopened (PConcCrash).  Then index.json is exactly what
   saveIndex would write from the resolver now: no completed Tag, Untag or manifest Push is
   missing from it, whatever the interleaving of the resolver updates, snapshots and renames
   was (the last publisher took its snapshot after every other call's resolver update). *)
Theorem C10_conc_quiescent_synced :
  forall (H : list N -> N) (shuffle : nat -> list entry -> list entry),
    (forall c l e, In e (shuffle c l) <-> In e l) ->
    forall ps : list phase,
      phases_quiet H shuffle src_inplace src_unlink_first init ps = true ->
      let s := run_phases H shuffle src_inplace src_unlink_first init ps in
      exists l, read_index (sfs s) = Some l /\ forall e, In e l <-> In e (save (stags s) (sdigs s)).
Proof. exact conc_quiescent_synced_src. Qed.
Print Assumptions C10_conc_quiescent_synced.

(* ... and the sequential model's invariant is back at that point: after any such history, and
   any further operations some of which were interrupted (and the store reopened), a crash at any
   cut of any operation is Recoverable, and so is every configuration of every schedule of a
   further batch of concurrent calls. *)
Theorem C10_conc_phases_crash_safe :
  forall (H : list N -> N) (shuffle : nat -> list entry -> list entry),
    (forall c l e, In e (shuffle c l) <-> In e l) ->
    forall (ps : list phase) (h : list hop),
      phases_quiet H shuffle src_inplace src_unlink_first init ps = true ->
      let s := runc H shuffle src_inplace src_unlink_first true h
                    (run_phases H shuffle src_inplace src_unlink_first init ps) in
      (forall o k, Recoverable H (sfs s) (crash_fs H shuffle src_inplace src_unlink_first true s o k)
                               (sfs (run_op H shuffle src_inplace src_unlink_first true s o))) /\
      (forall calls is,
         let c := sched shuffle (start H s calls) is in
         layout_ok (cfs c) /\ blob_ok H (cfs c) /\ index_ok (cfs c) /\
         (forall d, has (sfs s) (FBlob d) -> has (cfs c) (FBlob d))).
Proof. exact conc_phases_crash_safe_src. Qed.
Print Assumptions C10_conc_phases_crash_safe.

(* Completed effects under concurrency: after any such history, a Push that has returned (its
   batch ran until all calls had returned) has stored its blob, and a manifest that was not there
   before has its entry in index.json -- whatever ran at the same time. *)
Theorem C10_conc_completed_push :
  forall (H : list N -> N) (shuffle : nat -> list entry -> list entry),
    (forall c l e, In e (shuffle c l) <-> In e l) ->
    forall (ps : list phase) (calls : list ccall) (is : list nat) (i : nat) (d : N) (cont : list N) (man : bool),
      phases_quiet H shuffle src_inplace src_unlink_first init ps = true ->
      let s := run_phases H shuffle src_inplace src_unlink_first init ps in
      let c := sched shuffle (start H s calls) is in
      nth_error calls i = Some (CPush d cont man) -> H cont = d -> quietb c = true ->
      has (cfs c) (FBlob d) /\
      (exists_file (sfs s) (FBlob d) = false -> man = true ->
       exists l r, read_index (cfs c) = Some l /\ In (d, r) l).
Proof. exact conc_completed_push_src. Qed.
Print Assumptions C10_conc_completed_push.

(* ... a Tag that has returned, of a blob that was stored, no other call of its batch naming the
   same reference: index.json has the reference, whatever else ran at the same time ... *)
Theorem C10_conc_completed_tag :
  forall (H : list N -> N) (shuffle : nat -> list entry -> list entry),
    (forall c l e, In e (shuffle c l) <-> In e l) ->
    forall (ps : list phase) (calls : list ccall) (is : list nat) (i : nat) (d r : N),
      phases_quiet H shuffle src_inplace src_unlink_first init ps = true ->
      let s := run_phases H shuffle src_inplace src_unlink_first init ps in
      let c := sched shuffle (start H s calls) is in
      nth_error calls i = Some (CTag d r) -> exists_file (sfs s) (FBlob d) = true ->
      (forall j x, nth_error calls j = Some x -> j <> i -> (forall d', x <> CTag d' r) /\ x <> CUntag r) ->
      quietb c = true ->
      exists l, read_index (cfs c) = Some l /\ In (d, Some r) l.
Proof. exact conc_completed_tag_src. Qed.
Print Assumptions C10_conc_completed_tag.

(* ... and an Untag that has returned: index.json does not have the reference. *)
Theorem C10_conc_completed_untag :
  forall (H : list N -> N) (shuffle : nat -> list entry -> list entry),
    (forall c l e, In e (shuffle c l) <-> In e l) ->
    forall (ps : list phase) (calls : list ccall) (is : list nat) (i : nat) (r : N),
      phases_quiet H shuffle src_inplace src_unlink_first init ps = true ->
      let s := run_phases H shuffle src_inplace src_unlink_first init ps in
      let c := sched shuffle (start H s calls) is in
      nth_error calls i = Some (CUntag r) ->
      (forall j x, nth_error calls j = Some x -> j <> i -> (forall d', x <> CTag d' r) /\ x <> CUntag r) ->
      quietb c = true ->
      exists l, read_index (cfs c) = Some l /\ forall n, ~ In (n, Some r) l.
Proof. exact conc_completed_untag_src. Qed.
Print Assumptions C10_conc_completed_untag.

(* The hypothesis "no other call names the reference" is needed: two Tag calls of one reference,
   both returned, the reference names the other blob. *)
Theorem C10_conc_completed_tag_refuted_shared_reference :
  exists (H : list N -> N) (s : st) (calls : list ccall) (is : list nat),
    let c := sched (fun _ l => l) (start H s calls) is in
    nth_error calls 0 = Some (CTag 1 10) /\ quietb c = true /\ read_index (cfs c) = Some [(2, Some 10); (1, None)].
Proof. exact conc_completed_tag_needs_alone. Qed.

(* The callers as they really are: goroutines that each make a QUEUE of calls one after the other,
   the program of each call decided when that call starts (on the state the other goroutines have
   produced by then).  After any history (phases, then operations with crashes), for every set of
   queues and every schedule, at every prefix: the directory is one the property accepts; and when
   every goroutine has made all its calls and the last has returned, index.json is exactly the
   index of the resolver. *)
Theorem C10_goroutines_crash_safe :
  forall (H : list N -> N) (shuffle : nat -> list entry -> list entry),
    (forall c l e, In e (shuffle c l) <-> In e l) ->
    forall (ps : list phase) (h : list hop) (qs : list (list ccall)) (is : list nat),
      phases_quiet H shuffle src_inplace src_unlink_first init ps = true ->
      let s := runc H shuffle src_inplace src_unlink_first true h
                    (run_phases H shuffle src_inplace src_unlink_first init ps) in
      let g := gsched H shuffle (gstart s qs) is in
      layout_ok (cfs (gc g)) /\ blob_ok H (cfs (gc g)) /\ index_ok (cfs (gc g)) /\
      (forall d, has (sfs s) (FBlob d) -> has (cfs (gc g)) (FBlob d)) /\
      (gquietb g = true ->
       exists l, read_index (cfs (gc g)) = Some l /\
                 forall e, In e l <-> In e (save (ctags (gc g)) (cdigs (gc g)))).
Proof. exact go_crash_safe_src. Qed.
Print Assumptions C10_goroutines_crash_safe.

(* satisfiable; and "decided when it starts" matters: a Tag of a blob that another goroutine pushes
   in the same batch takes effect iff it starts after the blob was published *)
Theorem C10_goroutines_example :
  let H := fun _ : list N => 1 in
  let id := fun (_ : nat) (l : list entry) => l in
  let g1 := gsched H id (gstart init [[CPush 1 [5] true; CTag 1 10]; [CUntag 10]]) [1; 0; 0; 0; 0; 0; 0; 0; 0; 0; 0; 0; 0; 0]%nat in
  let g2 := gsched H id (gstart init [[CPush 1 [5] true]; [CTag 1 10]]) [1; 0; 0; 0; 0; 0; 0; 0; 1]%nat in
  gquietb g1 = true /\ read_index (cfs (gc g1)) = Some [(1, Some 10)] /\
  gquietb g2 = true /\ read_index (cfs (gc g2)) = Some [(1, None)].
Proof. exact go_example. Qed.

(* Without indexLock (the same threads, the lock ignored) the first statement is false: two Tag
   calls, the earlier snapshot published last; both have returned, the resolver has both
   references, index.json has one. *)
Theorem C10_conc_refuted_without_indexlock :
  exists (H : list N -> N) (s : st) (calls : list ccall) (is : list nat),
    let c := sched_nolock (fun _ l => l) (start H s calls) is in
    quietb c = true /\ In (11, 1) (ctags c) /\ read_index (cfs c) = Some [(1, Some 10)].
Proof. exact conc_unsynced_without_indexlock. Qed.
Print Assumptions C10_conc_refuted_without_indexlock.

(* the hypothesis is satisfiable *)
Theorem C10_conc_phases_example :
  let ps := [PSeq [Done (Push 1 [5] true)];
             PConc [CTag 1 10; CTag 1 11] [0; 1; 0; 1; 0; 0; 0; 1; 1; 1]%nat;
             PSeq [Crashed (Untag 10) 1; Done (Untag 10)];
             PConcCrash [CTag 1 12; CSaveIndex] [0; 1; 0]%nat;
             PConc [CPush 1 [6] false; CSaveIndex] [1; 0; 1; 0; 1; 0]%nat] in
  phases_quiet (fun _ => 1) (fun _ l => l) src_inplace src_unlink_first init ps = true /\
  read_index (sfs (run_phases (fun _ => 1) (fun _ l => l) src_inplace src_unlink_first init ps)) = Some [(1, Some 11)].
Proof. exact phases_example. Qed.

(* Nothing that a reader looks at is ever written in place: every create / truncate /
   write / chmod micro-step of every operation targets a temporary (ingest/<d>_<rnd> or
   index.json.tmp<rnd>); oci-layout, index.json and blobs/ change by rename and unlink
   only.  Hence the granularity of write(2) (partial or torn writes) is irrelevant. *)
Theorem C10_no_in_place_write :
  forall (H : list N -> N) (shuffle : nat -> list entry -> list entry) (s : st) (o : op) (m : mstep),
    In m (op_steps H shuffle src_inplace src_unlink_first true s o) ->
    match m with
    | Create p | OpenTrunc p | Write p _ | Chmod p => is_temp p = true
    | _ => True
    end.
Proof. exact no_in_place_write_src. Qed.
Print Assumptions C10_no_in_place_write.

(* Initialisation (beyond the property's "initialised store"): the first oci.New on an empty
   directory is cut anywhere; the directory it leaves never makes a later oci.New fail, and
   that New completes the layout: valid oci-layout, index.json without manifests, blobs/. *)
Theorem C10_init_restartable :
  forall (shuffle : nat -> list entry -> list entry),
    (forall c l e, In e (shuffle c l) <-> In e l) ->
    forall k,
      let fsk := apply (firstn k (new_steps shuffle src_inplace src_layout_inplace empty_fs 0)) empty_fs in
      let fs2 := apply (new_steps shuffle src_inplace src_layout_inplace fsk 1) fsk in
      new_okb fsk = true /\
      layout_okb fs2 = true /\ read_index fs2 = Some [] /\ dirs fs2 DBlobs = true /\
      forall d, files fs2 (FBlob d) = None.
Proof. exact init_restartable_src. Qed.
Print Assumptions C10_init_restartable.

(* ... and for ANY number of interrupted attempts (each oci.New cut at an arbitrary point, the next
   one started on whatever was left, leftover temporaries included): the directory never makes
   oci.New fail, and the first attempt that runs to completion leaves a valid oci-layout, an
   index.json without manifests, blobs/ and no blob. *)
Theorem C10_init_restartable_many :
  forall (shuffle : nat -> list entry -> list entry),
    (forall c l e, In e (shuffle c l) <-> In e l) ->
    forall (ks : list nat),
      let fs := fst (init_attempts shuffle src_inplace src_layout_inplace ks empty_fs 0) in
      let c := snd (init_attempts shuffle src_inplace src_layout_inplace ks empty_fs 0) in
      let fs' := apply (new_steps shuffle src_inplace src_layout_inplace fs c) fs in
      new_okb fs = true /\
      files fs' FLayout = Some (mkFile [ALayout] false) /\
      files fs' FIndex = Some (mkFile [AIndex []] false) /\
      (forall d, files fs' (FBlob d) = None) /\ dirs fs' DBlobs = true.
Proof. exact init_restartable_many_src. Qed.
Print Assumptions C10_init_restartable_many.

(* oci-layout written in place (the code before the repair): refuted, cut after open(O_TRUNC) *)
Theorem C10_init_refuted_layout_inplace :
  forall (shuffle : nat -> list entry -> list entry),
  exists k, new_okb (apply (firstn k (new_steps shuffle false true empty_fs 0)) empty_fs) = false.
Proof. exact init_unrestartable_inplace. Qed.
Print Assumptions C10_init_refuted_layout_inplace.

(* the source orders the proof relies on: temp+rename index write, index before unlink,
   blob stored before it is tagged, ingest = create temp / copy+verify / chmod, then rename,
   GC = rebuild, save index, then sweep *)
Theorem C10_source_order :
  src_inplace = false /\ src_unlink_first = false /\ src_push_order_ok = true /\ src_gc_order_ok = true /\
  src_layout_inplace = false /\ src_guards_ok = true.
Proof.
  exact (conj src_inplace_false (conj src_unlink_first_false (conj src_push_order
          (conj src_gc_order (conj src_layout_inplace_false src_guards))))).
Qed.
Print Assumptions C10_source_order.

(* The lock discipline the two models rest on, read off the source: Push / Tag / Untag / SaveIndex
   hold the read lock for the whole call (the concurrent model's threads), Delete and GC the write
   lock (sequential operations), saveIndex holds indexLock from before its resolver snapshot until
   index.json is renamed into place (the concurrent model's critical section). *)
Theorem C10_source_locks : src_locks_ok = true.
Proof. exact src_locks. Qed.
Print Assumptions C10_source_locks.

(* Initialisation and loading as the model has them (new_steps, reopen, load, load_okb), read off
   the source: NewWithContext creates storage, blobs/, oci-layout, index.json in this order; each
   file is written (atomically) only when opening it failed and validated / loaded otherwise;
   loadIndex enters every index entry by digest, by name iff it has a reference name, and indexes it. *)
Theorem C10_source_init : src_init_ok = true.
Proof. exact src_init. Qed.
Print Assumptions C10_source_init.

(* The code before the repair (os.WriteFile on index.json itself, [inplace = true]):
   the theorem is false.  Witness: SaveIndex on the fresh store cut after open(O_TRUNC). *)
Theorem C10_crash_safe_refuted_inplace :
  forall (H : list N -> N),
  exists h o k,
    let s := run H (fun _ l => l) true false true h init in
    ~ Recoverable H (sfs s) (crash_fs H (fun _ l => l) true false true s o k)
        (sfs (run_op H (fun _ l => l) true false true s o)).
Proof. exact crash_unsafe_inplace. Qed.
Print Assumptions C10_crash_safe_refuted_inplace.

(* Store.delete with its two effects swapped (unlink, then index): false as well.
   Witness: push a manifest, delete it, cut after the unlink. *)
Theorem C10_crash_safe_refuted_unlink_first :
  exists H h o k,
    let s := run H (fun _ l => l) false true true h init in
    ~ Recoverable H (sfs s) (crash_fs H (fun _ l => l) false true true s o k)
        (sfs (run_op H (fun _ l => l) false true true s o)).
Proof. exact crash_unsafe_unlink_first. Qed.
Print Assumptions C10_crash_safe_refuted_unlink_first.

(* AutoSaveIndex = false (the last argument of run/crash_fs; every theorem above is stated
   for the default true): the property does NOT hold.  Witness: push a manifest, tag it,
   SaveIndex, Delete it -- the blob is unlinked while the saved index.json still names it
   (no crash needed; known finding autosave-off-index-dangling). *)
Theorem C10_crash_safe_refuted_autosave_off :
  exists H h o k,
    let s := run H (fun _ l => l) false false false h init in
    ~ Recoverable H (sfs s) (crash_fs H (fun _ l => l) false false false s o k)
        (sfs (run_op H (fun _ l => l) false false false s o)).
Proof. exact crash_unsafe_autosave_off. Qed.
Print Assumptions C10_crash_safe_refuted_autosave_off.

(* the hypotheses of the cascade / GC theorems are satisfiable on a non-trivial instance:
   a layer (1), an untagged manifest (3) and a tagged manifest (2); GC with live = [2]
   sweeps 1 and 3; the cut after Forget and one removal *)
Example C10_gc_example_instance :
  let H := fun c : list N => match c with [7] => 1 | [9] => 2 | [8] => 3 | _ => 0 end in
  let id := fun (_ : nat) (l : list entry) => l in
  let h := [Done (Push 1 [7] false); Done (Push 2 [9] true); Done (Push 3 [8] true); Done (Tag 2 5)] in
  let s := runc H id src_inplace src_unlink_first true h init in
  let fsk := crash_seq H id src_inplace src_unlink_first true s (gc_ops [2] [1; 3]) 5 in
  read_index (sfs s) = Some [(2, Some 5); (3, None)] /\
  read_index fsk = Some [(2, Some 5)] /\
  exists_file fsk (FBlob 1) = false /\ exists_file fsk (FBlob 3) = true /\ exists_file fsk (FBlob 2) = true.
Proof. vm_compute. repeat split; reflexivity. Qed.

(* ... and what DOES hold with AutoSaveIndex = false (everything but "every index entry names an
   existing blob"): at every cut of every operation after every history the layout is valid,
   every blob file is complete and matches its name, index.json parses and is the one before
   or the one after, and the blobs lie between before and after.  (No hypothesis on the map
   order is needed.) *)
Theorem C10_autosave_off_partial :
  forall (H : list N -> N) (shuffle : nat -> list entry -> list entry) (h : list op) (o : op) (k : nat),
    let s := run H shuffle src_inplace src_unlink_first false h init in
    let fsk := crash_fs H shuffle src_inplace src_unlink_first false s o k in
    let fs1 := sfs (run_op H shuffle src_inplace src_unlink_first false s o) in
    layout_ok fsk /\ blob_ok H fsk /\ (exists l, read_index fsk = Some l) /\
    (read_index fsk = read_index (sfs s) \/ read_index fsk = read_index fs1) /\
    (forall d, has (sfs s) (FBlob d) -> has fs1 (FBlob d) -> has fsk (FBlob d)) /\
    (forall d, has fsk (FBlob d) -> has (sfs s) (FBlob d) \/ has fs1 (FBlob d)).
Proof. exact autosave_off_partial_src. Qed.
Print Assumptions C10_autosave_off_partial.

(* The hypotheses are satisfiable and the statement is not vacuous: a concrete history
   (push a layer, push a manifest, tag it, delete it cut after the index rename). *)
Example C10_example_instance :
  let H := fun c : list N => match c with [7; 8] => 1 | [9] => 2 | _ => 0 end in
  let id := fun (_ : nat) (l : list entry) => l in
  let h := [Push 1 [7; 8] false; Push 2 [9] true; Tag 2 5] in
  let s := run H id src_inplace src_unlink_first true h init in
  let fsk := crash_fs H id src_inplace src_unlink_first true s (Delete 2) 4 in
  let fs1 := sfs (run_op H id src_inplace src_unlink_first true s (Delete 2)) in
  (forall c l e, In e (id c l) <-> In e l) /\
  recoverableb H [1; 2] (sfs s) fsk fs1 = true /\
  read_index (sfs s) = Some [(2, Some 5)] /\
  read_index fsk = Some [] /\
  exists_file fsk (FBlob 2) = true /\
  exists_file fs1 (FBlob 2) = false.
Proof. split; [intros; reflexivity|]. vm_compute. repeat split; reflexivity. Qed.
