From Oras Require Import Base.Prelude Model.OciCrash Proofs.OciCrash.
