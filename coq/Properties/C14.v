(* C14 — Client-maintained referrers indexes lose no update under concurrency. *)
From Oras Require Import Base.Prelude Model.Referrers Proofs.Referrers.

Theorem C14_filter_exact : forall refs art d,
  In d (filter_referrers refs art) <-> In d refs /\ (art = 0 \/ dart d = art).
Proof. exact filter_referrers_spec. Qed.
Print Assumptions C14_filter_exact.
