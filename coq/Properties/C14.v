(* C14 — Client-maintained referrers indexes lose no update under concurrency. *)
From Oras Require Import Base.Prelude Generated.GC14 Model.Referrers Proofs.Referrers Model.Merge
  Proofs.Merge Proofs.MergeLin Proofs.MergeThm Model.Delivery Proofs.Delivery Model.Live Proofs.Live
  Model.MergeFine Proofs.MergeFine Proofs.MergeFineWake Proofs.MergeFine2 Proofs.MergeFine3 Proofs.MergeFineProg.

(* applyReferrerChanges (position map, tombstones, hint) = set semantics on the
   de-duplicated, non-empty old list; survivors keep their order, additions are
   appended with the descriptor (artifact type, annotations) given by the caller *)
Theorem C14_apply_set_semantics : forall old cs l,
  changes_nonempty cs -> apply_changes old cs = Updated l ->
  l = spec_apply old cs /\
  (NoDup (keys l) /\ Forall (fun d => nonempty d = true) l) /\
  (forall k, In k (keys l) <-> member_after k (negb (k =? 0) && has_key k old) cs = true).
Proof. exact apply_set_semantics. Qed.
Print Assumptions C14_apply_set_semantics.

(* errNoReferrerUpdate iff nothing changes; duplicates / empty entries force an update *)
Theorem C14_apply_noupdate_iff : forall old cs,
  changes_nonempty cs ->
  (apply_changes old cs = NoUpdate <->
   (NoDup (keys old) /\ Forall (fun d => nonempty d = true) old) /\
   forall k, In k (keys old) <-> In k (keys (spec_apply old cs))).
Proof. exact apply_noupdate_iff. Qed.
Print Assumptions C14_apply_noupdate_iff.

Theorem C14_apply_order : forall l c k1 k2,
  (forall d, c = Remove d -> dkey d <> k1 /\ dkey d <> k2) ->
  forall l1 l2 l3 a b, l = l1 ++ a :: l2 ++ b :: l3 -> dkey a = k1 -> dkey b = k2 ->
  exists m1 m2 m3, spec_step l c = m1 ++ a :: m2 ++ b :: m3.
Proof. exact spec_step_survivors. Qed.
Print Assumptions C14_apply_order.

Theorem C14_remove_empty : forall l hint,
  (length (filter nonempty l) <= hint)%nat -> remove_empty l hint = filter nonempty l.
Proof. exact remove_empty_spec. Qed.
Print Assumptions C14_remove_empty.

Theorem C14_filter_exact : forall refs art d,
  In d (filter_referrers refs art) <-> In d refs /\ (art = 0 \/ dart d = art).
Proof. exact filter_referrers_spec. Qed.
Print Assumptions C14_filter_exact.

(* the entries of the updated index are old entries or the descriptors handed in by
   push, unchanged; the artifact type indexReferrersForPush puts into such a
   descriptor is the one a registry with the Referrers API lists *)
Theorem C14_entries_origin : forall d old cs,
  In d (spec_apply old cs) -> In d old \/ In (Add d) cs.
Proof. exact spec_apply_origin. Qed.
Print Assumptions C14_entries_origin.
Theorem C14_equals_api : forall k art cfg, referrer_art k art cfg = api_art k art cfg.
Proof. exact referrer_art_api. Qed.
Print Assumptions C14_equals_api.

(* every interleaving of any number of callers on one tag: at most one caller is
   between prepare and complete, it holds the main status exclusively, the Pool
   entry's reference count is the number of callers inside updateReferrersIndex
   and the entry (the Merge object) is dropped only when nobody is inside *)
Theorem C14_single_main : forall sg r0 st0 tr s,
  run sg (init r0 st0) tr = Some s ->
  (forall t1 t2, is_main (pcs s t1) = true -> is_main (pcs s t2) = true -> t1 = t2) /\
  (forall t, is_main (pcs s t) = true -> token s = false) /\
  (exists hs, NoDup hs /\ (forall t, In t hs <-> holding (pcs s t) = true) /\
     match pool s with None => hs = [] | Some rc => rc = length hs /\ hs <> [] end) /\
  (pool s = None -> (forall t, holding (pcs s t) = false) /\ items s = [] /\ pending s = []).
Proof. exact single_main. Qed.
Print Assumptions C14_single_main.

(* "exactly the live manifests", concurrent: for EVERY interleaving of pushes and deletes of
   referrers of one subject through one Repository (any number of callers, any batching, any
   pre-existing index consistent with the live set, injected failures of the index
   exchanges) in which operations on the SAME manifest do not overlap (Model/Live.v: the
   manifest PUT precedes, the manifest DELETE follows the index update), at every instant:
   a manifest that no operation is working on, and that no failed operation has touched, is
   listed iff it is in the registry.  Without the no-overlap guard: C14_listing_is_live_refuted. *)
Theorem C14_listing_is_live : forall sg r0 st0 live0 tr m,
  tracks (r0, live0) -> lrun sg (linit r0 st0 live0) tr = Some m ->
  forall k, ~ In k (map ent_key (l_inflight m)) -> ~ In k (l_taint m) -> consistent m k.
Proof. exact listing_is_live. Qed.
Print Assumptions C14_listing_is_live.

(* KNOWN FINDING same-manifest-race: the clause "exactly the live manifests" does not hold
   when a push and a delete of the SAME manifest overlap: both calls return nil, the
   manifest is gone, the index still lists it (C14_no_lost_update still holds: the index is
   the fold of the accepted changes - it is the order of the manifest PUT / DELETE
   exchanges relative to the index updates that is not controlled) *)
Theorem C14_listing_is_live_refuted :
  exists m, mrun false (init (Some [race_A]) [], [1]) race_trace = Some m /\
    quiescent (fst m) /\
    pcs (fst m) 0%nat = Done ROk /\ pcs (fst m) 1%nat = Done ROk /\
    memb (reg (fst m)) 1 = true /\ is_live 1 m = false.
Proof. exact listing_is_live_refuted. Qed.
Print Assumptions C14_listing_is_live_refuted.

(* ... whereas for SEQUENTIAL histories (one push / delete at a time, no failure) the index
   lists exactly the live referrers, whatever the pre-existing duplicates / empty entries
   (function-level statement about applyReferrerChanges between the manifest PUT / DELETE;
   for concurrent operations on DIFFERENT manifests the clause is judged by the oracle) *)
Theorem C14_sequential_listing_is_live_partial : forall cs st,
  changes_nonempty cs -> tracks st -> tracks (fold_left seq_op cs st).
Proof. exact sequential_listing_is_live. Qed.
Print Assumptions C14_sequential_listing_is_live_partial.

(* the protocol never blocks by itself: in every reachable state in which some caller
   is inside updateReferrersIndex some event other than a new call is enabled (a caller can assign, a waiting
   member can take the main status, the main caller's next lock region / exchange can
   happen with either outcome, a returned caller can release the Pool entry) *)
Theorem C14_no_deadlock : forall sg r0 st0 tr s,
  run sg (init r0 st0) tr = Some s -> (exists t, holding (pcs s t) = true) ->
  exists e s', is_env e = false /\ step sg s e = Some s'.
Proof. exact no_deadlock. Qed.
Print Assumptions C14_no_deadlock.

(* ... and it cannot run for ever: from every reachable state there is a bound on the
   length of every continuation without new calls (each lock region / exchange /
   delivery strictly decreases a weight summed over the callers inside).  With
   C14_no_deadlock: once the registry has answered every exchange, every caller returns. *)
Theorem C14_bounded_completion : forall sg r0 st0 tr s,
  run sg (init r0 st0) tr = Some s ->
  exists bound, forall tr' s',
    forallb (fun e => negb (is_env e)) tr' = true -> run sg s tr' = Some s' ->
    (length tr' <= bound)%nat.
Proof. exact bounded_completion. Qed.
Print Assumptions C14_bounded_completion.

(* batches linearise: for every trace (interleaving, pre-existing index r0 with
   duplicates / empty entries, injected failures) ending in a quiescent state, the
   calls that returned nil or a referrers-index-delete error, and the calls whose batch's
   PUT took effect but was answered with an error (RLost: they see the plain error; see
   C14_lost_response / C14_plain_error_no_effect) — and only those — took effect, each
   once, in the order [lin], and the index under the tag is, as a set, the fold of their
   changes over the initial index *)
Theorem C14_no_lost_update : forall sg r0 st0 tr s,
  run sg (init r0 st0) tr = Some s -> quiescent s ->
  NoDup (lin s) /\
  (forall t, In t (lin s) <-> exists r, pcs s t = Done r /\ r <> RErr) /\
  (forall k, memb (reg s) k = member_after k (memb r0 k) (map (arg s) (lin s))).
Proof. exact no_lost_update. Qed.
Print Assumptions C14_no_lost_update.

(* what Referrers() / Predecessors() return through the tag schema (referrersByTagSchema =
   clean the fetched index with applyReferrerChanges(_, nil), then filter), in every
   reachable state: every key once, no empty descriptor, as a set the fold of the changes of
   the calls that took effect (C14_no_lost_update says which ones those are at quiescence);
   a filtered listing only has entries of the requested artifact type *)
Theorem C14_listing : forall sg r0 st0 tr s,
  run sg (init r0 st0) tr = Some s ->
  NoDup (keys (list_referrers (reg s) 0)) /\
  Forall (fun d => nonempty d = true) (list_referrers (reg s) 0) /\
  (forall k, In k (keys (list_referrers (reg s) 0)) <->
             member_after k (memb r0 k) (map (arg s) (lin s)) = true) /\
  (forall art d, In d (list_referrers (reg s) art) -> art = 0 \/ dart d = art).
Proof. exact listing_is_fold. Qed.
Print Assumptions C14_listing.

(* at every instant, for a caller that has returned: its change is part of the
   index iff it did not get a plain error; in particular a failed deletion of the
   superseded index (RIdxDel) is reported after the update took effect *)
Theorem C14_idxdel_after_effect : forall sg r0 st0 tr s t r,
  run sg (init r0 st0) tr = Some s -> (pcs s t = Ret r \/ pcs s t = Done r) ->
  (In t (lin s) <-> r <> RErr) /\
  (forall k, memb (reg s) k = member_after k (memb r0 k) (map (arg s) (lin s))).
Proof. exact returned_effect. Qed.
Print Assumptions C14_idxdel_after_effect.

Theorem C14_arg_is_call : forall sg s t c s',
  step sg s (EGet t c) = Some s' -> arg s' t = c /\ pcs s' t = Got c.
Proof. exact arg_set. Qed.
Print Assumptions C14_arg_is_call.
Theorem C14_arg_stable : forall sg s e s' t,
  step sg s e = Some s' -> pcs s t <> Idle -> arg s' t = arg s t.
Proof. exact arg_stable. Qed.
Print Assumptions C14_arg_stable.

(* superseded index manifests: when nobody is updating, every index manifest in
   the registry is the current one or is [junk] (dangling before the run, or left by a
   failed / skipped deletion); C14_gc_clean: the superseded INITIAL index is deleted too *)
Theorem C14_gc : forall sg r0 st0 tr s,
  run sg (init r0 st0) tr = Some s -> (forall t, is_main (pcs s t) = false) ->
  forall x, In x (store s) -> reg s = Some x \/ In x (junk s).
Proof. exact gc_store. Qed.
Print Assumptions C14_gc.

Theorem C14_gc_clean : forall r0 st0 tr s,
  run false (init r0 st0) tr = Some s ->
  forallb gc_ok tr = true ->
  (forall t, is_main (pcs s t) = false) ->
  forall x, In x (store s) -> reg s = Some x \/ (In x st0 /\ r0 <> Some x).
Proof. exact gc_clean. Qed.
Print Assumptions C14_gc_clean.

(* ... and with failed deletions: exactly one more dangling index per failed deletion
   (a lost PUT response leaves the old index behind as well: excluded here, see C14_gc) *)
Theorem C14_gc_count : forall tr s s',
  run false s tr = Some s' -> forallb (fun e => negb (put_lost e)) tr = true ->
  length (junk s') = (length (junk s) + length (filter del_failed tr))%nat.
Proof. exact junk_count. Qed.
Print Assumptions C14_gc_count.

(* ... and with lost PUT responses as well (the update stops before deleting the old index): at
   most one more dangling index per failed deletion or lost PUT, for every trace *)
Theorem C14_gc_bound : forall tr s s',
  run false s tr = Some s' ->
  (length (junk s') <= length (junk s) + length (filter (fun e => del_failed e || put_lost e) tr))%nat.
Proof. exact junk_bound. Qed.
Print Assumptions C14_gc_bound.
(* LOST RESPONSE of the index PUT / DELETE (EPutLost: the registry stores the new index, the
   client sees an error; EDelLost: the registry deletes the old index, the client sees an error
   - the index-delete error after a PUT, a plain error when the deletion WAS the update; ghost
   result RLost, seen by the caller as the plain error RErr).
   C14_plain_error_no_effect: with a registry that answers truthfully, a call took effect iff
   it did NOT return a plain error.  C14_lost_response: in general, nil / index-delete error
   => took effect (no lost update, even with lost responses); a plain error => took effect iff
   the response of its batch's PUT was lost ("may or may not be included"). *)
Theorem C14_plain_error_no_effect : forall sg r0 st0 tr s t r,
  run sg (init r0 st0) tr = Some s -> forallb (fun e => negb (resp_lost e)) tr = true ->
  (pcs s t = Ret r \/ pcs s t = Done r) ->
  (In t (lin s) <-> seen r <> RErr).
Proof. exact plain_error_no_effect. Qed.
Print Assumptions C14_plain_error_no_effect.

Theorem C14_lost_response : forall sg r0 st0 tr s t r,
  run sg (init r0 st0) tr = Some s -> (pcs s t = Ret r \/ pcs s t = Done r) ->
  (seen r <> RErr -> In t (lin s)) /\ (seen r = RErr -> (In t (lin s) <-> r = RLost)).
Proof. exact seen_effect. Qed.
Print Assumptions C14_lost_response.



(* SetReferrersCapability: the state leaves Unknown with the first call and never
   changes afterwards; later calls fail iff they ask for the other value *)
Theorem C14_capability_monotone : forall b l,
  let r := set_cap CapUnknown b in
  fst r = cap_of b /\ snd r = false /\ Forall (fun x => fst x = cap_of b) (set_caps (fst r) l).
Proof. exact capability_monotone. Qed.
Print Assumptions C14_capability_monotone.
Theorem C14_capability_error : forall s b,
  snd (set_cap s b) = true <-> s <> CapUnknown /\ s <> cap_of b.
Proof. exact set_cap_error. Qed.
Print Assumptions C14_capability_error.
Print Assumptions C14_capability_monotone.

(* the field Repository.referrersState has no writer other than that compare-and-swap
   (regenerated from the Go sources on every run), so every detection path - ping, Referrers()
   fallback, OCI-Subject header, push without Referrers API - obeys the theorem above *)
Theorem C14_capability_all_paths :
  GC14.referrersState_other = 0%Z /\
  forall (requests : list bool),
    match set_caps CapUnknown requests with
    | [] => requests = []
    | (s0, e0) :: rest => e0 = false /\ s0 <> CapUnknown /\ Forall (fun x => fst x = s0) rest
    end.
Proof. exact capability_all_paths. Qed.
Print Assumptions C14_capability_all_paths.

(* several referrers tags (subjects): every component of a run of the product
   system is a run of the one-tag system, so all theorems above hold per tag *)
Theorem C14_tags_independent : forall sg tr S S',
  grun sg S tr = Some S' -> forall g, exists trg, run sg (S g) trg = Some (S' g).
Proof. exact grun_project. Qed.
Print Assumptions C14_tags_independent.

(* two subject descriptors with the same digest (whatever their media type and size)
   map to the same referrers tag, and the calls of their referrers act on the same
   component (same Pool key, same Merge object, same registry tag) *)
Theorem C14_tag_by_digest : forall a b,
  s_digest a = s_digest b ->
  tag_of a = tag_of b /\ forall sg S e, sstep sg S (a, e) = sstep sg S (b, e).
Proof. exact tag_by_digest. Qed.
Print Assumptions C14_tag_by_digest.

(* ---- the delivery step at channel granularity (Model/Delivery.v): close of the
   buffered-1 status channel / len(items)-1 blocking sends by the main caller, one
   receive per waiter, in every interleaving ---- *)

(* every member receives the batch result, nothing else, at most once; when nothing can
   happen any more every member has received it *)
Theorem C14_delivery_exactly_once : forall r ws tr d,
  NoDup ws -> drun r (dinit ws) tr = Some d ->
  (forall t x, In (t, x) (d_received d) -> In t ws /\ x = r) /\
  NoDup (map fst (d_received d)) /\
  (dstuck r d -> forall t, In t ws -> In (t, r) (d_received d)).
Proof. exact delivery_exactly_once. Qed.
Print Assumptions C14_delivery_exactly_once.

(* late receivers: once the main caller has gone on to the swap on the error path, at most
   one member has not received yet and its value sits in the buffer *)
Theorem C14_delivery_late_receiver : forall r ws tr d,
  NoDup ws -> drun r (dinit ws) tr = Some d -> d_main_done d = true -> is_ok r = false ->
  (length (d_waiting d) <= 1)%nat /\ (d_waiting d <> [] -> d_buf d = Some r).
Proof. exact late_receiver. Qed.
Print Assumptions C14_delivery_late_receiver.

Theorem C14_delivery_bounded : forall r ws tr d d',
  DInv r ws d -> drun r d tr = Some d' -> (length tr + dmu d' <= dmu d)%nat.
Proof. exact delivery_bounded. Qed.
Print Assumptions C14_delivery_bounded.

(* refinement of the delivery step: every maximal channel-level run hands out exactly what
   the atomic EComplete of the Merge system writes into the members' program counters *)
Theorem C14_delivery_refines_complete : forall s t r tr d,
  InvS s -> pcs s t = Completing r ->
  drun r (dinit (waiters s t)) tr = Some d -> dstuck r d ->
  forall x, x <> t -> In x (batch s) ->
    (forall rr, In (x, rr) (d_received d) <-> complete_pcs s t r x = Ret rr).
Proof. exact delivery_refines_complete. Qed.
Print Assumptions C14_delivery_refines_complete.

(* ---- the whole protocol at CHANNEL granularity (Model/MergeFine.v): buffered-1 status channels
   per generation, main status in the buffer, close / blocking sends in complete(), late
   receivers, the swap as a separate lock region - interleaved with everything else ---- *)

(* in every reachable state: one main caller; the main status only in the current status
   channel and only while nobody is main; every buffered status / closed channel carries
   the verdict of its batch; the main caller in complete() knows that verdict; Pool refcount *)
Theorem C14_fine_structure : forall sg r0 st0 ftr f,
  frun sg (finit r0 st0) ftr = Some f ->
  (forall t1 t2, fmain (f_pcs f t1) = true -> fmain (f_pcs f t2) = true -> t1 = t2) /\
  (forall g, fbuf (f_chans f g) = Some FMain -> g = f_gen f /\ forall t, fmain (f_pcs f t) = false) /\
  (forall g r, fbuf (f_chans f g) = Some (FRes r) -> f_verdict f g = Some r) /\
  (forall g, fclosed (f_chans f g) = true -> f_verdict f g = Some ROk) /\
  (forall t r, fres (f_pcs f t) = Some r -> f_verdict f (f_gen f) = Some r) /\
  (exists hs, NoDup hs /\ (forall t, In t hs <-> fholding (f_pcs f t) = true) /\
     match f_pool f with None => hs = [] | Some rc => rc = length hs /\ hs <> [] end).
Proof. exact fine_structure. Qed.
Print Assumptions C14_fine_structure.

(* refinement: every run of the channel-level system is simulated by a run of the system of
   Model/Merge.v (EComplete = the moment the main caller enters complete(); channel operations
   and the swap stutter; a caller blocked on a channel whose batch has its verdict corresponds
   to a caller that has returned): same Pool entry, registry cell and index manifests *)
Theorem C14_fine_simulated : forall sg r0 st0 ftr f,
  frun sg (finit r0 st0) ftr = Some f ->
  exists tr c, run sg (init r0 st0) tr = Some c /\ Sim f c.
Proof. exact fine_simulated. Qed.
Print Assumptions C14_fine_simulated.

(* hence no lost update and the listing theorem at channel granularity *)
Theorem C14_fine_no_lost_update : forall sg r0 st0 ftr f,
  frun sg (finit r0 st0) ftr = Some f -> fquiescent f ->
  exists tr c, run sg (init r0 st0) tr = Some c /\ quiescent c /\
    (forall t r, f_pcs f t = FDone r <-> pcs c t = Done r) /\
    NoDup (lin c) /\
    (forall t, In t (lin c) <-> exists r, f_pcs f t = FDone r /\ r <> RErr) /\
    (forall k, memb (f_reg f) k = member_after k (memb r0 k) (map (arg c) (lin c))) /\
    NoDup (keys (list_referrers (f_reg f) 0)) /\
    (forall k, In k (keys (list_referrers (f_reg f) 0)) <-> member_after k (memb r0 k) (map (arg c) (lin c)) = true).
Proof. exact fine_no_lost_update. Qed.
Print Assumptions C14_fine_no_lost_update.

(* Pool.Get / release: the [pool] field of the transition system is a reference count moved by
   pool_get / pool_put (the functions the P lines replay against syncutil.Pool: identity of the
   pooled Merge across Get / release in lock order, including a release that waits for the
   pool lock while a Get overtakes it); a fresh entry is a zero Merge; and in every reachable
   state, while some caller holds the entry, Get never creates a second one *)
Theorem C14_pool_is_refcount : forall sg s e s',
  step sg s e = Some s' ->
  match e with
  | EGet _ _ => pool s' = fst (pool_get (pool s)) /\
                (snd (pool_get (pool s)) = true ->
                 items s' = [] /\ pending s' = [] /\ committed s' = false /\ token s' = false)
  | EDone _ => pool s' = pool_put (pool s)
  | _ => pool s' = pool s
  end.
Proof. exact pool_is_refcount. Qed.
Print Assumptions C14_pool_is_refcount.

Theorem C14_pool_shared : forall sg r0 st0 tr s t c s',
  run sg (init r0 st0) tr = Some s -> (exists x, holding (pcs s x) = true) ->
  step sg s (EGet t c) = Some s' -> snd (pool_get (pool s)) = false.
Proof. exact pool_shared. Qed.
Print Assumptions C14_pool_shared.

(* channel-level DEADLOCK FREEDOM: in every reachable state of the channel-level system in which
   some caller is inside Do or has not yet called its release function, a step other than a new
   call / an external tag drop is enabled: a send of complete() that blocks on the full buffer
   always has a member of the batch ready to receive (counting invariant InvP: members that
   have not received = sends left + buffered status), and a caller still blocked on the status
   channel of an earlier batch finds its status there or the channel closed *)
Theorem C14_fine_no_deadlock : forall sg r0 st0 tr f,
  frun sg (finit r0 st0) tr = Some f -> (exists t, fholding (f_pcs f t) = true) ->
  exists e f', fis_env e = false /\ fstep sg f e = Some f'.
Proof. exact fine_no_deadlock. Qed.
Print Assumptions C14_fine_no_deadlock.

(* ... and termination: from every reachable state, without new calls, only a bounded number
   of steps (lock regions, channel operations, HTTP exchanges) can still happen; together with
   C14_fine_no_deadlock: every call returns and releases its Pool entry *)
Theorem C14_fine_bounded_completion : forall sg r0 st0 tr f,
  frun sg (finit r0 st0) tr = Some f ->
  exists bound, forall tr' f',
    forallb (fun e => negb (fis_env e)) tr' = true -> frun sg f tr' = Some f' ->
    (length tr' <= bound)%nat.
Proof. exact fine_bounded_completion. Qed.
Print Assumptions C14_fine_bounded_completion.

(* ... hence: from every reachable state of the channel-level system there IS a run without
   new calls to a quiescent state (every caller inside Do has returned and released) *)
Theorem C14_fine_terminates : forall sg r0 st0 tr f,
  frun sg (finit r0 st0) tr = Some f ->
  exists tr' f', forallb (fun e => negb (fis_env e)) tr' = true /\ frun sg f tr' = Some f' /\ fquiescent f'.
Proof. exact fine_terminates. Qed.
Print Assumptions C14_fine_terminates.

Theorem C14_fine_counting : forall sg r0 st0 tr f,
  frun sg (finit r0 st0) tr = Some f -> InvF f /\ InvP f.
Proof. exact fine_reachable_inv. Qed.
Print Assumptions C14_fine_counting.

(* ---- the hypotheses are satisfiable: concrete instances ---- *)
Definition dA := mkDesc 1 7 0. Definition dB := mkDesc 2 0 3. Definition dC := mkDesc 3 0 0.

Example apply_ex :
  apply_changes [dA; empty_desc; dA; dB] [Remove dA; Add dC; Add dA] = Updated [dB; dC; dA] /\
  apply_changes [dA; dB] [Remove dA; Add dA] = NoUpdate /\
  changes_nonempty [Remove dA; Add dC; Add dA].
Proof. repeat split; try (vm_compute; reflexivity). repeat constructor; discriminate. Qed.

(* three callers, two batches, a failed deletion of the superseded index *)
Definition ex_trace : list event :=
  [EGet 0 (Add dA); EAssign 0; ERecvMain 0; EGet 1 (Add dB); EAssign 1; EPrepare 0 false; ECommit 0;
   EGet 2 (Remove dA); EAssign 2; EPut 0 false; EComplete 0; EDone 0; EDone 1;
   ERecvMain 2; EPrepare 2 false; ECommit 2; EPut 2 false; EDel 2 true; EComplete 2; EDone 2]%nat.

Example run_ex :
  match run false (init None []) ex_trace with
  | Some s => lin s = [0; 1; 2]%nat /\ reg s = Some [dB] /\ pool s = None /\
              map (pcs s) [0; 1; 2; 3]%nat = [Done ROk; Done ROk; Done RIdxDel; Idle] /\
              junk s = [[dA; dB]]
  | None => False
  end.
Proof. vm_compute. repeat split. Qed.

(* two callers in one batch, the response of the PUT is lost: both get the error, the index
   contains both changes, the old index is left behind *)
Example lost_ex :
  match run false (init (Some [dC]) [[dC]])
          [EGet 0 (Add dA); EAssign 0; EGet 1 (Add dB); EAssign 1; ERecvMain 0; EPrepare 0 false; ECommit 0;
           EPutLost 0; EComplete 0; EDone 0; EDone 1]%nat with
  | Some s => lin s = [0; 1]%nat /\ reg s = Some [dC; dA; dB] /\
              map (pcs s) [0; 1]%nat = [Done RLost; Done RLost] /\ map seen [RLost; RLost] = [RErr; RErr] /\
              junk s = [[dC]] /\ dangling s = 1%nat
  | None => False
  end.
Proof. vm_compute. repeat split. Qed.

(* the last referrer is removed: the update is the DELETE of the index; its response is lost *)
Example lost_del_ex :
  match run false (init (Some [dA]) [[dA]])
          [EGet 0 (Remove dA); EAssign 0; ERecvMain 0; EPrepare 0 false; ECommit 0; EDelLost 0; EComplete 0; EDone 0]%nat with
  | Some s => lin s = [0]%nat /\ reg s = None /\ store s = [] /\ map (pcs s) [0]%nat = [Done RLost]
  | None => False
  end.
Proof. vm_compute. repeat split. Qed.

(* three callers in one batch, the PUT fails: the second error send of complete() blocks on the
   full buffer until a member receives *)
Example fine_block_ex :
  match frun false (finit None [])
          [FEGet 0 (Add dA); FEAssign 0; FEGet 1 (Add dB); FEAssign 1; FEGet 2 (Add dC); FEAssign 2;
           FERecv 0; FEPrepare 0 false; FECommit 0; FEPut 0 true; FENotify 0]%nat with
  | Some f => fstep false f (FENotify 0%nat) = None /\ f_pcs f 0%nat = FNotify RErr 1 /\
              nwait f = 2%nat /\ fbuf (cur f) = Some (FRes RErr) /\
              (exists f', frun false f [FERecv 1; FENotify 0; FERecv 2; FENotify 0; FESwap 0; FEDone 0; FEDone 1; FEDone 2]%nat = Some f' /\
                          f_pool f' = None)
  | None => False
  end.
Proof. vm_compute. repeat split. eexists. split; reflexivity. Qed.

(* Get, Get (shared), release, Get (still shared), release, release, Get (fresh again) *)
Example pool_ex : pool_trace None [true; true; false; true; false; false; true] = [true; false; false; true].
Proof. reflexivity. Qed.

Example quiescent_ex : forall s, run false (init None []) ex_trace = Some s -> quiescent s.
Proof.
  intros s H. vm_compute in H. injection H as <-. intro t.
  do 3 (destruct t as [|t]; [right; eexists; reflexivity|]). left. reflexivity.
Qed.

(* two waiters, error path: the second one receives after the main caller has left *)
Example delivery_ex :
  match drun RErr (dinit [1; 2]%nat) [DSend; DRecv 2; DSend; DFinish; DRecv 1]%nat with
  | Some d => d_received d = [(1, RErr); (2, RErr)]%nat /\ d_waiting d = [] /\ d_main_done d = true
  | None => False
  end /\
  match drun ROk (dinit [1; 2]%nat) [DClose; DFinish; DRecv 1; DRecv 2]%nat with
  | Some d => d_received d = [(2, ROk); (1, ROk)]%nat
  | None => False
  end.
Proof. vm_compute. repeat split. Qed.

Example tracks_ex : tracks (None, []) /\
  fold_left seq_op [Add dA; Add dB; Remove dA; Add dC] (None, []) = (Some [dB; dC], [3; 2]) /\
  forallb (fun k => Bool.eqb (memb (Some [dB; dC]) k) (negb (k =? 0) && existsb (N.eqb k) [3; 2])) [0; 1; 2; 3; 4] = true.
Proof. split; [intro k; reflexivity|split; vm_compute; reflexivity]. Qed.

(* two pushes and a delete on three different manifests, interleaved, one batch of two *)
Example live_ex :
  match lrun false (linit (Some [dA]) [] [1])
    [LPut 0 dB; LIdx (EGet 1 (Remove dA)); LIdx (EAssign 1); LIdx (EGet 0 (Add dB)); LIdx (EAssign 0);
     LPut 2 dC; LIdx (ERecvMain 1); LIdx (EPrepare 1 false); LIdx (ECommit 1); LIdx (EGet 2 (Add dC)); LIdx (EAssign 2);
     LIdx (EPut 1 false); LIdx (EDel 1 false); LIdx (EComplete 1); LIdx (EDone 1); LIdx (EDone 0); LDel 1; LEnd 0;
     LIdx (ERecvMain 2); LIdx (EPrepare 2 false); LIdx (ECommit 2); LIdx (EPut 2 false); LIdx (EDel 2 false);
     LIdx (EComplete 2); LIdx (EDone 2); LEnd 2]%nat with
  | Some m => l_inflight m = [] /\ l_taint m = [] /\ l_live m = [3; 2] /\ reg (l_s m) = Some [dB; dC]
  | None => False
  end.
Proof. vm_compute. repeat split. Qed.

(* lost responses of the manifest exchanges: the PUT of dB takes effect but the push sees an error
   (live, unlisted, tainted); the delete's manifest DELETE takes effect (LDel) *)
Example live_lost_ex :
  match lrun false (linit (Some [dA]) [] [1])
    [LPutLost dB; LIdx (EGet 1 (Remove dA)); LIdx (EAssign 1); LIdx (ERecvMain 1); LIdx (EPrepare 1 false);
     LIdx (ECommit 1); LIdx (EDel 1 false); LIdx (EComplete 1); LIdx (EDone 1); LDel 1]%nat with
  | Some m => l_inflight m = [] /\ l_taint m = [2] /\ l_live m = [2] /\ reg (l_s m) = None /\
              consistent m 1 /\ ~ consistent m 2
  | None => False
  end.
Proof. vm_compute. repeat split; try discriminate. Qed.

(* channel level, error path with a late receiver: caller 1 receives its status after the main
   caller 0 has swapped and caller 2 has become the main caller of the next batch *)
Example fine_ex :
  match frun false (finit None [])
    [FEGet 0 (Add dA); FEAssign 0; FERecv 0; FEGet 1 (Add dB); FEAssign 1; FEPrepare 0 false; FECommit 0;
     FEGet 2 (Add dC); FEAssign 2; FEPut 0 true; FENotify 0; FENotify 0; FESwap 0; FERecv 2; FERecv 1;
     FEDone 0; FEDone 1; FEPrepare 2 false; FECommit 2; FEPut 2 false; FENotify 2; FESwap 2; FEDone 2]%nat with
  | Some f => map (f_pcs f) [0; 1; 2]%nat = [FDone RErr; FDone RErr; FDone ROk] /\ f_reg f = Some [dC] /\
              f_pool f = None /\ f_gen f = 2%nat
  | None => False
  end.
Proof. vm_compute. repeat split. Qed.
