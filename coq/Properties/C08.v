(* C08 -- An OCI layout on disk is always valid and reopens to the same observable state.
   Only statements closed by [exact]; the lemmas live in Proofs/OciIndex.v, the
   executable model (extracted and run against content/oci on every check) and the
   vocabulary (wf_history, no_reopen, obs_equiv, disk_valid) in Model/OciIndex.v.

   Universe parameters (any values): N bound for the Predecessors enumeration and the
   IndexAll fuel, [mf] IsManifest, [succs] content.Successors, [subj] manifestutil.Subject,
   [sk] "Subject fetches this media type", [dflt] "media type is application/octet-stream".
   The model instance is the repaired code ([true true true true] = fixF2 fixA fixF1 fixHold); the code
   as found is refuted below ([false] instances).
   Histories carry, with every operation, the iteration orders of the Go maps it ranges
   over ([orders]); the theorems hold for all of them. *)
From Coq Require Import List.
Import ListNotations.
From Oras Require Import Base.Prelude Generated.GC08 Model.OciIndex Proofs.OciIndex Model.TarFS Proofs.TarFS Model.OciConc Proofs.OciConc Proofs.OciFuel Model.OciLocks Proofs.OciLocks.
Local Open Scope nat_scope.

(* AutoSaveIndex on: after EVERY history of Push/Tag/Untag/Delete/GC/SaveIndex/read-write
   reopen (any AutoGC setting, any map orders), the store reopened from the directory
   answers like the running one (tag list, tag -> descriptor up to the ref-name
   annotation, Resolve by digest, Exists/Fetch, Predecessors), and every index.json
   entry points to an existing blob. *)
Theorem C08_reopen_equiv_autosave :
  forall (N : nat) (mf : nat -> bool) (succs : nat -> list nat) (subj : nat -> option nat)
         (sk bad dflt : nat -> bool),
    (forall k, mf k = false -> succs k = []) ->
    forall (T : nat) (cfg : config) (h : list (op * orders)),
      autosave cfg = true -> wf_history mf h ->
      let s := run N mf succs subj sk bad true true true true true cfg h store_empty in
      obs_equiv N succs dflt T (reopen N mf succs s) s /\ disk_valid s = true.
Proof. exact reopen_equiv_autosave. Qed.
Print Assumptions C08_reopen_equiv_autosave.

(* AutoSaveIndex off (or on): any history without a reopen in the middle, followed by SaveIndex. *)
Theorem C08_reopen_equiv_saveindex :
  forall (N : nat) (mf : nat -> bool) (succs : nat -> list nat) (subj : nat -> option nat)
         (sk bad dflt : nat -> bool),
    (forall k, mf k = false -> succs k = []) ->
    forall (T : nat) (cfg : config) (h : list (op * orders)) (o : orders),
      wf_history mf h -> no_reopen h ->
      let s := run N mf succs subj sk bad true true true true true cfg (h ++ [(OSave, o)]) store_empty in
      obs_equiv N succs dflt T (reopen N mf succs s) s /\ disk_valid s = true.
Proof. exact reopen_equiv_saveindex. Qed.
Print Assumptions C08_reopen_equiv_saveindex.

(* The same with read-write reopens allowed in the middle, each right after a SaveIndex
   (any AutoSaveIndex setting). *)
Theorem C08_reopen_equiv_saveindex_reopen :
  forall (N : nat) (mf : nat -> bool) (succs : nat -> list nat) (subj : nat -> option nat)
         (sk bad dflt : nat -> bool),
    (forall k, mf k = false -> succs k = []) ->
    forall (T : nat) (cfg : config) (h : list (op * orders)) (o : orders),
      wf_history mf h -> reopen_after_save true h ->
      let s := run N mf succs subj sk bad true true true true true cfg (h ++ [(OSave, o)]) store_empty in
      obs_equiv N succs dflt T (reopen N mf succs s) s /\ disk_valid s = true.
Proof. exact reopen_equiv_saveindex_general. Qed.
Print Assumptions C08_reopen_equiv_saveindex_reopen.

(* the representation invariant behind it (used by C07: the graph rebuilt by loadIndex is the
   live graph): every stored manifest is referenced by digest and indexed in the graph, every
   indexed manifest is stored, every reference points to stored content *)
Theorem C08_store_invariant :
  forall (N : nat) (mf : nat -> bool) (succs : nat -> list nat) (subj : nat -> option nat)
         (sk bad : nat -> bool) (cfg : config) (h : list (op * orders)),
    wf_history mf h -> (autosave cfg = true \/ no_reopen h) ->
    let s := run N mf succs subj sk bad true true true true true cfg h store_empty in
    (forall k, mf k = true -> In k (blobs s) -> lookup (RDig k) (r_index (res s)) <> None /\ In k (gr s)) /\
    (forall k, mf k = true -> In k (gr s) -> In k (blobs s)) /\
    (forall r d, lookup r (r_index (res s)) = Some d -> In (d_node d) (blobs s)).
Proof. exact (fun N mf succs subj sk bad => store_invariant N mf succs subj sk bad (fun _ => false)). Qed.
Print Assumptions C08_store_invariant.

(* GC after any history, as one operation: exactly the blob files of the rebuilt graph stay, every
   reference that is left names a node of that graph and comes from an old reference (same name,
   same node), no tag is lost and no digest reference of a node that stays in the graph is lost - the abstract "keep the nodes of the graph" GC step of
   Model/OciLocks.v (KRegGC / KSweep with keep = the rebuilt graph) is what gcIndex + sweep do *)
Theorem C08_gc_effect :
  forall (N : nat) (mf : nat -> bool) (succs : nat -> list nat) (subj : nat -> option nat)
         (sk bad : nat -> bool) (cfg : config) (h : list (op * orders)) (o : orders),
    wf_history mf h -> (autosave cfg = true \/ no_reopen h) ->
    let s := run N mf succs subj sk bad true true true true true cfg h store_empty in
    snd (st_gc N mf succs subj sk true true true cfg o s) = ROk ->
    let s' := fst (st_gc N mf succs subj sk true true true cfg o s) in
    blobs s' = filter (fun k => mem k (gr s')) (blobs s) /\
    (forall r d, lookup r (r_index (res s')) = Some d -> In (d_node d) (gr s')) /\
    (forall t d, lookup (RTag t) (r_index (res s)) = Some d -> lookup (RTag t) (r_index (res s')) <> None) /\
    (forall k, lookup (RDig k) (r_index (res s)) <> None -> In k (gr s') -> lookup (RDig k) (r_index (res s')) <> None) /\
    (forall r d, lookup r (r_index (res s')) = Some d ->
       exists d0, lookup r (r_index (res s)) = Some d0 /\ d_node d0 = d_node d).
Proof. exact (fun N mf succs subj sk bad => gc_effect_history N mf succs subj sk bad (fun _ => false)). Qed.
Print Assumptions C08_gc_effect.

(* index.json written by saveIndex is, for every pair of iteration orders, a projection of
   the resolver map from which loadIndex rebuilds it *)
Theorem C08_save_is_projection :
  forall (c1 c2 : list nat) (ix : rmap), IxInv ix -> DiskOK (save_index c1 c2 ix) ix.
Proof. exact save_diskok. Qed.
Print Assumptions C08_save_is_projection.

(* The code as found (F2): GC rebuilds the maps and sweeps blobs without writing index.json. *)
Theorem C08_reopen_equiv_refuted_gc :
  exists (N : nat) (mf : nat -> bool) (succs : nat -> list nat) (subj : nat -> option nat)
         (sk dflt : nat -> bool) (cfg : config) (h : list (op * orders)),
    autosave cfg = true /\ wf_history mf h /\
    let s := run N mf succs subj sk (fun _ => false) false true true true true cfg h store_empty in
    obs_resolve_dig dflt (reopen N mf succs s) 0 <> obs_resolve_dig dflt s 0 /\ disk_valid s = false.
Proof. exact refuted_gc_not_saved. Qed.
Print Assumptions C08_reopen_equiv_refuted_gc.

(* gcIndex as found (fixA = false) drops the digest reference of kept child manifests: Resolve
   by digest degrades across GC.  Its former consequence for reopening (Delete of the parent
   orphaned the child for a reloaded store) is gone on the final tree because Delete now gives a
   manifest that loses its last predecessor a digest reference; the main theorems are about
   fixA = true, which is the code. *)
Theorem C08_gc_digest_ref_effect :
  let h := ex_plain_hist [OPush 1; OPush 2; OTag (plain 2) (RTag 0); OGC] in
  let run' := fun fixA => run 3 ex_mf ex_succs (fun _ => None) (fun _ => true) (fun _ => false)
                              true fixA true true true ex_cfg h store_empty in
  obs_resolve_dig (fun _ => false) (run' false) 1 = DBlob 1 /\
  obs_resolve_dig (fun _ => false) (run' true) 1 = DPlain 1.
Proof. exact gc_digest_ref_effect. Qed.
Print Assumptions C08_gc_digest_ref_effect.

(* The referrer pass of gcIndex as found (F1, owned by C09) never returns on an untagged
   manifest whose subject is not in the rebuilt graph; the repaired pass collects it. *)
Theorem C08_gc_hang_prefix :
  let mf := fun k => Nat.eqb k 1 in
  let succs := fun k : nat => if Nat.eqb k 1 then [0] else [] in
  let subj := fun k : nat => if Nat.eqb k 1 then Some 0 else None in
  let s1 := run 2 mf succs subj mf (fun _ => false) true true false true true ex_cfg (ex_plain_hist [OPush 1]) store_empty in
  snd (step 2 mf succs subj mf (fun _ => false) true true false true true ex_cfg s1 (OGC, ord0)) = RHang /\
  let r := step 2 mf succs subj mf (fun _ => false) true true true true true ex_cfg s1 (OGC, ord0) in
  snd r = ROk /\ obs_exists (fst r) 1 = false.
Proof. exact prefix_gc_hangs. Qed.
Print Assumptions C08_gc_hang_prefix.

(* NewFromTar reads through internal/fs/tarfs, NewFromFS(os.DirFS) through the directory:
   for an archive of the directory (any mix of "./"-style / unclean names, directory and
   link entries, stale earlier copies: the last entry of a cleaned name is the file) both
   open every file of the directory and every name that is in neither alike; this is
   why the model has one [reopen] (loadIndex over an fs.FS) for the three ways. *)
Theorem C08_tar_view :
  forall (clean : nat -> nat) (tar : list tentry) (d : dirfs),
    archives clean tar d ->
    forall p,
      (dlookup p d <> None \/ (forall e, In e tar -> clean (te_raw e) <> p) ->
       tar_open clean true tar p = dir_open d p) /\
      (dlookup p d = None -> (exists e, In e tar /\ clean (te_raw e) = p) ->
       tar_open clean true tar p = FUnsupported).
Proof. exact tar_view. Qed.
Print Assumptions C08_tar_view.

(* internal/fs/tarfs as found (audit F1): members stored sparse by GNU tar -S / bsdtar do not
   open to their content; the repaired Open ([true]) decodes them. *)
Theorem C08_tar_view_refuted_sparse :
  exists (clean : nat -> nat) (tar : list tentry) (d : dirfs) (p : nat),
    archives clean tar d /\ dlookup p d <> None /\
    tar_open clean false tar p <> dir_open d p /\ tar_open clean true tar p = dir_open d p.
Proof. exact tar_view_refuted_sparse. Qed.
Print Assumptions C08_tar_view_refuted_sparse.

(* The code as found accepts the digest string of other stored content as a tag name and the
   reopened store then differs (Predecessors); the repaired Tag answers ErrInvalidReference,
   which is why the main theorems need no hypothesis on reference names any more. *)
Theorem C08_reopen_equiv_refuted_foreign_digest_reference :
  let h := ex_plain_hist [OPush 1; OPush 2; OTag (plain 1) (RDig 2)] in
  let run' := fun fixRef => run 3 ex2_mf ex2_succs (fun _ => None) (fun _ => true) (fun _ => false)
                                true true true true fixRef ex_cfg in
  (let s := run' false h store_empty in
   obs_preds 3 ex2_succs s 0 = [2] /\ obs_preds 3 ex2_succs (reopen 3 ex2_mf ex2_succs s) 0 = []) /\
  (let s := run' true (ex_plain_hist [OPush 1; OPush 2]) store_empty in
   snd (step 3 ex2_mf ex2_succs (fun _ => None) (fun _ => true) (fun _ => false) true true true true true
             ex_cfg s (OTag (plain 1) (RDig 2), ord0)) = RInvalidReference).
Proof. exact refuted_foreign_digest_reference. Qed.
Print Assumptions C08_reopen_equiv_refuted_foreign_digest_reference.

(* the hypotheses are satisfiable: a concrete history with re-tags, annotations, a tagged
   blob, Untag, GC, Delete, read-write reopen and non-trivial map orders *)
Example C08_hypotheses_satisfiable :
  wf_history ex_mf ex_hist /\ (forall k, ex_mf k = false -> ex_succs k = []) /\
  let s := run 3 ex_mf ex_succs (fun _ => None) (fun _ => true) (fun _ => false) true true true true true ex_cfg ex_hist store_empty in
  obs_tags 3 s = [0] /\ obs_resolve_tag s 0 = Some (mkDesc 1 2 (Some (RTag 0))) /\
  obs_preds 3 ex_succs s 1 = [2] /\ obs_preds 3 ex_succs s 0 = [1] /\
  obs_preds 3 ex_succs (reopen 3 ex_mf ex_succs s) 0 = [1] /\ disk_valid s = true.
Proof. exact example_history. Qed.


(* ================= concurrent operations (Model/OciConc.v) =================
   The sequential theorems above speak of whole operations; the store runs them under a
   RWMutex (Push/Tag/Untag/SaveIndex shared, Delete/GC exclusive) with saveIndex serialised by
   indexLock.  The two transition systems of Model/OciConc.v interleave the atomic steps; the
   ORDER of the steps inside saveIndex / Tag / Delete / Push is read from the Go sources by
   the translator (Generated/GC08.v, kind callseq). *)

(* the programs read from the sources are the well-locked ones, and every public operation
   takes the store lock first *)
Theorem C08_locks_as_in_the_sources :
  save_prog = [SLock; SSnap; SWrite; SUnlock] /\ tag_prog = [GRLock; GExists; GReg; GRUnlock] /\
  del_prog = [DWLock; DUntag; DRemove; DWUnlock] /\ push_prog = [PRLock; PCreate; PRUnlock] /\
  hd [] c08_calls_Untag = b "s.sync.RLock" /\ hd [] c08_calls_SaveIndex = b "s.sync.RLock" /\
  hd [] c08_calls_Push = b "s.sync.RLock" /\ hd [] c08_calls_Tag = b "s.sync.RLock" /\
  hd [] c08_calls_Delete = b "s.sync.Lock" /\ hd [] c08_calls_GC = b "s.sync.Lock".
Proof. exact (conj save_prog_good (conj tag_prog_good (conj del_prog_good (conj push_prog_good locks_first)))). Qed.
Print Assumptions C08_locks_as_in_the_sources.

(* more of the sources pinned: GC's sweep checks and the known algorithms (the kind-level model
   of stray files agrees with them), the order of loadIndex, Store.tag, delete and GC *)
Theorem C08_sweep_and_orders_as_in_the_sources :
  (c08_calls_GC_sweep = [b "isKnownAlgorithm"; b "blobDigest.Validate"; b "reachableNodes.Contains"; b "os.Remove"] /\
   c08_known_algorithms = ["digest.SHA256"; "digest.SHA512"; "digest.SHA384"]%string /\
   forall k, stray_swept (fst (stray_of_kind k)) (snd (stray_of_kind k)) = gc_sweeps_stray k) /\
  (c08_calls_loadIndex = [b "tagger.Tag"; b "deleteAnnotationRefName"; b "tagger.Tag"; b "graph.IndexAll"] /\
   c08_calls_tag = [b "s.tagResolver.Tag"; b "s.tagResolver.Tag"; b "s.saveIndex"] /\
   c08_calls_delete = [b "s.tagResolver.Untag"; b "s.graph.Remove"; b "s.saveIndex"; b "s.storage.Delete"] /\
   c08_calls_GC = [b "s.sync.Lock"; b "s.gcIndex"; b "s.saveIndex"; b "os.Remove"]).
Proof. exact (conj gc_sweep_as_in_the_sources load_and_delete_order_as_in_the_sources). Qed.
Print Assumptions C08_sweep_and_orders_as_in_the_sources.

(* the control flow around the effects (kind callguards): Store.tag registers the digest entry first
   iff the reference is not the digest ([is_digest_ref] in st_tag) and saves iff AutoSaveIndex
   ([maybe_save]); delete() drops the references of the target's DIGEST and saves iff something
   changed and AutoSaveIndex ([changed] in delete1); GC saves iff AutoSaveIndex; Push tags manifests
   only and removes content it cannot index; Tag indexes manifests only; loadIndex registers the tag
   iff the ref name is not empty ([load_entry]) *)
Theorem C08_guards_as_in_the_sources :
  c08_guards_tag =
    [(b "s.tagResolver.Tag"%string, [b "reference != dgst"%string]); (b "s.tagResolver.Tag"%string, []); (b "s.saveIndex"%string, [b "s.AutoSaveIndex"%string])] /\
  c08_guards_Untag =
    [(b "s.tagResolver.Untag"%string, []); (b "s.saveIndex"%string, [b "s.AutoSaveIndex"%string])] /\
  c08_guards_delete =
    [(b "s.tagResolver.Untag"%string, [b "desc.Digest == target.Digest"%string]); (b "s.tagResolver.Tag"%string, []); (b "s.saveIndex"%string, [b "indexChanged && s.AutoSaveIndex"%string]); (b "s.storage.Delete"%string, [])] /\
  c08_guards_GC =
    [(b "s.gcIndex"%string, []); (b "s.tagResolver.Tag"%string, []); (b "s.saveIndex"%string, [b "s.AutoSaveIndex"%string])] /\
  c08_guards_Push =
    [(b "s.storage.Push"%string, []); (b "s.graph.Index"%string, []); (b "s.storage.Delete"%string, [b "err != nil"%string]); (b "s.tag"%string, [b "descriptor.IsManifest(expected)"%string])] /\
  c08_guards_Tag =
    [(b "s.storage.Exists"%string, []); (b "s.graph.Index"%string, [b "descriptor.IsManifest(desc)"%string]); (b "s.tag"%string, [])] /\
  c08_guards_loadIndex =
    [(b "tagger.Tag"%string, []); (b "tagger.Tag"%string, [b "ref != ''"%string]); (b "graph.IndexAll"%string, [])].
Proof. exact guards_as_in_the_sources. Qed.
Print Assumptions C08_guards_as_in_the_sources.

(* any number of threads, each running any list of index-saving operations (registrations in
   the resolver followed by saveIndex as in the sources), under EVERY schedule: once all have
   returned, index.json is saveIndex of the live resolver map, i.e. its projection *)
Theorem C08_concurrent_saves_index_current :
  forall (s0 : sstate rmap (list desc)) (sched : list (nat * (list nat * list nat))),
    let proj := fun (c : list nat * list nat) (v : rmap) => save_index (fst c) (snd c) v in
    s_init rmap (list desc) (list nat * list nat) proj save_prog s0 ->
    let s := run_sched rmap (list desc) (list nat * list nat) proj sched s0 in
    quiescent rmap (list desc) s ->
    (exists c1 c2, disk _ _ s = save_index c1 c2 (live _ _ s)) /\
    (IxInv (live _ _ s) -> DiskOK (disk _ _ s) (live _ _ s)).
Proof. exact concurrent_saves_index_current. Qed.
Print Assumptions C08_concurrent_saves_index_current.

(* the same without a hypothesis on the reached state: threads running any lists of Tag (digest
   entry first, then the tag: two registrations), Tag-by-digest / manifest Push, Untag and
   SaveIndex from a store at rest: the store invariant of the resolver map holds at every moment
   of every schedule, and at quiescence index.json is its order-independent projection, from
   which loadIndex rebuilds it (C08_save_is_projection / reopen theorems above) *)
Theorem C08_concurrent_store_index_current :
  forall (s0 : sstate rmap (list desc)) (sched : list (nat * (list nat * list nat))),
    let proj := fun (c : list nat * list nat) (v : rmap) => save_index (fst c) (snd c) v in
    IxInv (live _ _ s0) -> (exists c, disk _ _ s0 = proj c (live _ _ s0)) -> ilock _ _ s0 = None ->
    (forall i, exists ops, ths _ _ s0 i = mkTh rmap [] [] None (map cop_thread_op ops)) ->
    let s := run_sched rmap (list desc) (list nat * list nat) proj sched s0 in
    IxInv (live _ _ s) /\ (quiescent rmap (list desc) s -> DiskOK (disk _ _ s) (live _ _ s)).
Proof. exact concurrent_store_index_current. Qed.
Print Assumptions C08_concurrent_store_index_current.

(* any number of Tag / Delete / Push calls on the same content under every schedule: once all
   have returned, a registered reference points to content that exists *)
Theorem C08_concurrent_tag_delete_valid :
  forall (s0 : gstate) (sched : list nat),
    g_init tag_prog del_prog push_prog s0 ->
    let s := g_run sched s0 in g_quiescent s -> g_valid s.
Proof. exact concurrent_tag_delete_valid. Qed.
Print Assumptions C08_concurrent_tag_delete_valid.

(* the snapshot taken before indexLock (call order Map, Lock, write): a schedule of two
   operations after which index.json lacks a live reference *)
Theorem C08_concurrent_refuted_snapshot_before_lock :
  save_prog_of [b "s.tagResolver.Map"; b "s.indexLock.Lock"; b "s.writeIndexFile"] = bad_save /\
  s_init (list nat) (list nat) (list nat) (fun _ v => v) bad_save ex_s0 /\
  (let s := run_sched (list nat) (list nat) (list nat) (fun _ v => v) ex_sched ex_s0 in
   quiescent (list nat) (list nat) s /\ live _ _ s = [2; 1] /\ disk _ _ s = [1])%nat.
Proof. exact (conj bad_order_program save_quiescent_refuted_snapshot_before_lock). Qed.
Print Assumptions C08_concurrent_refuted_snapshot_before_lock.

(* Exists checked before the read lock (call order validate, Exists, RLock, tag): a Tag racing a
   Delete leaves a reference to content that is gone *)
Theorem C08_concurrent_refuted_exists_before_lock :
  tag_prog_of [b "validateReference"; b "s.storage.Exists"; b "s.sync.RLock"; b "s.graph.Index"; b "s.tag"] = bad_tag /\
  g_init bad_tag good_del good_push exg_s0 /\
  (let s := g_run [0; 1; 1; 1; 1; 0; 0; 0]%nat exg_s0 in
   g_quiescent s /\ refs s = 1%nat /\ blob s = false).
Proof. exact (conj bad_tag_program tag_delete_refuted_exists_before_lock). Qed.
Print Assumptions C08_concurrent_refuted_exists_before_lock.

Example C08_concurrent_hypotheses_satisfiable :
  let proj := fun (c : list nat * list nat) (v : rmap) => save_index (fst c) (snd c) v in
  s_init rmap (list desc) (list nat * list nat) proj save_prog exc_s0 /\
  (let s := run_sched rmap (list desc) _ proj
              (map (fun i => (i, ([1], [0])%nat)) [0; 1; 2; 0; 2; 1; 1; 0; 2; 2; 2; 1; 0; 0; 1; 0; 0; 1; 1]%nat) exc_s0 in
   live _ _ s = [(RTag 0, plain 1); (RDig 1, plain 1)] /\
   disk _ _ s = [mkDesc 1 0 (Some (RTag 0))] /\ ilock _ _ s = None).
Proof. exact concurrent_example. Qed.


(* ================= all operations under both locks (Model/OciLocks.v) =================
   Tag, Untag, SaveIndex, Push (shared store lock), Delete and GC (exclusive) as programs of atomic
   steps on the resolver map, index.json, the blob files, the RWMutex and indexLock. *)

(* safety of EVERY program that respects the lock discipline ([check]: store lock held around
   every access, Exists/Push seen under the lock before a reference to that content is
   registered, snapshot and write under indexLock, references dropped and saved before a blob
   is removed under the exclusive lock): under every schedule, at quiescence index.json is
   saveIndex of the live map, every live reference points to a blob file, no lock is held *)
Theorem C08_lock_discipline_sufficient :
  forall (s0 : lstate) (sched : list (nat * (list nat * list nat))),
    l_init s0 -> IxInv (ll_live s0) -> let s := l_run sched s0 in
    IxInv (ll_live s) /\
    (l_quiescent s ->
     (exists c, ll_disk s = save_index (fst c) (snd c) (ll_live s)) /\ DiskOK (ll_disk s) (ll_live s) /\
     refs_valid s /\ ll_ilock s = None).
Proof. exact locks_quiescent. Qed.
Print Assumptions C08_lock_discipline_sufficient.

(* the programs of the real operations, assembled from the call sequences the translator reads
   from content/oci/oci.go, and that they respect the discipline *)
Theorem C08_programs_respect_lock_discipline :
  ((forall d t, prog_tag d t = [KRLock; KExists (d_node d); KReg (RegDig d); KReg (RegTag t d);
                                KSave SLock; KSave SSnap; KSave SWrite; KSave SUnlock; KRUnlock]) /\
   (forall t, prog_untag t = [KRLock; KReg (RegUntag t); KSave SLock; KSave SSnap; KSave SWrite; KSave SUnlock; KRUnlock]) /\
   prog_saveindex = [KRLock; KSave SLock; KSave SSnap; KSave SWrite; KSave SUnlock; KRUnlock] /\
   (forall k, prog_push k true = [KRLock; KCreate k; KReg (RegDig (plain k));
                                  KSave SLock; KSave SSnap; KSave SWrite; KSave SUnlock; KRUnlock]) /\
   (forall k, prog_push k false = [KRLock; KCreate k; KRUnlock]) /\
   (forall k, prog_delete k = [KWLock; KRegDelete k; KSave SLock; KSave SSnap; KSave SWrite; KSave SUnlock;
                               KRemove k; KWUnlock]) /\
   (forall g, prog_gc g = [KWLock; KRegGC g; KSave SLock; KSave SSnap; KSave SWrite; KSave SUnlock;
                           KSweep g; KWUnlock])) /\
  forall ops, check ts0 (prog_of_lops ops) = true.
Proof. exact (conj programs_explicit lops_checked). Qed.
Print Assumptions C08_programs_respect_lock_discipline.

(* hence: any number of threads running any lists of Tag / Untag / SaveIndex / Push / Delete / GC
   calls on a store at rest (GC call g keeps the references and blobs of the nodes [ll_keep s g],
   any family of sets), every schedule *)
Theorem C08_store_operations_quiescent :
  forall (s0 : lstate) (sched : list (nat * (list nat * list nat))),
    IxInv (ll_live s0) ->
    (exists c, ll_disk s0 = save_index (fst c) (snd c) (ll_live s0)) -> refs_valid s0 -> ll_ilock s0 = None ->
    (forall i, i < ll_n s0 -> exists ops, ll_ths s0 i = mkLT (prog_of_lops ops) ts0 None true) ->
    let s := l_run sched s0 in
    IxInv (ll_live s) /\
    (l_quiescent s ->
     (exists c, ll_disk s = save_index (fst c) (snd c) (ll_live s)) /\ DiskOK (ll_disk s) (ll_live s) /\
     refs_valid s /\ ll_ilock s = None).
Proof. exact store_operations_quiescent. Qed.
Print Assumptions C08_store_operations_quiescent.

(* ... and the store reopened from that index.json resolves every tag to its live descriptor
   (ref-name annotation set) and has a digest entry exactly where the live store has one *)
Theorem C08_store_operations_reload :
  forall (s0 : lstate) (sched : list (nat * (list nat * list nat))),
    IxInv (ll_live s0) ->
    (exists c, ll_disk s0 = save_index (fst c) (snd c) (ll_live s0)) -> refs_valid s0 -> ll_ilock s0 = None ->
    (forall i, i < ll_n s0 -> exists ops, ll_ths s0 i = mkLT (prog_of_lops ops) ts0 None true) ->
    let s := l_run sched s0 in
    l_quiescent s ->
    let ix' := r_index (fold_left load_res (ll_disk s) res_empty) in
    (forall t, lookup (RTag t) ix' = option_map (fun d => with_ref d (RTag t)) (lookup (RTag t) (ll_live s))) /\
    (forall k, lookup (RDig k) ix' <> None <-> lookup (RDig k) (ll_live s) <> None).
Proof. exact store_operations_reload. Qed.
Print Assumptions C08_store_operations_reload.

(* Delete with AutoGC: the cascade of delete() calls under ONE exclusive lock (target, referrers,
   danglings; a manifest that loses its last predecessor gets a digest reference), assembled from the
   generated call sequences of Store.Delete / delete, respects the lock discipline for EVERY queue in
   which no node gets a digest reference after it was deleted - so C08_lock_discipline_sufficient
   covers threads that run it next to any other operations *)
Theorem C08_delete_cascade_respects_lock_discipline :
  (forall k ds, prog_delete_item k ds =
     [KRegDelete k] ++ flat_map (fun d => [KExists d; KReg (RegDig (plain d))]) ds ++
     [KSave SLock; KSave SSnap; KSave SWrite; KSave SUnlock; KRemove k]) /\
  forall items, cascade_wf [] items = true -> check ts0 (prog_delete_auto items) = true.
Proof. exact (conj delete_item_explicit delete_auto_checked). Qed.
Print Assumptions C08_delete_cascade_respects_lock_discipline.

Example C08_delete_cascade_example :
  cascade_wf [] [(2, [3]); (1, [])] = true /\
  (let s := l_run (map (fun i => (i, ([], []))) ([1; 1; 1] ++ repeat 0 5 ++ repeat 1 12 ++ repeat 0 30)) exa_s0 in
   l_quiescent s /\ ll_blobs s = [3] /\ ll_live s = [(RDig 3, plain 3)] /\ ll_disk s = [plain 3]).
Proof. exact delete_auto_example. Qed.

(* the lock placements of the two seeded changes are rejected by the checker, and the second one
   (Exists before RLock) run against a Delete ends with a tag, in memory and in index.json, on
   content whose blob file is gone *)
Theorem C08_seeded_lock_orders_rejected :
  (check ts0 (KRLock :: map KSave [SSnap; SLock; SWrite; SUnlock] ++ [KRUnlock]) = false /\
   check ts0 [KExists 0; KRLock; KReg (RegDig (plain 0)); KSave SLock; KSave SSnap; KSave SWrite; KSave SUnlock; KRUnlock] = false) /\
  (let s := l_run (map (fun i => (i, ([], []))) [0; 1; 1; 1; 1; 1; 1; 1; 1; 0; 0; 0; 0; 0; 0; 0; 0]) exl_s0 in
   l_quiescent s /\ ll_blobs s = [] /\ lookup (RTag 5) (ll_live s) = Some (plain 0) /\
   ll_disk s = [mkDesc 0 0 (Some (RTag 5))]).
Proof. exact (conj seeded_orders_rejected unlocked_exists_refuted). Qed.
Print Assumptions C08_seeded_lock_orders_rejected.

(* ================= the fuel of the model is sufficient (audit F7) =================
   On a universe whose successor and subject links point to smaller node ids (content
   addressing; the harness builds its DAGs bottom-up) IndexAll and the subject-chain walk of GC
   do not depend on their fuel above N, and after any history on nodes below N Delete's queue
   loop never stops for lack of fuel: on such universes the fuelled model is the loop of the Go
   code.  (The rounds of GC's referrer pass: every continued round keeps one more entry, so S |refMap| rounds suffice
   for every order: C08_fuel_gc_rounds_sufficient.) *)
Theorem C08_fuel_index_all_sufficient :
  forall (N : nat) (mf : nat -> bool) (succs : nat -> list nat),
    (forall k c, In c (succs k) -> c < k) ->
    forall bl root g fuel, root < N -> N < fuel ->
      index_all N mf succs bl root g = visit mf succs fuel (fun k => mem k bl) root g.
Proof. exact index_all_fuel_sufficient. Qed.
Print Assumptions C08_fuel_index_all_sufficient.

Theorem C08_fuel_subject_chain_sufficient :
  forall (N : nat) (mf : nat -> bool) (subj : nat -> option nat) (sk : nat -> bool),
    (forall k c, subj k = Some c -> c < k) ->
    forall bl g cur fuel, cur < N -> N < fuel ->
      chain_hits mf subj sk (S N) bl g cur = chain_hits mf subj sk fuel bl g cur.
Proof. exact chain_hits_fuel_sufficient. Qed.
Print Assumptions C08_fuel_subject_chain_sufficient.

Theorem C08_fuel_delete_sufficient :
  forall (N : nat) (mf : nat -> bool) (succs : nat -> list nat) (subj : nat -> option nat)
         (sk bad : nat -> bool) (fF2 fA fF1 fH fR : bool) (cfg : config) (h : list (op * orders))
         (o : orders) (k : nat),
    Forall (fun oo => op_below N (fst oo)) h ->
    let s := run N mf succs subj sk bad fF2 fA fF1 fH fR cfg h store_empty in
    snd (st_delete N mf succs subj fH cfg o k s) <> ROutOfFuel.
Proof. exact delete_fuel_sufficient. Qed.
Print Assumptions C08_fuel_delete_sufficient.

Theorem C08_fuel_gc_rounds_sufficient :
  forall (N : nat) (mf : nat -> bool) (succs : nat -> list nat) (subj : nat -> option nat) (sk : nat -> bool)
         bl m os a fuel,
    length m < fuel ->
    gc_rounds N mf succs subj sk (S (length m)) bl m os a = gc_rounds N mf succs subj sk fuel bl m os a.
Proof. exact gc_rounds_fuel_sufficient. Qed.
Print Assumptions C08_fuel_gc_rounds_sufficient.

Example C08_fuel_hypotheses_satisfiable :
  (forall k c, In c (ex_succs k) -> c < k) /\ Forall (fun oo => op_below 3 (fst oo)) ex_hist.
Proof. exact fuel_example. Qed.
