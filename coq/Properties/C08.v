From Oras Require Import Model.OciIndex Proofs.OciIndex.
Theorem C08_placeholder : forall r, ref_eqb r r = true.
Proof. exact ref_eqb_refl. Qed.
Print Assumptions C08_placeholder.
