From Oras Require Import Base.Prelude Model.Scopes Proofs.Scopes.
Theorem C16_scopes_nil : clean_scopes [] = [].
Proof. exact clean_scopes_nil. Qed.
Print Assumptions C16_scopes_nil.
