(* C16 -- The auth client keeps each registry's secrets and tokens to that registry.
   Only statements closed by [exact]; the lemmas live in Proofs/Scopes.v,
   Proofs/AuthClient.v and Proofs/Once.v.  The models are Model/Scopes.v
   (CleanScopes, cleanActions), Model/Challenge.v (parseChallenge),
   Model/AuthClient.v (Client.Do, token fetchers, the three caches) and
   Model/Once.v (syncutil.Once), tied to the Go code by the correspondence run. *)
From Coq Require Import Sorting.Sorted Sorting.Permutation.
From Oras Require Import Base.Prelude Generated.GC16
  Model.Scopes Model.Challenge Model.AuthClient Model.Once Model.CacheSet Model.OnceSlot Model.AuthConc Model.Redirect
  Proofs.Scopes Proofs.ScopesIdem Proofs.AuthClient Proofs.AuthHistory Proofs.Once Proofs.CacheSet Proofs.OnceSlot Proofs.AuthConc Proofs.Redirect Proofs.AuthOrder.

(* ================= scope sets: the canonical cache key ================= *)

(* sorted strictly ascending: sorted and duplicate-free, for every input *)
Theorem C16_scopes_sorted_nodup :
  forall l, StronglySorted slt (clean_scopes l) /\ NoDup (clean_scopes l).
Proof. exact (fun l => conj (clean_scopes_ssorted l) (ssorted_nodup _ (clean_scopes_ssorted l))). Qed.
Print Assumptions C16_scopes_sorted_nodup.

(* CleanScopes(CleanScopes(l)) = CleanScopes(l), for every input *)
Theorem C16_scopes_idempotent :
  forall l, clean_scopes (clean_scopes l) = clean_scopes l.
Proof. exact clean_scopes_idempotent. Qed.
Print Assumptions C16_scopes_idempotent.

(* order-insensitive *)
Theorem C16_scopes_order_insensitive :
  forall l l', Permutation l l' -> clean_scopes l = clean_scopes l'.
Proof. exact clean_scopes_perm. Qed.
Print Assumptions C16_scopes_order_insensitive.

(* the result depends only on the SET of scopes: order and repetitions of the
   input are irrelevant, whatever path (fast or general) the lists take *)
Theorem C16_scopes_set_insensitive :
  forall l l', (forall x, In x l <-> In x l') -> clean_scopes l = clean_scopes l'.
Proof. exact clean_scopes_same. Qed.
Print Assumptions C16_scopes_set_insensitive.

(* the iteration order of the Go maps (any permutation of the list handed to the
   final sort, any order of an action set) is unobservable *)
Theorem C16_scopes_map_order_irrelevant :
  (forall l p, Permutation p (presort l) -> compact (isort p) = clean_scopes_slow l) /\
  (forall a q, Permutation q a -> merge_actions q = merge_actions a).
Proof. exact (conj slow_any_map_order merge_any_set_order). Qed.
Print Assumptions C16_scopes_map_order_irrelevant.

(* wildcard: "*" among the actions of (type, name) absorbs the other actions, and
   every member of the result is an unparsable input scope or THE rebuilt scope
   of one (type, name) *)
Theorem C16_scopes_wildcard :
  forall l,
    (forall s t n a, In s l -> classify s = Keyed t n a -> In [c_star] a ->
       In (t ++ [c_colon] ++ n ++ [c_colon] ++ [c_star]) (clean_scopes l)) /\
    (forall y, In y (clean_scopes l) <->
       (In y l /\ classify y = Pass y) \/
       exists k, In k (keys_of (map classify l) []) /\ rebuild (map classify l) k = [y]).
Proof. exact (fun l => conj (star_absorbs_all l) (clean_scopes_members_all l)). Qed.
Print Assumptions C16_scopes_wildcard.

Example C16_scopes_example :
  clean_scopes [b "repository:foo:push"; b "unknown"; b "repository:foo:pull,*"; b "unknown";
                b "repository:bar:pull"; b "repository:bar:delete,pull"]
  = [b "repository:bar:delete,pull"; b "repository:foo:*"; b "unknown"]
  /\ clean_scopes [ScopeRegistryCatalog] = [ScopeRegistryCatalog].
Proof. split; vm_compute; reflexivity. Qed.

(* the code before the two fix: commits violated the statement (F8 and the
   fast-path inconsistency) *)
Theorem C16_scopes_prefix_refuted :
  (exists l, ~ NoDup (clean_scopes_prefix l)) /\
  (exists l, clean_scopes_prefix (clean_scopes_prefix l) <> clean_scopes_prefix l).
Proof. exact prefix_refuted. Qed.
Print Assumptions C16_scopes_prefix_refuted.

(* ================= no secret crosses hosts ================= *)

(* Over every history of requests to any hosts sharing any cache flavour, with any
   credential table and any server behaviour (the answer scripts), every send of
   the request addressed to h satisfies [send_ok h]: it goes to h or to a realm
   that h advertised in this very request, and carries only h's secrets. *)
Theorem C16_no_cross_host :
  forall clean parse cf hist,
    Forall2 (fun rs out => trace_ok parse (rq_host (fst rs)) (fst out))
            hist (fst (run_history clean parse cf [] hist)).
Proof. exact (fun clean parse cf hist => proj2 (run_history_ok parse clean cf hist [] cache_ok_nil)). Qed.
Print Assumptions C16_no_cross_host.

(* [send_ok] in the words of the property: every secret attached to a send made
   for host h is tainted h; a registry send goes to h and a password travels in
   it only as h's Basic token (freshly: only after a Basic challenge of h in this
   request); token requests go to a realm advertised by h in a Bearer challenge
   and carry only h's password or refresh token *)
Theorem C16_send_ok_reading :
  forall parse h pre s, send_ok parse h pre s ->
    (forall t, In t (send_secrets s) -> taint t = h) /\
    match s with
    | SReg h' a fresh =>
      h' = h /\
      (forall t, In t (send_secrets s) -> long_lived t = true ->
                 t = SBasicTok h /\ (fresh = true -> basic_challenged parse h pre))
    | SDist _ realm _ _ _ | SOAuth _ realm _ _ _ =>
      advertised parse h realm pre /\ (forall t, In t (send_secrets s) -> t = SUserPass h \/ t = SRefresh h)
    end.
Proof. exact send_ok_reading. Qed.
Print Assumptions C16_send_ok_reading.

(* over a whole history: a Basic header (the password) reaches registry h only if
   h sent a Basic challenge earlier in the history *)
Theorem C16_password_only_after_basic_challenge :
  forall parse clean cf hist pre h t fr ans post,
    concat (map fst (fst (run_history clean parse cf [] hist))) = pre ++ (SReg h (ABasic t) fr, ans) :: post ->
    basic_challenged parse h pre.
Proof. exact history_basic_only_after_challenge. Qed.
Print Assumptions C16_password_only_after_basic_challenge.

(* the cache holds, under host h, only tokens of h -- at every point of every history *)
Theorem C16_cache_tainted :
  forall clean parse cf hist h s k t,
    cc_get_token (snd (run_history clean parse cf [] hist)) h s k = Some t -> taint t = h.
Proof.
  exact (fun clean parse cf hist h s k t H =>
    tok_fits_taint h s t (proj1 (run_history_ok parse clean cf hist [] cache_ok_nil) h s k t H)).
Qed.
Print Assumptions C16_cache_tainted.

Example C16_history_example :
  let creds := [(0, mkCred true true false false); (1, mkCred true true true false)] in
  let ch0 := b "Bearer realm=""https://auth.example/token"",service=""svc0"",scope=""repository:a:pull""" in
  let ch1 := b "Basic realm=""r""" in
  map (fun o => (map fst (fst o), snd o))
    (run_model FShared false creds [] []
       [ (mkReq 0 [] [] BNone, [A401 ch0; ATok 7; AOk]);
         (mkReq 1 [] [] BNone, [A401 ch1; AOk]);
         (mkReq 0 [] [b "repository:a:pull"] BNone, [AOk]);
         (mkReq 1 [] [] BNone, [AOk]) ])
  = [ ([SReg 0 NoAuth false;
        SDist 0 (b "https://auth.example/token") (b "svc0") [b "repository:a:pull"] (Some (SUserPass 0));
        SReg 0 (ABearer (SIssued 0 7)) true], RResp false);
      ([SReg 1 NoAuth false; SReg 1 (ABasic (SBasicTok 1)) true], RResp false);
      ([SReg 0 (ABearer (SIssued 0 7)) false], RResp false);
      ([SReg 1 (ABasic (SBasicTok 1)) false], RResp false) ].
Proof. vm_compute. reflexivity. Qed.

(* ================= budget and outcome ================= *)

(* at most three sends to the registry and one token fetch, for every server
   behaviour including sends that fail (transport error, cancelled context: AErr);
   every outcome has one of the listed causes; a failed send is the last one *)
Theorem C16_budget :
  forall parse clean cf c rq script,
    let '(evs, c', r) := do_request clean parse cf c rq script in
    (reg_sends evs <= 3)%nat /\ (fetches evs <= 1)%nat /\ outcome_ok parse cf rq evs r.
Proof. exact do_request_budget. Qed.
Print Assumptions C16_budget.

(* with valid credentials (present and complete for the challenged flow, accepted
   by the token endpoint and by the registry), known schemes and a rewindable
   body, the request ends with the registry's non-401 answer within the budget *)
Theorem C16_valid_credentials_succeed :
  forall parse clean cf c rq script,
    let '(evs, c', r) := do_request clean parse cf c rq script in
    r <> RBad ->
    rewind_ok (rq_body rq) = true ->
    r <> RErr ENoCred -> r <> RErr EMissing -> r <> RErr ECred -> r <> RErr EShared ->
    (forall s, ~ In (s, AFail) evs) ->
    (forall s, ~ In (s, AErr) evs) ->
    (forall h a hdr, ~ In (SReg h a true, A401 hdr) evs) ->
    (forall s hdr ps, In (s, A401 hdr) evs -> parse hdr <> (SchUnknown, ps)) ->
    r = RResp false /\ (reg_sends evs <= 3)%nat /\ (fetches evs <= 1)%nat /\
    exists h a fresh, last evs no_event = (SReg h a fresh, AOk).
Proof. exact valid_credentials_succeed. Qed.
Print Assumptions C16_valid_credentials_succeed.

(* ================= cache key ================= *)

(* shared cache: a hit after a store is the stored token under exactly the same
   host, scheme and key, or an older hit; other hosts are untouched; a scheme
   change drops the host's older tokens; different keys do not alias *)
Theorem C16_cache_key :
  (forall c h s k v, cc_get_token (cc_store c h s k v) h s k = Some v) /\
  (forall c h s k v h' s' k' t,
     cc_get_token (cc_store c h s k v) h' s' k' = Some t ->
     (h' = h /\ s' = s /\ k' = k /\ t = v) \/ cc_get_token c h' s' k' = Some t) /\
  (forall c h s k v h' s' k', h' <> h ->
     cc_get_token (cc_store c h s k v) h' s' k' = cc_get_token c h' s' k') /\
  (forall c h s0 s k v s' k' t, cc_get_scheme c h = Some s0 -> s0 <> s ->
     cc_get_token (cc_store c h s k v) h s' k' = Some t -> s' = s /\ k' = k /\ t = v) /\
  (forall h s k v k', k' <> k ->
     cache_get_token FShared (cache_store FShared [] h s k v) h s k' = None).
Proof.
  exact (conj get_store_same (conj get_store_hit (conj get_store_other_host
          (conj scheme_change_drops shared_key_sensitive)))).
Qed.
Print Assumptions C16_cache_key.

(* the key is canonical: requests whose hint + challenge scopes are the same set
   use the same key ... *)
Theorem C16_cache_key_canonical :
  forall l l', (forall x, In x l <-> In x l') ->
    join [c_space] (clean_scopes l) = join [c_space] (clean_scopes l').
Proof. exact (fun l l' H => f_equal (join [c_space]) (clean_scopes_same l l' H)). Qed.
Print Assumptions C16_cache_key_canonical.

(* ... and ONLY then, provided no scope is empty or contains a space (the scopes of
   a challenge satisfy this: they are the pieces of a split on spaces, and
   CleanScopes preserves it): equal keys give equal canonical scope sets *)
Theorem C16_cache_key_injective :
  forall l l',
    (forall s, In s l -> key_safe s) -> (forall s, In s l' -> key_safe s) ->
    join [c_space] (clean_scopes l) = join [c_space] (clean_scopes l') ->
    clean_scopes l = clean_scopes l'.
Proof. exact key_determines_scopes. Qed.
Print Assumptions C16_cache_key_injective.

(* the side condition is needed: a scope HINT containing a space (caller input the
   protocol cannot express; outside the property's quantifier, see assumptions)
   aliases the key of a two-element scope set *)
Theorem C16_cache_key_space_refuted :
  let l := [b "repository:a:pull repository:b:pull"] in
  let l' := [b "repository:a:pull"; b "repository:b:pull"] in
  join [c_space] (clean_scopes l) = join [c_space] (clean_scopes l') /\ clean_scopes l <> clean_scopes l'.
Proof. exact key_alias_with_space. Qed.
Print Assumptions C16_cache_key_space_refuted.

(* Client.Do re-uses a token (a send that is not fresh) only if it is in the cache,
   as it was when the call started, under the request's host, the scheme of the
   header, and one of the request's own keys (hinted scopes, or CleanScopes of
   hinted + challenge scopes).  With C16_cache_key (a hit is a token stored under
   exactly that host, scheme and key) and C16_cache_key_injective this is the
   clause "a cached token is reused only for the same host, scheme and canonical
   scope set" for the shared cache; the single-context cache ignores the key by
   design (C16_single_context_cache). *)
Theorem C16_reuse_only_own_key :
  forall parse clean cf c rq script,
    let '(evs, c', r) := do_request clean parse cf c rq script in
    Forall (cached_send_ok clean (cf_flavour cf) c rq) evs.
Proof. exact do_request_cached_sends. Qed.
Print Assumptions C16_reuse_only_own_key.

(* the single-context cache is documented to ignore scopes (host + scheme only):
   it always hits for the same host and scheme, and never for another host *)
Theorem C16_single_context_cache :
  (forall c h s k v k', exists t,
     cache_get_token FSingle (cache_store FSingle c h s k v) h s k' = Some t) /\
  (forall c h s k v h' s' k', h' <> h ->
     cache_get_token FSingle (cache_store FSingle c h s k v) h' s' k'
     = cache_get_token FSingle c h' s' k').
Proof. exact (conj single_ignores_scopes single_other_host). Qed.
Print Assumptions C16_single_context_cache.

(* ================= Once: sharing an in-flight fetch ================= *)

(* for every accepted trace (any callers, any interleaving, any cancellations):
   the function completes at most once; every caller that receives a result
   receives that one; a second caller enters the function only after the first
   one was cancelled (one fetch in flight); nobody receives a result before one
   is published.  (That a cancelled fetcher puts the value back into the channel is the
   definition of the step OCancelF in Model/Once.v, tied to once.go by the accepted
   traces with hand-over; it is not a theorem.) *)
Theorem C16_once :
  (forall tr s, orun OTok tr = Some s ->
     (done_count tr <= 1)%nat /\
     (forall g v, In (OReadClosed g v) tr -> exists g', In (ODone g' v) tr) /\
     (forall g1 v1 g2 v2, In (ODone g1 v1) tr -> In (ODone g2 v2) tr -> v1 = v2) /\
     (forall g1 v1 g2 v2, In (OReadClosed g1 v1) tr -> In (OReadClosed g2 v2) tr -> v1 = v2)) /\
  (forall p g1 m g2 q s,
     orun OTok (p ++ OAcquire g1 :: m ++ OAcquire g2 :: q) = Some s -> In (OCancelF g1) m) /\
  (forall tr s, orun OTok tr = Some s -> (forall v, s <> OClosed v) ->
     forall g w, ~ In (OReadClosed g w) tr).
Proof.
  exact (conj once_shared_result (conj one_in_flight no_result_before_publication)).
Qed.
Print Assumptions C16_once.

Example C16_once_example :
  once_accepts [OAcquire 1; OCtxDone 2; OCancelF 1; OAcquire 3; ODone 3 42; OReadClosed 4 42; OReadClosed 1 42] = true
  /\ once_accepts [OAcquire 1; OAcquire 2] = false
  /\ once_accepts [OAcquire 1; ODone 1 5; OReadClosed 2 6] = false.
Proof. vm_compute. auto. Qed.

(* ================= concurrentCache.Set: sharing across calls ================= *)

(* shared cache, any number of concurrent Set calls, any interleaving of
   LoadOrStore / Once steps / Delete: the token a call returns was fetched by a
   call with the same (registry, scheme, scope key) *)
Theorem C16_set_shared_result :
  forall calls, (forall g, csrc (calls g) = None) ->
    forall tr st g v, crun calls cinit tr = Some st ->
      nget (results st) g = Some v -> ck (calls v) = ck (calls g).
Proof. exact shared_set_result_same_key. Qed.
Print Assumptions C16_set_shared_result.

(* Since fix b278d84 the host-only follow-up of the single-context cache is a plain
   store, so every Set call is a real fetch and C16_set_shared_result covers the
   single-context cache too.  Before it, the follow-up was a Set call with a
   constant function; then the statement holds for every key on which only real
   fetches run -- every key but the empty scope key *)
Theorem C16_set_shared_result_partial :
  forall calls K, (forall g, ck (calls g) = K -> csrc (calls g) = None) ->
    forall tr st g v, crun calls cinit tr = Some st ->
      nget (results st) g = Some v -> ck (calls g) = K -> ck (calls v) = K.
Proof. exact set_result_same_key. Qed.
Print Assumptions C16_set_shared_result_partial.

(* before fix 2f4b15f fallbackCache.Set returned the result of its follow-up call:
   a token fetched for another scope key *)
Theorem C16_single_cache_set_prefix_refuted :
  let calls := table_calls [(1, mkCall kx None); (2, mkCall k0 (Some 1));
                            (3, mkCall ky None); (4, mkCall k0 (Some 3))] in
  exists tr st, crun calls cinit tr = Some st /\
    nget (results st) 4 = Some 1 /\ ck (calls 3) = ky /\ ck (calls 1) = kx /\ kx <> ky.
Proof. exact fallback_prefix_refuted. Qed.
Print Assumptions C16_single_cache_set_prefix_refuted.

(* before fix b278d84: with the EMPTY scope key the first call of the
   single-context cache shared its status key with follow-up calls *)
Theorem C16_single_cache_empty_key_refuted :
  let calls := table_calls [(1, mkCall kx None); (2, mkCall k0 (Some 1)); (3, mkCall k0 None)] in
  exists tr st, crun calls cinit tr = Some st /\
    nget (results st) 3 = Some 1 /\ ck (calls 3) = k0 /\ ck (calls 1) = kx /\ kx <> k0.
Proof. exact fallback_empty_key_refuted. Qed.
Print Assumptions C16_single_cache_empty_key_refuted.

Example C16_set_share_example :
  let calls := table_calls [(1, mkCall kx None); (2, mkCall kx None)] in
  exists st, crun calls cinit
    [CLoad 1; COnce 1 (OAcquire 1); CLoad 2; COnce 1 (ODone 1 1); COnce 2 (OReadClosed 2 1); CDelete 1] = Some st /\
    nget (results st) 1 = Some 1 /\ nget (results st) 2 = Some 1.
Proof. exact set_share_example. Qed.

(* a recorded concurrent execution that the extracted acceptor accepts (with the
   observed in-flight entries) is a run of the system; with real fetches only,
   every delivered token was fetched for the same (registry, scheme, scope key) *)
Theorem C16_set_accepted_trace :
  forall tbl tr, set_accepts tbl tr = true ->
    (forall g, csrc (table_calls tbl g) = None) ->
    exists st, crun (table_calls tbl) cinit (map fst tr) = Some st /\
      forall g v, nget (results st) g = Some v -> ck (table_calls tbl v) = ck (table_calls tbl g).
Proof. exact accepted_trace_same_key. Qed.
Print Assumptions C16_set_accepted_trace.

(* ================= failed sends: transport errors, cancellation ================= *)

(* for every server behaviour in which sends may get no response (AErr): nothing is
   sent after such a send (so no secret leaves after a cancellation), and a token
   fetch that failed or was cancelled leaves the cache exactly as it was *)
Theorem C16_failed_sends :
  forall parse clean cf c rq script,
    let '(evs, c', r) := do_request clean parse cf c rq script in
    stops_after_failure evs /\
    ((exists s, last evs no_event = (s, AErr) /\ is_reg (s, AErr) = false) -> c' = c) /\
    ((exists s, last evs no_event = (s, AFail) /\ is_reg (s, AFail) = false) -> c' = c).
Proof. exact do_request_failures. Qed.
Print Assumptions C16_failed_sends.

Example C16_failed_send_example :
  let creds := [(0, mkCred true true false false)] in
  let ch0 := b "Bearer realm=""https://auth.example/token"",service=""svc0"",scope=""repository:a:pull""" in
  map (fun o => (map fst (fst o), snd o))
    (run_model FShared false creds [] []
       [ (mkReq 0 [] [] BNone, [A401 ch0; AErr; AOk]);          (* the token request is cancelled *)
         (mkReq 0 [] [] BNone, [A401 ch0; ATok 9; AOk]) ])      (* nothing was cached: full flow again *)
  = [ ([SReg 0 NoAuth false;
        SDist 0 (b "https://auth.example/token") (b "svc0") [b "repository:a:pull"] (Some (SUserPass 0))],
       RErr ETransport);
      ([SReg 0 NoAuth false;
        SDist 0 (b "https://auth.example/token") (b "svc0") [b "repository:a:pull"] (Some (SUserPass 0));
        SReg 0 (ABearer (SIssued 0 9)) true], RResp false) ].
Proof. vm_compute. reflexivity. Qed.

(* ================= Once: the run slot is never lost ================= *)

(* The per-caller program is the list of control paths the translator extracts from
   once.go (Generated.GC16: once_paths_taken, once_paths_closed); by computation every path that holds
   the slot hands it back or publishes before it leaves Do. *)
Theorem C16_once_paths_release :
  forallb releases paths_taken = true /\ forallb untouched paths_closed = true /\
  forallb releases paths_panic = true /\ negb (Nat.eqb (length paths_panic) 0) = true /\
  negb (Nat.eqb (length paths_taken) 0) = true /\ negb (Nat.eqb (length paths_closed) 0) = true.
Proof. exact generated_paths_ok. Qed.
Print Assumptions C16_once_paths_release.

(* For every interleaving of any number of Do calls (callers whose context is
   already cancelled, or is cancelled while they wait, and callers whose function
   argument PANICS -- the deferred recover path generated from once.go -- included): a taken slot is
   owned by a caller that is inside Do on a path that releases it; at every
   quiescent point the slot is free or a result is published; and the owner's own
   steps alone release it (nobody can be made to wait forever by a caller that
   has left). *)
Theorem C16_once_slot_never_lost :
  (forall tr st g, once_run sinit tr = Some st -> s_slot st = STaken g ->
     exists rest, pc_get (s_pcs st) g = PIn rest /\ releases rest = true) /\
  (forall tr st, once_run sinit tr = Some st ->
     (forall g rest, pc_get (s_pcs st) g <> PIn rest) ->
     s_slot st = SFree \/ s_slot st = SClosed) /\
  (forall tr st g, once_run sinit tr = Some st -> s_slot st = STaken g ->
     exists n st', once_run st (repeat (SAct g) n) = Some st' /\
       (s_slot st' = SFree \/ s_slot st' = SClosed)).
Proof.
  exact (conj (slot_owned paths_taken paths_closed paths_panic generated_taken_release generated_panic_release)
        (conj (quiescent_slot_free paths_taken paths_closed paths_panic generated_taken_release generated_panic_release)
              (never_wedged paths_taken paths_closed paths_panic generated_taken_release generated_panic_release))).
Qed.
Print Assumptions C16_once_slot_never_lost.

(* the statement is about the program, not the machine: with one more return path
   that keeps the slot (a context check after the receive) the slot is lost *)
Theorem C16_once_leaky_program_refuted :
  let taken := [ARet] :: paths_taken in
  exists tr st, srun taken paths_closed paths_panic sinit tr = Some st /\
    (forall g rest, pc_get (s_pcs st) g <> PIn rest) /\ s_slot st = STaken 1.
Proof. exact leaky_program_wedges. Qed.
Print Assumptions C16_once_leaky_program_refuted.

Example C16_once_slot_example :
  once_slot_final [SEnter 1; SEnter 2; SCtxDone 2; STake 1 0; SAct 1; SEnter 3; SAct 1; SAct 1;
                   STake 3 1; SAct 3; SAct 3; SAct 3; SAct 3; SEnter 4; SReadClosed 4 0; SAct 4] = Some SClosed
  /\ once_slot_final [SEnter 1; STake 1 0; SEnter 2; STake 2 0] = None.
Proof. vm_compute. auto. Qed.

(* ================= Client.Do under concurrency ================= *)

(* one call, whatever the cache tells it (its three reads are oracles that answer
   like SOME host-tainted cache): it sends only what it may, and what it writes
   into the cache is a token of its own host *)
Theorem C16_call_guarantee :
  forall parse clean cf rq osch otok1 otok2 script,
    (forall t, otok1 = Some t -> match osch with Some s => tok_fits (rq_host rq) s t | None => True end) ->
    (forall k t, otok2 k = Some t -> tok_fits (rq_host rq) SchBearer t) ->
    let '(evs, op, r) := do_request_rd clean parse cf rq osch otok1 otok2 script in
    trace_ok_from parse (rq_host rq) [] evs /\ op_fits (rq_host rq) op.
Proof. exact do_request_rd_ok. Qed.
Print Assumptions C16_call_guarantee.

(* the sequential model is the special case: all reads see one cache and the write
   is applied at once *)
Theorem C16_sequential_is_special_case :
  forall parse clean cf c rq script,
    do_request clean parse cf c rq script =
    let osch := rd_scheme (cf_flavour cf) c rq in
    let '(evs, op, r) :=
      do_request_rd clean parse cf rq osch (rd_tok1 clean (cf_flavour cf) c rq osch)
                    (rd_tok2 (cf_flavour cf) c rq) script in
    (evs, apply_op (cf_flavour cf) c (rq_host rq) op, r).
Proof. exact do_request_rd_eq. Qed.
Print Assumptions C16_sequential_is_special_case.

(* any number of concurrent calls over one shared cache, every interleaving of
   their cache reads (each sees the cache of its own moment) and of their
   completions: every call's sends are [trace_ok] for the host it addressed, and
   the cache stays host-tainted *)
Theorem C16_concurrent_no_cross_host :
  forall parse clean cf tr y,
    yrun clean parse cf yinit tr = Some y ->
    (forall j h evs r, In (j, (h, evs, r)) (y_out y) -> trace_ok parse h evs) /\
    (forall h s k t, cc_get_token (y_cache y) h s k = Some t -> taint t = h).
Proof. exact concurrent_no_cross_host. Qed.
Print Assumptions C16_concurrent_no_cross_host.

Example C16_concurrent_example :
  let cf := mkConfig FShared false (lookup_cred [(0, mkCred true true false false); (1, mkCred true true false false)]) (err_hosts []) in
  let ch := b "Bearer realm=""https://auth.example/token"",service=""s"",scope=""repository:a:pull""" in
  match yrun clean_scopes parse_total cf yinit
          [YStart 1 (mkReq 0 [] [] BNone) [A401 ch; ATok 5; AOk];
           YStart 2 (mkReq 0 [] [] BNone) [A401 ch; AOk];   (* finds call 1's token at its second look *)
           YStart 3 (mkReq 1 [] [] BNone) [AOk];
           YLook 1 1; YLook 2 1; YLook 2 2; YFinish 1; YLook 2 3; YFinish 2; YFinish 3] with
  | Some y => map (fun o => (fst o, snd (snd o))) (y_out y) = [(3, RResp false); (2, RResp false); (1, RResp false)]
              /\ cc_get_token (y_cache y) 0 SchBearer (b "repository:a:pull") = Some (SIssued 0 5)
  | None => False
  end.
Proof. vm_compute. auto. Qed.

(* ================= every call of every history ================= *)
Theorem C16_history_budget_and_reuse :
  forall parse clean cf hist c,
    Forall2 (fun rs out => exists c0,
               (reg_sends (fst out) <= 3)%nat /\ (fetches (fst out) <= 1)%nat /\
               outcome_ok parse cf (fst rs) (fst out) (snd out) /\
               stops_after_failure (fst out) /\
               Forall (cached_send_ok clean (cf_flavour cf) c0 (fst rs)) (fst out))
            hist (fst (run_history clean parse cf c hist)).
Proof. exact history_budget_and_reuse. Qed.
Print Assumptions C16_history_budget_and_reuse.

(* ================= known findings: net/http's redirect policy ================= *)

(* redirect-other-port-keeps-authorization, as a statement about the policy model
   (Model/Redirect.v, compared with net/http on every followed redirect): hosts that
   the auth client keeps apart are one host for the policy *)
Theorem C16_redirect_other_port_refuted :
  let a := b "reg0.test" in let c := b "reg0.test:443" in
  a <> c /\ keeps_authorization a c = true /\ keeps_authorization c a = true /\
  keeps_authorization a (b "reg1.test:5000") = false /\ keeps_authorization a (b "blobs.reg0.test") = true.
Proof. exact other_port_keeps_authorization. Qed.
Print Assumptions C16_redirect_other_port_refuted.

(* redirect-token-request-resent: 307/308 keep the body of the token POST *)
Theorem C16_redirect_token_post_refuted :
  keeps_body 307 = true /\ keeps_body 308 = true /\ keeps_body 302 = false /\ keeps_body 303 = false.
Proof. exact token_post_resent. Qed.
Print Assumptions C16_redirect_token_post_refuted.

(* budget, outcome classification and "nothing after a failed send" for a call in ANY
   concurrent execution: they do not depend on what the cache answers *)
Theorem C16_concurrent_budget :
  forall parse clean cf rq osch otok1 otok2 script,
    let '(evs, op, r) := do_request_rd clean parse cf rq osch otok1 otok2 script in
    (reg_sends evs <= 3)%nat /\ (fetches evs <= 1)%nat /\ outcome_ok parse cf rq evs r /\ stops_after_failure evs.
Proof. exact do_request_rd_budget. Qed.
Print Assumptions C16_concurrent_budget.

(* ================= order of effects in the source ================= *)

(* the order of the observable effects (in-flight map, Once, cache operations, sends) inside
   concurrentCache.Set / store, the single-context cache's Set and Client.Do, re-read from
   the Go source on every run, is the order the models assume *)
Theorem C16_source_call_order :
  (all_after (b "fetchOnce.Do") (b "cc.status.LoadOrStore") calls_cc_set = true /\
   all_after (b "fetch") (b "fetchOnce.Do") calls_cc_set = true /\
   all_after (b "cc.status.Delete") (b "fetchOnce.Do") calls_cc_set = true) /\
  (all_after (b "entry.tokens.Store") (b "cc.cache.LoadOrStore") calls_cc_store = true /\
   none_after (b "entry.tokens.Store") (b "cc.cache.Store") calls_cc_store = true) /\
  (all_after (b "fc.secondary.Set") (b "fc.primary.Set") calls_fallback_set = true /\
   none_after (b "fc.secondary.Set") (b "fc.primary.Set") calls_fallback_set = true /\
   all_after (b "cc.store") (b "fetch") calls_host_set = true) /\
  (all_after (b "cache.GetToken") (b "cache.GetScheme") calls_do = true /\
   all_after (b "cache.Set") (b "cache.GetToken") calls_do = true /\
   eventually (b "cache.Set") (b "rewindRequestBody") calls_do = true /\
   next_is (b "rewindRequestBody") (b "c.send") calls_do = true).
Proof. exact (conj cc_set_order (conj cc_store_order (conj fallback_set_order do_order))). Qed.
Print Assumptions C16_source_call_order.

(* valid credentials => the registry's non-401 answer, for a call in any concurrent execution *)
Theorem C16_concurrent_valid_credentials_succeed :
  forall parse clean cf rq osch otok1 otok2 script,
    let '(evs, op, r) := do_request_rd clean parse cf rq osch otok1 otok2 script in
    r <> RBad ->
    rewind_ok (rq_body rq) = true ->
    r <> RErr ENoCred -> r <> RErr EMissing -> r <> RErr ECred -> r <> RErr EShared ->
    (forall s, ~ In (s, AFail) evs) ->
    (forall s, ~ In (s, AErr) evs) ->
    (forall h a hdr, ~ In (SReg h a true, A401 hdr) evs) ->
    (forall s hdr ps, In (s, A401 hdr) evs -> parse hdr <> (SchUnknown, ps)) ->
    r = RResp false /\ exists h a fresh, last evs no_event = (SReg h a fresh, AOk).
Proof. exact valid_credentials_succeed_rd. Qed.
Print Assumptions C16_concurrent_valid_credentials_succeed.

(* the state between the two map operations of concurrentCache.store is a host-tainted
   cache as well (discharges the atomic-write assumption of the concurrent system) *)
Theorem C16_store_intermediate_state :
  forall c h s, cache_ok c ->
    cache_ok (match cc_entry c h with
              | Some (s', t) => if scheme_eqb s s' then c else cc_put c h (s, [])
              | None => cc_put c h (s, [])
              end).
Proof. exact store_intermediate_ok. Qed.
Print Assumptions C16_store_intermediate_state.

(* the deferred recover of Once.Do matters: a program that does not hand the slot back
   when the function argument panics loses the slot *)
Theorem C16_once_panic_without_handback_refuted :
  exists tr st, srun paths_taken paths_closed [[ARet]] sinit tr = Some st /\
    (forall g rest, pc_get (s_pcs st) g <> PIn rest) /\ s_slot st = STaken 1.
Proof. exact panic_without_handback_wedges. Qed.
Print Assumptions C16_once_panic_without_handback_refuted.

Example C16_once_panic_example :
  once_slot_final [SEnter 1; STake 1 1; SEnter 2; SPanicF 1 0; SAct 1; SAct 1;
                   STake 2 1; SAct 2; SAct 2; SAct 2; SAct 2] = Some SClosed.
Proof. vm_compute. reflexivity. Qed.
