(* C02 (spec-level part) -- the destination stays link-closed at every instant; failures
   surface; a retry completes the graph.
   Only statements closed by [exact]; the lemmas live in Proofs/CopyFault.v (on top of
   Proofs/CopySpec.v).  The transition system is Model/CopyFault.v: the visible-event
   acceptor of copy.go (Model/CopySpec.v) extended with fault events -- an error returned
   by dst.Exists [ExX], src.Fetch [SFX], Read() of a fetched manifest stream [SRX], the FindSuccessors callback [FSX], dst.Push/PushReference before or after the content
   was stored [PuX n ref stored], dst.Tag before or after the reference was set [TagX n set],
   registry.Mounter.Mount before / after the blob was mounted or uploaded [MtX n stored],
   a user callback [Ev (CbFail k n)], an operation of the
   sequential prologue (Resolve / MapRoot / Predecessors, [ProX]) -- and cancellation of
   the call's context at any moment [Cancel].
   [faccepts g c ext d0 tr = Some fs]: tr is a run (complete or not: every prefix of a run
   is a run) of CopyGraph / Copy (ext = false, root [c_root c]) or of ExtendedCopyGraph
   (ext = true: [c_root c] is the virtual super-root whose successors are the roots found
   by findRoots) on the content universe g, started with the destination holding d0.
   Quantifying over tr quantifies over every interleaving of the visible events, every
   placement of any number of faults and every cancellation point.
   The protocol part of C02 (no deadlock, termination, syncutil.Go / LimitedRegion) is
   Properties/C02_protocol.v. *)
From Oras Require Import Base.Prelude Generated.GC02 Model.CopySpec Model.CopyTop Model.CopyOpt Model.CopyFault
  Model.CopyAbs Proofs.CopyAbs Model.CopyFaultOpt Proofs.CopySpec Proofs.CopyFault Proofs.CopyFnFacts Proofs.CopyFaultOpt Proofs.CopyFaultLive Proofs.CopyFaultTerm Proofs.CopyFaultTermM.
Local Open Scope nat_scope.

(* The tie of the hand-modelled error handling to the source (layer T -> P): the syntactic facts
   about copyGraph.fn (named result `err`; deferred `if err == nil { close(done) }`; the
   `case <-ctx.Done(): return ctx.Err()` arm of the wait; the errors of Exists / FindSuccessors /
   syncutil.Go / region.Start / copyNode returned; exactly two `return nil`), about syncutil.Go
   (`return context.Cause(ctx)` after eg.Wait; a task's error cancels the group; skip when
   cancelled), LimitedRegion.Start and ExtendedCopyGraph's outer closure, re-read from the Go
   source on every run (Generated/GC02.v), all hold.  An edit of one of these places makes this
   theorem fail to check. *)
Theorem C02_source_facts : c02_source_facts = true.
Proof. exact source_facts_hold. Qed.
Print Assumptions C02_source_facts.

(* ... and the source ORDER of the calls inside copyGraph.fn / ExtendedCopyGraph / copyNode / doCopyNode
   (translator kind callseq) is the order of the program counters / phases of the two models. *)
Theorem C02_source_call_order :
  c02_calls_copygraph =
    [b "tracker.TryCommit"; b "close"; b "dst.Exists"; b "opts.OnCopySkipped"; b "opts.FindSuccessors";
     b "removeForeignLayers"; b "region.End"; b "syncutil.Go"; b "tracker.TryCommit"; b "region.Start";
     b "proxy.Cache.Exists"; b "copyNode"; b "mountOrCopyNode"; b "syncutil.Go"]%string /\
  c02_calls_extendedcopygraph =
    [b "findRoots"; b "semaphore.NewWeighted"; b "cas.NewProxyWithLimit"; b "status.NewTracker"; b "syncutil.Go";
     b "region.End"; b "copyGraph"; b "region.Start"]%string /\
  c02_calls_copynode = [b "opts.PreCopy"; b "doCopyNode"; b "opts.PostCopy"]%string /\
  c02_calls_docopynode = [b "src.Fetch"; b "newCopyError"; b "rc.Close"; b "dst.Push"; b "newCopyError"]%string.
Proof. exact source_call_order_holds. Qed.
Print Assumptions C02_source_call_order.

(* A destination that started link-closed is link-closed after every accepted trace --
   successful, failed, cancelled, or still running. *)
Theorem C02_closed_always :
  forall (g : graph) (c : cfg) (ext : bool) (d0 : list node) (tr : list fevent) (fs : fstate),
    ext_ok g c ext d0 -> closed_nodes g d0 ->
    faccepts g c ext d0 tr = Some fs -> closed_nodes g (dst (fb fs)).
Proof. exact fclosed_always. Qed.
Print Assumptions C02_closed_always.

(* The same at the level of keys -- what a digest-keyed destination answers to Exists: every node whose
   key the destination holds (also a "twin" of a stored node) has all its successors held.  This is where
   [mt_consistent] is needed; without it C01's F12 witness applies. *)
Theorem C02_closed_always_keys :
  forall (g : graph) (c : cfg) (ext : bool) (d0 : list node) (tr : list fevent) (fs : fstate),
    ext_ok g c ext d0 -> closed_nodes g d0 -> mt_consistent g ->
    faccepts g c ext d0 tr = Some fs ->
    forall n x, has g (dst (fb fs)) n = true -> In x (succ' g n) -> has g (dst (fb fs)) x = true.
Proof. exact fclosed_keys. Qed.
Print Assumptions C02_closed_always_keys.

(* ... hence at every instant: every prefix of an accepted trace is accepted and leaves the
   destination link-closed. *)
Theorem C02_closed_every_prefix :
  forall (g : graph) (c : cfg) (ext : bool) (d0 : list node) (tr1 tr2 : list fevent) (fs : fstate),
    ext_ok g c ext d0 -> closed_nodes g d0 ->
    faccepts g c ext d0 (tr1 ++ tr2) = Some fs ->
    exists fs1, faccepts g c ext d0 tr1 = Some fs1 /\ closed_nodes g (dst (fb fs1)).
Proof. exact fclosed_every_prefix. Qed.
Print Assumptions C02_closed_every_prefix.

(* No node's push completes (successfully, with ErrAlreadyExists, or with an error after
   the content was stored; likewise a Mount that mounted or uploaded the blob, or failed after
   doing so -- [push_done]) before all of that node's successors are in the destination. *)
Theorem C02_push_after_successors :
  forall (g : graph) (c : cfg) (ext : bool) (d0 : list node)
         (tr1 : list fevent) (fe : fevent) (tr2 : list fevent) (fs : fstate) (n : node),
    ext_ok g c ext d0 -> closed_nodes g d0 -> mt_consistent g ->
    faccepts g c ext d0 (tr1 ++ fe :: tr2) = Some fs -> push_done fe n ->
    exists fs1, faccepts g c ext d0 tr1 = Some fs1 /\
      forall x, In x (succ' g n) -> has g (dst (fb fs1)) x = true.
Proof. exact fpush_after_successors. Qed.
Print Assumptions C02_push_after_successors.

(* A fault or a cancellation anywhere in the trace excludes the successful return. *)
Theorem C02_fault_surfaces :
  forall (g : graph) (c : cfg) (ext : bool) (d0 : list node) (tr : list fevent) (fs : fstate),
    ext_ok g c ext d0 ->
    faccepts g c ext d0 tr = Some fs -> existsb is_fault tr = true ->
    returned (fb fs) <> Some true.
Proof. exact ffault_surfaces. Qed.
Print Assumptions C02_fault_surfaces.

(* ... stated on the state: right after a fault the state is tainted, taint is never lost,
   and in a tainted state the successful return is not enabled (the only return is Ret err). *)
Theorem C02_fault_taints :
  forall (g : graph) (c : cfg) (ext : bool) (d0 : list node) (tr1 : list fevent) (fe : fevent) (fs : fstate),
    ext_ok g c ext d0 ->
    faccepts g c ext d0 (tr1 ++ [fe]) = Some fs -> is_fault fe = true ->
    tainted g fs = true.
Proof. exact ftainted_after_fault. Qed.
Print Assumptions C02_fault_taints.

Theorem C02_taint_persists :
  forall (g : graph) (c : cfg) (ext : bool) (fs : fstate) (fe : fevent) (fs' : fstate),
    fstep g c ext fs fe = Some fs' -> tainted g fs = true -> tainted g fs' = true.
Proof. exact tainted_mono. Qed.
Print Assumptions C02_taint_persists.

Theorem C02_tainted_only_error_return :
  forall (g : graph) (c : cfg) (ext : bool) (fs : fstate),
    tainted g fs = true -> fstep g c ext fs (Ev (Ret true)) = None.
Proof. exact fret_ok_disabled. Qed.
Print Assumptions C02_tainted_only_error_return.

Theorem C02_tainted_error_return_enabled :
  forall (g : graph) (c : cfg) (ext : bool) (fs : fstate),
    tainted g fs = true -> returned (fb fs) = None ->
    fstep g c ext fs (Ev (Ret false)) = Some (set_ret fs false).
Proof. exact fret_err_enabled. Qed.
Print Assumptions C02_tainted_error_return_enabled.

(* The converse direction at the level of the spec model: a run without any fault event (and
   without cancellation) is never tainted and never returns an error -- the only return such a
   run can make is the successful one, whose guard is "every root done, nothing in flight".
   (That a fault-free execution does reach its return, and returns nil, is a theorem of the
   protocol part: C02_terminates + C02_nofault_returns_nil_protocol.) *)
Theorem C02_nofault_no_error_return :
  forall (g : graph) (c : cfg) (ext : bool) (d0 : list node) (tr : list fevent) (fs : fstate),
    faccepts g c ext d0 tr = Some fs -> existsb is_fault tr = false ->
    tainted g fs = false /\ returned (fb fs) <> Some false.
Proof. exact fnofault_no_error. Qed.
Print Assumptions C02_nofault_no_error_return.

(* No stuck state.  The transition system excludes no behaviour by deadlocking: at every state reached by an
   accepted trace that has not returned -- whatever faults and cancellations happened -- some FAULT-FREE event
   is enabled (an untainted run can always go on towards the successful return; a tainted one can at least
   return its error).  Hypotheses: the graph is well-founded (rank) and closed under successors inside its
   universe, K >= 1, the roots are nodes of the universe, the destination is not a registry.Mounter, and
   (ExtendedCopyGraph) the virtual super-root is nobody's successor.  With C02_nofault_no_error_return: a run
   that meets no fault can be extended step by step, never to an error return.  (That real executions take
   finitely many steps is the protocol part's C02_terminates; the acceptor itself allows unboundedly many
   Mount candidates, hence c_mount = false here.) *)
Theorem C02_no_stuck_state :
  forall (g : graph) (c : cfg) (ext : bool) (d0 : list node) (rank : node -> nat),
    (forall n x, In x (succ' g n) -> rank x < rank n) ->
    1 <= c_K c -> c_root c < g_n g -> (forall x, In x (c_xroots c) -> x < g_n g) ->
    (forall n x, n < g_n g -> In x (succ' g n) -> x < g_n g) ->
    c_mount c = false ->
    (ext = true -> forall n, ~ In (c_root c) (succ' g n)) ->
    forall (tr : list fevent) (fs : fstate),
    ext_ok g c ext d0 -> faccepts g c ext d0 tr = Some fs -> returned (fb fs) = None ->
    exists e fs', is_fault (Ev e) = false /\ fstep g c ext fs (Ev e) = Some fs'.
Proof. exact fprogress. Qed.
Print Assumptions C02_no_stuck_state.

(* The same for registry.Mounter destinations (MountFrom -> Mount per candidate -> mounted | skipped | fallback
   upload), when content keys are injective (no two nodes with one digest): every phase of the mount path has a
   next event too.  (No bound on the run length here: the acceptor allows any number of Mount candidates.) *)
Theorem C02_no_stuck_state_mounter :
  forall (g : graph) (c : cfg) (ext : bool) (d0 : list node) (rank : node -> nat),
    (forall n x, In x (succ' g n) -> rank x < rank n) ->
    1 <= c_K c -> c_root c < g_n g -> (forall x, In x (c_xroots c) -> x < g_n g) ->
    (forall n x, n < g_n g -> In x (succ' g n) -> x < g_n g) ->
    (ext = true -> forall n, ~ In (c_root c) (succ' g n)) ->
    (forall a b, g_dkey g a = g_dkey g b -> a = b) ->
    forall (tr : list fevent) (fs : fstate),
    ext_ok g c ext d0 -> faccepts g c ext d0 tr = Some fs -> returned (fb fs) = None ->
    exists e fs', is_fault (Ev e) = false /\ fstep g c ext fs (Ev e) = Some fs'.
Proof. exact fprogress_m. Qed.
Print Assumptions C02_no_stuck_state_mounter.

(* Fault-free runs end well (the spec-level form of "re-running it without faults completes the graph"):
   a fault-free accepted trace has a bounded number of operation / callback / return events (potential
   function: every such event moves one node strictly forward through its phases), and from every state a
   fault-free accepted trace reaches without having returned, a finite fault-free continuation reaches the
   SUCCESSFUL return -- which by C02_success_complete means the whole graph of the call's roots is there. *)
Theorem C02_nofault_run_bounded :
  forall (g : graph) (c : cfg) (ext : bool) (d0 : list node) (tr : list fevent) (fs : fstate),
    ext_ok g c ext d0 -> c_mount c = false ->
    faccepts g c ext d0 tr = Some fs -> existsb is_fault tr = false ->
    count_ev tr <= 15 * g_n g + 1.
Proof. exact fnofault_bounded. Qed.
Print Assumptions C02_nofault_run_bounded.

Theorem C02_nofault_completes :
  forall (g : graph) (c : cfg) (ext : bool) (d0 : list node) (rank : node -> nat),
    (forall n x, In x (succ' g n) -> rank x < rank n) ->
    1 <= c_K c -> c_root c < g_n g -> (forall x, In x (c_xroots c) -> x < g_n g) ->
    (forall n x, n < g_n g -> In x (succ' g n) -> x < g_n g) ->
    c_mount c = false ->
    (ext = true -> forall n, ~ In (c_root c) (succ' g n)) ->
    forall (tr : list fevent) (fs : fstate),
    ext_ok g c ext d0 -> faccepts g c ext d0 tr = Some fs -> existsb is_fault tr = false ->
    returned (fb fs) = None ->
    exists tr2 fs2, existsb is_fault tr2 = false /\
      faccepts g c ext d0 (tr ++ tr2) = Some fs2 /\ returned (fb fs2) = Some true.
Proof. exact fnofault_completes. Qed.
Print Assumptions C02_nofault_completes.

(* The retry clause in one statement: whatever ANY run of a first call left, a fault-free second call (no
   Mounter) that has not returned yet can be continued, fault-free and finitely, to the successful return, and
   then everything reachable from its roots is in the destination. *)
Theorem C02_rerun_completes :
  forall (g : graph) (c1 c2 : cfg) (ext1 ext2 : bool) (d0 : list node) (rank : node -> nat)
         (tr1 : list fevent) (fs1 : fstate) (tr2 : list fevent) (fs2 : fstate),
    (forall n x, In x (succ' g n) -> rank x < rank n) ->
    1 <= c_K c2 -> c_root c2 < g_n g -> (forall x, In x (c_xroots c2) -> x < g_n g) ->
    (forall n x, n < g_n g -> In x (succ' g n) -> x < g_n g) ->
    c_mount c2 = false -> (ext2 = true -> forall n, ~ In (c_root c2) (succ' g n)) ->
    ext_ok g c1 ext1 d0 -> closed_nodes g d0 -> mt_consistent g ->
    faccepts g c1 ext1 d0 tr1 = Some fs1 ->
    ext_ok g c2 ext2 (dst (fb fs1)) ->
    faccepts g c2 ext2 (dst (fb fs1)) tr2 = Some fs2 -> existsb is_fault tr2 = false -> returned (fb fs2) = None ->
    exists tr3 fs3, existsb is_fault tr3 = false /\
      faccepts g c2 ext2 (dst (fb fs1)) (tr2 ++ tr3) = Some fs3 /\ returned (fb fs3) = Some true /\
      forall r n, is_call_root g c2 ext2 r -> reach g r n -> has g (dst (fb fs3)) n = true.
Proof. exact frerun_completes. Qed.
Print Assumptions C02_rerun_completes.

(* Completion WITHOUT the "no Mounter" premise (second extension round).  With a registry.Mounter destination
   the acceptor allows any number of Mount candidates, so fault-free runs are not bounded there; but every event
   other than a further Mount attempt moves one node strictly forward for a second potential function, and the
   no-stuck-state witnesses never are a further Mount attempt.  Hence, when content keys are injective: from
   every state a fault-free accepted trace reaches without having returned -- Mounter or not -- a finite
   fault-free continuation reaches the successful return; and as the second call after ANY first call it then
   holds everything reachable from its roots (mt_consistent follows from the injectivity). *)
Theorem C02_nofault_completes_mounter :
  forall (g : graph) (c : cfg) (ext : bool) (d0 : list node) (rank : node -> nat),
    (forall n x, In x (succ' g n) -> rank x < rank n) ->
    1 <= c_K c -> c_root c < g_n g -> (forall x, In x (c_xroots c) -> x < g_n g) ->
    (forall n x, n < g_n g -> In x (succ' g n) -> x < g_n g) ->
    (ext = true -> forall n, ~ In (c_root c) (succ' g n)) ->
    (forall a b, g_dkey g a = g_dkey g b -> a = b) ->
    forall (tr : list fevent) (fs : fstate),
    ext_ok g c ext d0 -> faccepts g c ext d0 tr = Some fs -> existsb is_fault tr = false ->
    returned (fb fs) = None ->
    exists tr2 fs2, existsb is_fault tr2 = false /\
      faccepts g c ext d0 (tr ++ tr2) = Some fs2 /\ returned (fb fs2) = Some true.
Proof. exact fnofault_completes_m. Qed.
Print Assumptions C02_nofault_completes_mounter.

Theorem C02_rerun_completes_mounter :
  forall (g : graph) (c1 c2 : cfg) (ext1 ext2 : bool) (d0 : list node) (rank : node -> nat)
         (tr1 : list fevent) (fs1 : fstate) (tr2 : list fevent) (fs2 : fstate),
    (forall n x, In x (succ' g n) -> rank x < rank n) ->
    1 <= c_K c2 -> c_root c2 < g_n g -> (forall x, In x (c_xroots c2) -> x < g_n g) ->
    (forall n x, n < g_n g -> In x (succ' g n) -> x < g_n g) ->
    (ext2 = true -> forall n, ~ In (c_root c2) (succ' g n)) ->
    (forall a b, g_dkey g a = g_dkey g b -> a = b) ->
    ext_ok g c1 ext1 d0 -> closed_nodes g d0 ->
    faccepts g c1 ext1 d0 tr1 = Some fs1 ->
    ext_ok g c2 ext2 (dst (fb fs1)) ->
    faccepts g c2 ext2 (dst (fb fs1)) tr2 = Some fs2 -> existsb is_fault tr2 = false -> returned (fb fs2) = None ->
    exists tr3 fs3, existsb is_fault tr3 = false /\
      faccepts g c2 ext2 (dst (fb fs1)) (tr2 ++ tr3) = Some fs3 /\ returned (fb fs3) = Some true /\
      forall r n, is_call_root g c2 ext2 r -> reach g r n -> has g (dst (fb fs3)) n = true.
Proof. exact frerun_completes_m. Qed.
Print Assumptions C02_rerun_completes_mounter.

Theorem C02_opt_nofault_completes :
  forall (cs : cbset) (g : graph) (c : cfg) (ext : bool) (d0 : list node) (rank : node -> nat)
         (tr : list fevent) (fs : fstate) (full : list fevent),
    (forall n x, In x (succ' g n) -> rank x < rank n) ->
    1 <= c_K c -> c_root c < g_n g -> (forall x, In x (c_xroots c) -> x < g_n g) ->
    (forall n x, n < g_n g -> In x (succ' g n) -> x < g_n g) ->
    (ext = true -> forall n, ~ In (c_root c) (succ' g n)) ->
    (forall a b, g_dkey g a = g_dkey g b -> a = b) ->
    ext_ok g c ext d0 ->
    faccepts_opt cs g c ext d0 tr = Some (fs, full) -> existsb is_fault tr = false ->
    returned (fb fs) = None ->
    exists tr2 fs2, existsb is_fault tr2 = false /\
      faccepts g c ext d0 (full ++ tr2) = Some fs2 /\ returned (fb fs2) = Some true.
Proof. exact fopt_nofault_completes. Qed.
Print Assumptions C02_opt_nofault_completes.

Example C02_example_progress_hypotheses :
  (forall n x, In x (succ' g_sh n) -> x < n) /\ 1 <= c_K c_sh /\ c_root c_sh < g_n g_sh /\
  (forall n x, n < g_n g_sh -> In x (succ' g_sh n) -> x < g_n g_sh) /\ c_mount c_sh = false /\
  (forall n x, In x (succ' g_x n) -> x < n) /\ (forall n, ~ In (c_root c_x) (succ' g_x n)) /\
  (forall n x, n < g_n g_x -> In x (succ' g_x n) -> x < g_n g_x).
Proof. exact example_progress_hyps. Qed.

(* Success of the extended system (also ExtendedCopyGraph's fan-out over several roots):
   everything reachable from every root of the call is in the destination. *)
Theorem C02_success_complete :
  forall (g : graph) (c : cfg) (ext : bool) (d0 : list node) (tr : list fevent) (fs : fstate),
    ext_ok g c ext d0 -> closed_nodes g d0 -> mt_consistent g ->
    faccepts g c ext d0 tr = Some fs -> returned (fb fs) = Some true ->
    forall r n, is_call_root g c ext r -> reach g r n -> has g (dst (fb fs)) n = true.
Proof. exact fclosure. Qed.
Print Assumptions C02_success_complete.

(* Retry: after ANY run of a first call (failed, cancelled, abandoned at any prefix) on a
   link-closed destination, a second call that returns success -- in particular a fault-free
   rerun -- completes the graph of its roots: the first call left the destination link-closed,
   which is the hypothesis of the closure theorem (C01_closure / C02_success_complete). *)
Theorem C02_retry_completes :
  forall (g : graph) (c1 c2 : cfg) (ext1 ext2 : bool) (d0 : list node)
         (tr1 : list fevent) (fs1 : fstate) (tr2 : list fevent) (fs2 : fstate),
    ext_ok g c1 ext1 d0 -> closed_nodes g d0 -> mt_consistent g ->
    faccepts g c1 ext1 d0 tr1 = Some fs1 ->
    ext_ok g c2 ext2 (dst (fb fs1)) ->
    faccepts g c2 ext2 (dst (fb fs1)) tr2 = Some fs2 -> returned (fb fs2) = Some true ->
    forall r n, is_call_root g c2 ext2 r -> reach g r n -> has g (dst (fb fs2)) n = true.
Proof. exact fretry_completes. Qed.
Print Assumptions C02_retry_completes.

(* ... literally as the DESIGN states it: C01_closure applies to a fault-free rerun (a run of
   the fault-free transition system Model/CopySpec.v of C01) started on the destination that
   any run of the faulty first call left. *)
Theorem C02_retry_completes_C01 :
  forall (g : graph) (c1 c2 : cfg) (ext1 : bool) (d0 : list node)
         (tr1 : list fevent) (fs1 : fstate) (tr2 : list event) (st2 : state),
    ext_ok g c1 ext1 d0 -> closed_nodes g d0 -> mt_consistent g ->
    faccepts g c1 ext1 d0 tr1 = Some fs1 ->
    accepts g c2 (dst (fb fs1)) tr2 = Some st2 -> returned st2 = Some true ->
    forall n, reach g (c_root c2) n -> has g (dst st2) n = true.
Proof. exact fretry_completes_spec. Qed.
Print Assumptions C02_retry_completes_C01.

(* The fault-extended system is a conservative extension of the transition system of C01/C04:
   a trace without fault events is accepted by Model/CopyFault.v (as CopyGraph/Copy) exactly
   when Model/CopySpec.v accepts it, with the same final state. *)
Theorem C02_conservative_over_CopySpec :
  forall (g : graph) (c : cfg) (d0 : list node) (tr : list event),
    match accepts g c d0 tr with
    | Some st => exists fs, faccepts g c false d0 (map Ev tr) = Some fs /\ fb fs = st
    | None => faccepts g c false d0 (map Ev tr) = None
    end.
Proof. exact faccepts_conservative. Qed.
Print Assumptions C02_conservative_over_CopySpec.

(* Refinement to the abstract specification (Model/CopyAbs.v: a node is stored only when its successors are
   held; success only when everything reachable from the roots is held; an error return any time).  The
   abstract system keeps a link-closed destination link-closed by construction, and every step of the
   visible-event system from a state reached by an accepted trace is a step of the abstract system under the
   abstraction (destination content, return value): a store with its guard, a return with its guard, or a
   stutter.  The protocol system refines the same abstract system (C02_protocol_refines_abstract). *)
Theorem C02_abstract_keeps_closed :
  forall (succ : nat -> list nat) (is_root : nat -> Prop) (held : list nat -> nat -> Prop),
    (forall d x m, held d m -> held (x :: d) m) ->
    forall s l s', astep succ is_root held s l s' -> aclosed succ held (a_dst s) -> aclosed succ held (a_dst s').
Proof. exact astep_closed. Qed.
Print Assumptions C02_abstract_keeps_closed.

Theorem C02_spec_refines_abstract :
  forall (g : graph) (c : cfg) (ext : bool) (d0 : list node) (tr : list fevent) (fs : fstate) (fe : fevent) (fs' : fstate),
    ext_ok g c ext d0 -> closed_nodes g d0 -> mt_consistent g ->
    faccepts g c ext d0 tr = Some fs -> fstep g c ext fs fe = Some fs' ->
    exists l, astep (succ' g) (froot g c ext) (fheld g) (fabs fs) l (fabs fs').
Proof. exact frefines. Qed.
Print Assumptions C02_spec_refines_abstract.

(* Nil callbacks.  A trace recorded with any subset [cs] of the callbacks set (a nil callback leaves no
   event) is accepted by [faccepts_opt] exactly through its ELABORATION [full]: a run of the system above
   in which the invocations of the nil callbacks are inserted; erasing them gives the recorded trace back
   and no fault is added or lost.  Hence the statements of C02 hold for such runs as well. *)
Theorem C02_opt_elaborates :
  forall (cs : cbset) (g : graph) (c : cfg) (ext : bool) (d0 : list node) (tr : list fevent) (fs : fstate) (full : list fevent),
    faccepts_opt cs g c ext d0 tr = Some (fs, full) ->
    faccepts g c ext d0 full = Some fs /\ ferase cs full = tr /\ existsb is_fault full = existsb is_fault tr.
Proof. exact fopt_elaborates. Qed.
Print Assumptions C02_opt_elaborates.

Theorem C02_opt_closed_always :
  forall (cs : cbset) (g : graph) (c : cfg) (ext : bool) (d0 : list node) (tr : list fevent) (fs : fstate) (full : list fevent),
    ext_ok g c ext d0 -> closed_nodes g d0 -> faccepts_opt cs g c ext d0 tr = Some (fs, full) ->
    closed_nodes g (dst (fb fs)).
Proof. exact fopt_closed_always. Qed.
Print Assumptions C02_opt_closed_always.

Theorem C02_opt_fault_surfaces :
  forall (cs : cbset) (g : graph) (c : cfg) (ext : bool) (d0 : list node) (tr : list fevent) (fs : fstate) (full : list fevent),
    ext_ok g c ext d0 -> faccepts_opt cs g c ext d0 tr = Some (fs, full) -> existsb is_fault tr = true ->
    returned (fb fs) <> Some true.
Proof. exact fopt_fault_surfaces. Qed.
Print Assumptions C02_opt_fault_surfaces.

Theorem C02_opt_nofault_no_error_return :
  forall (cs : cbset) (g : graph) (c : cfg) (ext : bool) (d0 : list node) (tr : list fevent) (fs : fstate) (full : list fevent),
    faccepts_opt cs g c ext d0 tr = Some (fs, full) -> existsb is_fault tr = false ->
    tainted g fs = false /\ returned (fb fs) <> Some false.
Proof. exact fopt_nofault_no_error. Qed.
Print Assumptions C02_opt_nofault_no_error_return.

Theorem C02_opt_success_complete :
  forall (cs : cbset) (g : graph) (c : cfg) (ext : bool) (d0 : list node) (tr : list fevent) (fs : fstate) (full : list fevent),
    ext_ok g c ext d0 -> closed_nodes g d0 -> mt_consistent g ->
    faccepts_opt cs g c ext d0 tr = Some (fs, full) -> returned (fb fs) = Some true ->
    forall r n, is_call_root g c ext r -> reach g r n -> has g (dst (fb fs)) n = true.
Proof. exact fopt_success_complete. Qed.
Print Assumptions C02_opt_success_complete.

Example C02_example_nil_callbacks :
  exists fs full, faccepts_opt cs_pre_only g_sh c_sh false [] tr_sh_opt = Some (fs, full) /\
    returned (fb fs) = Some false /\ ph (fb fs) 1 = Done /\ In (Ev (Cb CPost 1)) full /\
    length full = S (length tr_sh_opt).
Proof. exact example_opt_run. Qed.

(* The hypotheses are satisfiable and the runs are not vacuous: a shared-successor DAG
   (R -> A, B; A -> C, D; B -> C) whose push of C fails AFTER the content was stored while D
   is in flight; the call returns an error with {C, D} in the (closed) destination; the rerun
   completes.  And an ExtendedCopyGraph run over two roots, cancelled in flight, then rerun. *)
Example C02_example_fault_then_retry :
  closed_nodes g_sh [] /\ mt_consistent g_sh /\ ext_ok g_sh c_sh false [] /\
  exists fs1, faccepts g_sh c_sh false [] tr_sh1 = Some fs1 /\
    existsb is_fault tr_sh1 = true /\ returned (fb fs1) = Some false /\
    present_nodes g_sh (dst (fb fs1)) = [0; 1] /\
  exists fs2, faccepts g_sh c_sh false (dst (fb fs1)) tr_sh2 = Some fs2 /\
    returned (fb fs2) = Some true /\ present_nodes g_sh (dst (fb fs2)) = [0; 1; 2; 3; 4].
Proof. exact example_fault_run. Qed.

Example C02_example_extended_cancel_then_retry :
  ext_ok g_x c_x true [] /\
  exists fs1, faccepts g_x c_x true [] tr_x1 = Some fs1 /\ returned (fb fs1) = Some false /\
  exists fs2, faccepts g_x c_x true (dst (fb fs1)) tr_x2 = Some fs2 /\
    returned (fb fs2) = Some true /\ present_nodes g_x (dst (fb fs2)) = [0; 1; 2].
Proof. exact example_ext_run. Qed.

(* The transition system refuses exactly the behaviours the property forbids: a parent whose
   successor's transfer failed never reaches PreCopy/Push (the done channel of a failed node is
   not closed), and a cancelled call -- even one cancelled before anything was dispatched --
   has no successful return. *)
Example C02_example_rejects_parent_of_dead :
  (exists fs, faccepts g_sh c_sh false [] tr_sh_pre = Some fs /\ ph (fb fs) 0 = Dead /\ ph (fb fs) 3 = Waiting) /\
  faccepts g_sh c_sh false [] (tr_sh_pre ++ [Ev (Cb CPre 3)]) = None.
Proof. exact example_rejects_parent_of_dead. Qed.

Example C02_example_rejects_ok_after_cancel :
  faccepts g_sh c_sh false [] [Cancel; Ev (Ret true)] = None /\
  (exists fs, faccepts g_sh c_sh false [] [Cancel; Ev (Ret false)] = Some fs) /\
  faccepts g_x c_x true [0; 1; 2] [ProOk; Cancel; ProOk; ProOk; Ev (Ret true)] = None.
Proof. exact example_rejects_ok_after_cancel. Qed.

(* the extra hypothesis of C02_no_stuck_state_mounter is satisfiable: a Mounter destination (c_mount = true) on
   the shared-successor DAG, whose content keys are the node ids *)
Example C02_example_mounter_hypotheses :
  (forall a b, g_dkey g_sh a = g_dkey g_sh b -> a = b) /\
  exists fs, faccepts g_sh (mkCfg 3 MGraph 4 true true [] []) false []
               [Ev (ExB 4); Ev (ExE 4 false); Ev (SFB 4); Ev (SFE 4); Ev (SFC 4); Ev (ExB 2); Ev (ExE 2 false);
                Ev (SFB 2); Ev (SFE 2); Ev (SFC 2); Ev (ExB 0); Ev (ExE 0 false); Ev (Cb CMountFrom 0); Ev (MtB 0);
                MtX 0 true] = Some fs /\ ph (fb fs) 0 = Dead /\ present_nodes g_sh (dst (fb fs)) = [0].
Proof. split; [intros a b H; exact H|]. eexists. split; [vm_compute; reflexivity|]. split; reflexivity. Qed.
