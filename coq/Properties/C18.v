(* C18 -- The credentials file store round-trips secrets and never damages the
   config file.  Only statements closed by [exact]; lemmas live in
   Proofs/CredFile.v, Proofs/CredSave.v, Proofs/CredConc.v, Proofs/Base64.v.
   base64 is a parameter [enc]/[dec] with the two stated hypotheses; both are
   proved for the concrete RFC 4648 codec of Model/Base64.v (theorems C18_base64_...). *)
From Oras Require Import Base.Prelude Base.FlatFS Generated.GC18
  Model.Base64 Model.CredFile Model.CredSave Proofs.CredFile Proofs.CredSave.

(* Put then Get -- after any further history that does not Put/Delete the same
   address -- returns exactly the stored credential, whatever order Go's map
   iteration takes (every candidate answer is the stored credential). *)
Theorem C18_roundtrip :
  forall (enc : str -> str) (dec : str -> option str),
    (forall s, dec (enc s) = Some s) -> (forall s, enc s = [] -> s = []) ->
    forall st a c h,
      contains colon (c_user c) = false ->
      (forall o, In o h -> ~ writes a o) ->
      snd (step enc dec st (Put a c)) = ROk /\
      get_candidates dec (cache_of (run enc dec (fst (step enc dec st (Put a c))) h)) a = [RCred c] /\
      snd (step enc dec (run enc dec (fst (step enc dec st (Put a c))) h) (Get a)) = RCred c.
Proof. exact roundtrip. Qed.
Print Assumptions C18_roundtrip.

(* a colon in the username is refused and nothing changes *)
Theorem C18_colon_refused :
  forall (enc : str -> str) (dec : str -> option str) st a c,
    contains colon (c_user c) = true -> step enc dec st (Put a c) = (st, RErrBadCred).
Proof. exact put_refused. Qed.
Print Assumptions C18_colon_refused.

(* Delete removes exactly the entry keyed by the address, in memory and in the file *)
Theorem C18_delete_local :
  forall (enc : str -> str) (dec : str -> option str) st a,
    let st' := fst (step enc dec st (Delete a)) in
    snd (step enc dec st (Delete a)) = ROk /\
    lookup a (cache_of st') = None /\
    (forall a', a' <> a -> lookup a' (cache_of st') = lookup a' (cache_of st)) /\
    (lookup a (cache_of st) = None -> st' = st) /\
    (lookup a (cache_of st) <> None ->
       file_top configFieldAuths (st_file st') = Some (TAuths (cache_of st')) /\
       file_entry a (st_file st') = None /\
       forall a', a' <> a -> file_entry a' (st_file st') = lookup a' (cache_of st)).
Proof. exact delete_local. Qed.
Print Assumptions C18_delete_local.

(* after Delete, Get answers the empty credential unless a legacy key of the
   same host (https://host/, http://host/v1/ ...) is still in the file *)
Theorem C18_delete_then_get :
  forall (enc : str -> str) (dec : str -> option str) st a,
    (forall k e, In (k, e) (cache_of st) -> k <> a -> to_hostname k <> a) ->
    get_candidates dec (cache_of (fst (step enc dec st (Delete a)))) a = [RCred empty_cred].
Proof. exact delete_then_get. Qed.
Print Assumptions C18_delete_then_get.

(* every pre-existing document the store opens, every history: all other
   top-level keys, a configured credsStore and every auths entry that no
   operation addressed are in the file exactly as they were (values are opaque:
   unknown fields included) *)
Theorem C18_preserves_rest :
  forall (enc : str -> str) (dec : str -> option str) f st0 h,
    open_store f = Some st0 ->
    let stf := run enc dec st0 h in
    (forall k, k <> configFieldAuths -> k <> configFieldCredentialsStore ->
               file_top k (st_file stf) = file_top k f) /\
    (forall s, s <> [] -> file_top configFieldCredentialsStore f = Some (TCs s) ->
               file_top configFieldCredentialsStore (st_file stf) = Some (TCs s)) /\
    (forall a, (forall o, In o h -> ~ writes a o) ->
               file_entry a (st_file stf) = file_entry a f).
Proof. exact preserves_rest. Qed.
Print Assumptions C18_preserves_rest.

(* the file left by any history loads again and yields a store with the same
   entries (the secrets really are in the file) *)
Theorem C18_reopen :
  forall (enc : str -> str) (dec : str -> option str) f st0 h,
    open_store f = Some st0 ->
    exists st1, open_store (st_file (run enc dec st0 h)) = Some st1 /\
                cache_of st1 = cache_of (run enc dec st0 h) /\
                m_cs (st_mem st1) = m_cs (st_mem (run enc dec st0 h)).
Proof. exact reopen. Qed.
Print Assumptions C18_reopen.

(* saveFile at every crash point: for every file system, every new content cut
   into arbitrary write chunks and every crash cut (between two system calls or
   inside a write) the config path holds the complete old or the complete new
   file, no other file changes, and the ingest file is absent or a prefix of
   the new content with mode 0600 *)
Theorem C18_atomic :
  forall (dir p t : path) (chunks : list str),
    t <> p ->
    forall s pre,
    fget t s = None ->
    crash_cut (save_steps dir p t chunks) pre ->
    let s' := exec_all s pre in
    (fget p s' = fget p s \/
     fget p s' = Some {| f_data := concat chunks; f_mode := mode_file |}) /\
    (forall q, q <> p -> q <> t -> fget q s' = fget q s) /\
    (fget t s' = None \/ exists d, temp_is t d s' /\ is_prefix d (concat chunks)).
Proof. exact save_atomic. Qed.
Print Assumptions C18_atomic.

(* the completed save: new content, owner-only mode, no ingest file left *)
Theorem C18_save_complete :
  forall (dir p t : path) (chunks : list str),
    t <> p ->
    forall s,
    fget t s = None ->
    let s' := exec_all s (save_steps dir p t chunks) in
    fget p s' = Some {| f_data := concat chunks; f_mode := mode_file |} /\
    fget t s' = None /\
    (forall q, q <> p -> q <> t -> fget q s' = fget q s).
Proof. exact save_complete. Qed.
Print Assumptions C18_save_complete.

(* hypotheses are satisfiable / the statements are not vacuous *)
Example C18_example_roundtrip :
  let c := {| c_user := b "user"; c_pass := b "pa:ss"; c_refresh := b "rt"; c_access := [] |} in
  let st := fst (step b64_encode b64_decode {| st_mem := empty_mem; st_file := None |} (Put (b "reg.io") c)) in
  snd (step b64_encode b64_decode st (Get (b "reg.io"))) = RCred c /\
  file_entry (b "reg.io") (st_file st) = Some (Fresh (b "dXNlcjpwYTpzcw==") (b "rt") []).
Proof. vm_compute. split; reflexivity. Qed.

Example C18_example_atomic :
  let s := {| fs_files := [(b "cfg", {| f_data := b "old"; f_mode := 420 |})]; fs_dirs := [] |} in
  let steps := save_steps (b "d") (b "cfg") (b "tmp") [b "ne"; b "w"] in
  crash_cut steps (cut_at steps 4 1) /\
  fget (b "cfg") (exec_all s (cut_at steps 4 1)) = Some {| f_data := b "old"; f_mode := 420 |} /\
  fget (b "tmp") (exec_all s (cut_at steps 4 1)) = Some {| f_data := b "new"; f_mode := mode_file |} /\
  fget (b "cfg") (exec_all s steps) = Some {| f_data := b "new"; f_mode := mode_file |}.
Proof.
  split; [|vm_compute; repeat split; reflexivity].
  vm_compute. do 4 apply cut_later. apply (cut_partial _ [119] []).
Qed.
