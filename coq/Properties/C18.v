From Oras Require Import Base.Prelude Proofs.CredFile.
