(* C18 -- The credentials file store round-trips secrets and never damages the
   config file.  Only statements closed by [exact]; lemmas live in
   Proofs/CredFile.v, Proofs/CredSave.v, Proofs/CredConc.v, Proofs/Base64.v.
   base64 is a parameter [enc]/[dec] with the two stated hypotheses; both are
   proved for the concrete RFC 4648 codec of Model/Base64.v (C18_base64_roundtrip,
   C18_base64_nonempty), which gives the hypothesis-free C18_roundtrip_concrete. *)
From Coq Require Import Permutation.
From Oras Require Import Base.Prelude Base.FlatFS Generated.GC18
  Model.Utf8 Model.Json Model.Base64 Model.CredFile Model.JsonDoc Model.JsonRead Model.CredSave Model.CredConc
  Proofs.Base64 Proofs.Json Proofs.CredFile Proofs.CredSave Proofs.CredConc Proofs.CredJson Proofs.JsonDoc Proofs.JsonRead Proofs.JsonFile.

(* Put then Get -- after any further history that does not Put/Delete the same
   address -- returns exactly the stored credential, whatever order Go's map
   iteration takes (every candidate answer is the stored credential). *)
Theorem C18_roundtrip :
  forall (enc : str -> str) (dec : str -> option str) (ok : str -> Prop),
    (forall s, ok s -> dec (enc s) = Some s) -> (forall s, enc s = [] -> s = []) ->
    forall st a c h,
      put_accepts a c = true ->
      ok (c_user c ++ colon :: c_pass c) ->
      (forall o, In o h -> ~ writes a o) ->
      snd (step enc dec st (Put a c)) = ROk /\
      get_candidates dec (cache_of (run enc dec (fst (step enc dec st (Put a c))) h)) a = [RCred c] /\
      snd (step enc dec (run enc dec (fst (step enc dec st (Put a c))) h) (Get a)) = RCred c.
Proof. exact roundtrip. Qed.
Print Assumptions C18_roundtrip.

(* the concrete base64 codec satisfies both hypotheses on byte strings *)
Theorem C18_base64_roundtrip :
  forall s, Forall (fun c => c < 256) s -> b64_decode (b64_encode s) = Some s.
Proof. exact b64_roundtrip. Qed.
Print Assumptions C18_base64_roundtrip.

Theorem C18_base64_nonempty : forall s, b64_encode s = [] -> s = [].
Proof. exact b64_encode_nonempty. Qed.
Print Assumptions C18_base64_nonempty.

(* the round trip with the real codec: no hypothesis left but "bytes are bytes" *)
Theorem C18_roundtrip_concrete :
  forall st a c h,
    put_accepts a c = true ->
    Forall (fun x => x < 256) (c_user c ++ colon :: c_pass c) ->
    (forall o, In o h -> ~ writes a o) ->
    snd (step b64_encode b64_decode st (Put a c)) = ROk /\
    get_candidates b64_decode (cache_of (run b64_encode b64_decode (fst (step b64_encode b64_decode st (Put a c))) h)) a = [RCred c] /\
    snd (step b64_encode b64_decode (run b64_encode b64_decode (fst (step b64_encode b64_decode st (Put a c))) h) (Get a)) = RCred c.
Proof. exact (roundtrip b64_encode b64_decode bytes b64_roundtrip b64_encode_nonempty). Qed.
Print Assumptions C18_roundtrip_concrete.

(* Go's map iteration order in GetCredential: the candidate list is exactly the
   set of answers over all orders of the key-unique cache *)
Theorem C18_get_all_orders :
  forall (dec : str -> option str) cache a r,
    NoDup (map fst cache) ->
    (In r (get_candidates dec cache a) <->
     exists cache', Permutation cache cache' /\ get_cache dec cache' a = r).
Proof. exact candidates_all_orders. Qed.
Print Assumptions C18_get_all_orders.

(* a colon in the username is refused and nothing changes *)
Theorem C18_colon_refused :
  forall (enc : str -> str) (dec : str -> option str) st a c,
    contains colon (c_user c) = true -> step enc dec st (Put a c) = (st, RErrBadCred).
Proof. exact colon_refused. Qed.
Print Assumptions C18_colon_refused.

(* exactly the credentials FileStore.Put accepts are stored (C18_roundtrip); every
   other one -- colon in the username, or a server address / refresh token /
   access token that is not valid UTF-8 and could only be written lossily as
   JSON -- is refused with ErrBadCredentialFormat and nothing changes *)
Theorem C18_put_refused :
  forall (enc : str -> str) (dec : str -> option str) st a c,
    put_accepts a c = false -> step enc dec st (Put a c) = (st, RErrBadCred).
Proof. exact put_refused. Qed.
Print Assumptions C18_put_refused.

(* Delete removes exactly the entry keyed by the address, in memory and in the file *)
Theorem C18_delete_local :
  forall (enc : str -> str) (dec : str -> option str) st a,
    let st' := fst (step enc dec st (Delete a)) in
    snd (step enc dec st (Delete a)) = ROk /\
    lookup a (cache_of st') = None /\
    (forall a', a' <> a -> lookup a' (cache_of st') = lookup a' (cache_of st)) /\
    (lookup a (cache_of st) = None -> st' = st) /\
    (lookup a (cache_of st) <> None ->
       file_top configFieldAuths (st_file st') = Some (TAuths (cache_of st')) /\
       file_entry a (st_file st') = None /\
       forall a', a' <> a -> file_entry a' (st_file st') = lookup a' (cache_of st)).
Proof. exact delete_local. Qed.
Print Assumptions C18_delete_local.

(* after Delete, Get answers the empty credential unless a legacy key of the
   same host (https://host/, http://host/v1/ ...) is still in the file *)
Theorem C18_delete_then_get :
  forall (enc : str -> str) (dec : str -> option str) st a,
    (forall k e, In (k, e) (cache_of st) -> k <> a -> to_hostname k <> a) ->
    get_candidates dec (cache_of (fst (step enc dec st (Delete a)))) a = [RCred empty_cred].
Proof. exact delete_then_get. Qed.
Print Assumptions C18_delete_then_get.

(* every pre-existing document NewFileStore opens ([open_file]: the document as it
   is on disk, its keys decoded the way encoding/json does), every history: all
   other top-level keys, a configured credsStore and every auths entry that no
   operation addressed are in the file exactly as they were (values are opaque:
   unknown fields included).  PARTIAL: the top-level keys, the auths keys and
   credsStore of the document must be valid UTF-8 once unescaped ([file_utf8]);
   C18_preserves_rest_refuted shows the hypothesis is needed (known finding
   lone-surrogate: encoding/json reads "k\ud800" as "k" ++ U+FFFD and the first
   save renames the key) *)
Theorem C18_preserves_rest_partial :
  forall (enc : str -> str) (dec : str -> option str) f st0 h,
    file_utf8 f -> open_file f = Some st0 ->
    let stf := run enc dec st0 h in
    (forall k, k <> configFieldAuths -> k <> configFieldCredentialsStore ->
               file_top k (st_file stf) = file_top k f) /\
    ((forall o, In o h -> ~ is_setcs o) ->
     forall s, s <> [] -> file_top configFieldCredentialsStore f = Some (TCs s) ->
               file_top configFieldCredentialsStore (st_file stf) = Some (TCs s)) /\
    (forall a, (forall o, In o h -> ~ writes a o) ->
               file_entry a (st_file stf) = file_entry a f).
Proof. exact preserves_rest_partial. Qed.
Print Assumptions C18_preserves_rest_partial.

(* Config.SetCredentialsStore (the fourth saving operation, used by DynamicStore.Put
   once a native store is detected): the file gets exactly the new credsStore
   (the key is dropped for ""), the auths and every other key stay; it is a
   writer operation of the concurrent model like Put and Delete *)
Theorem C18_set_creds_store :
  forall (enc : str -> str) (dec : str -> option str) st s,
    let st' := fst (step enc dec st (SetCs s)) in
    snd (step enc dec st (SetCs s)) = ROk /\
    cache_of st' = cache_of st /\
    file_top configFieldCredentialsStore (st_file st') = cs_value s /\
    file_top configFieldAuths (st_file st') = Some (TAuths (cache_of st)) /\
    (forall k, k <> configFieldAuths -> k <> configFieldCredentialsStore ->
               file_top k (st_file st') = lookup k (m_content (st_mem st))).
Proof. exact setcs_step. Qed.
Print Assumptions C18_set_creds_store.

Theorem C18_preserves_rest_refuted :
  forall (enc : str -> str) (dec : str -> option str),
    exists f st0 h k,
      open_file f = Some st0 /\
      k <> configFieldAuths /\ k <> configFieldCredentialsStore /\
      file_top k f <> None /\
      file_top k (st_file (run enc dec st0 h)) = None.
Proof. exact preserves_rest_refuted. Qed.
Print Assumptions C18_preserves_rest_refuted.

(* the hypothesis of the partial theorem is satisfiable and then NewFileStore is
   [open_store] on the same document *)
Theorem C18_open_file_utf8 :
  forall f, file_utf8 f -> open_file f = open_store f.
Proof. exact open_file_store. Qed.
Print Assumptions C18_open_file_utf8.

Example C18_example_file_utf8 :
  file_utf8 (Some [(b "auths", TAuths [(b "https://reg.io/", Old (b "{}") VErr)]); (b "credsStore", TCs (b "desktop")); (b "x", TRaw (b "1") KOther)]).
Proof. repeat constructor. Qed.

(* the file left by any history loads again and yields a store with the same
   entries (the secrets really are in the file) *)
Theorem C18_reopen :
  forall (enc : str -> str) (dec : str -> option str) f st0 h,
    open_store f = Some st0 ->
    exists st1, open_store (st_file (run enc dec st0 h)) = Some st1 /\
                cache_of st1 = cache_of (run enc dec st0 h) /\
                m_cs (st_mem st1) = m_cs (st_mem (run enc dec st0 h)).
Proof. exact reopen. Qed.
Print Assumptions C18_reopen.

(* saveFile at every crash point: for every file system, every new content cut
   into arbitrary write chunks and every crash cut (between two system calls or
   inside a write) the config path holds the complete old or the complete new
   file, no other file changes, and the ingest file is absent or a prefix of
   the new content with mode 0600 *)
Theorem C18_atomic :
  forall (dir : list path) (p t : path) (chunks : list str),
    t <> p ->
    forall s pre,
    fget t s = None ->
    crash_cut (save_steps dir p t chunks) pre ->
    let s' := exec_all s pre in
    (fget p s' = fget p s \/
     fget p s' = Some {| f_data := concat chunks; f_mode := mode_file |}) /\
    (forall q, q <> p -> q <> t -> fget q s' = fget q s) /\
    (fget t s' = None \/ exists d, temp_is t d s' /\ is_prefix d (concat chunks)).
Proof. exact save_atomic. Qed.
Print Assumptions C18_atomic.

(* the completed save: new content, owner-only mode, no ingest file left *)
Theorem C18_save_complete :
  forall (dir : list path) (p t : path) (chunks : list str),
    t <> p ->
    forall s,
    fget t s = None ->
    let s' := exec_all s (save_steps dir p t chunks) in
    fget p s' = Some {| f_data := concat chunks; f_mode := mode_file |} /\
    fget t s' = None /\
    (forall q, q <> p -> q <> t -> fget q s' = fget q s).
Proof. exact save_complete. Qed.
Print Assumptions C18_save_complete.

(* one store operation down to the file system: for every state, operation, split
   of the content over write calls and crash cut, a reader of the config path
   finds the complete old document or the complete new one (then with mode
   0600); after the last micro-step it finds the new one; no other file changes.
   "Finds document d" is up to the representation ([eqv]: fdoc is not canonical
   and a JSON writer sorts keys); the only JSON fact assumed is [reads_back]: the
   document THIS operation writes reads back as an equivalent document *)
Theorem C18_atomic_op :
  forall (enc : str -> str) (dec : str -> option str)
         (render : fdoc -> str) (parse : str -> option fdoc) (eqv : fdoc -> fdoc -> Prop)
         (chunking : str -> list str),
    (forall x, concat (chunking x) = x) ->
    forall (dir : list path) (p t : path) st o s pre,
      t <> p -> fget t s = None ->
      reads_back enc dec render parse eqv st o ->
      disk_is parse eqv p s (st_file st) ->
      crash_cut (op_steps enc dec render chunking dir p t st o) pre ->
      let st' := fst (step enc dec st o) in
      let s' := exec_all s pre in
      (disk_is parse eqv p s' (st_file st) \/
       disk_is parse eqv p s' (st_file st') /\
       (saves st o = true -> exists f, fget p s' = Some f /\ f_mode f = mode_file)) /\
      (pre = op_steps enc dec render chunking dir p t st o -> disk_is parse eqv p s' (st_file st')) /\
      (forall q, q <> p -> q <> t -> fget q s' = fget q s).
Proof. exact atomic_op. Qed.
Print Assumptions C18_atomic_op.

(* the hypotheses of C18_atomic_op are satisfiable: a (toy) writer/reader pair that
   sorts the two top-level keys, a Put on an empty store, the cut after the write *)
Example C18_example_atomic_op :
  let c := {| c_user := []; c_pass := []; c_refresh := b "t"; c_access := [] |} in
  let st := {| st_mem := empty_mem; st_file := None |} in
  let o := Put (b "r") c in
  let d := [(configFieldAuths, TAuths [(b "r", Fresh [] (b "t") [])])] in
  let render := fun _ : fdoc => b "{""auths"":{""r"":{""identitytoken"":""t""}}}" in
  let parse := fun s : str => if str_eqb s (render []) then Some d else None in
  let s0 := {| fs_files := []; fs_dirs := [] |} in
  st_file (fst (step b64_encode b64_decode st o)) = Some d /\
  reads_back b64_encode b64_decode render parse eq st o /\
  disk_is parse eq (b "cfg") s0 (st_file st) /\
  disk_is parse eq (b "cfg")
          (exec_all s0 (op_steps b64_encode b64_decode render (fun x => [x]) [b "dir"] (b "cfg") (b "tmp") st o))
          (Some d).
Proof.
  split; [vm_compute; reflexivity|]. split; [|split].
  - intros d0 E. vm_compute in E. injection E as <-. eexists. split; [vm_compute; reflexivity|reflexivity].
  - reflexivity.
  - eexists. eexists. split; [vm_compute; reflexivity|]. split; [vm_compute; reflexivity|reflexivity].
Qed.

(* concurrent callers on one store.  Operations are NOT atomic in the model
   (lock, cache update, file write, unlock are separate steps of a transition
   system; sync.RWMutex is its specification).  Every complete execution from an
   initial state has a sequential order [lin] of all operations such that the
   final store (memory and file) is the sequential result, every operation
   returned what it returns in that order, and the order restricted to a caller
   is that caller's program with the results it received. *)
Theorem C18_serialisable :
  forall (enc : str -> str) (dec : str -> option str) g0 g lin,
    initial g0 -> creach enc dec g0 g lin -> quiescent g ->
    g_store g = run enc dec (g_store g0) (map lab_op lin) /\
    map lab_res lin = seq_results enc dec (g_store g0) (map lab_op lin) /\
    (forall i, of_thread i lin = rev (t_done (g_threads g i)) /\
               map fst (rev (t_done (g_threads g i))) = t_todo (g_threads g0 i)).
Proof. exact serialisable. Qed.
Print Assumptions C18_serialisable.

(* hypotheses are satisfiable / the statements are not vacuous *)
Example C18_example_roundtrip :
  let c := {| c_user := b "user"; c_pass := b "pa:ss"; c_refresh := b "rt"; c_access := [] |} in
  let st := fst (step b64_encode b64_decode {| st_mem := empty_mem; st_file := None |} (Put (b "reg.io") c)) in
  snd (step b64_encode b64_decode st (Get (b "reg.io"))) = RCred c /\
  file_entry (b "reg.io") (st_file st) = Some (Fresh (b "dXNlcjpwYTpzcw==") (b "rt") []).
Proof. vm_compute. split; reflexivity. Qed.

Example C18_example_atomic :
  let s := {| fs_files := [(b "cfg", {| f_data := b "old"; f_mode := 420 |})]; fs_dirs := [] |} in
  let steps := save_steps [b "d"] (b "cfg") (b "tmp") [b "ne"; b "w"] in
  crash_cut steps (cut_at steps 4 1) /\
  fget (b "cfg") (exec_all s (cut_at steps 4 1)) = Some {| f_data := b "old"; f_mode := 420 |} /\
  fget (b "tmp") (exec_all s (cut_at steps 4 1)) = Some {| f_data := b "new"; f_mode := mode_file |} /\
  fget (b "cfg") (exec_all s steps) = Some {| f_data := b "new"; f_mode := mode_file |}.
Proof.
  split; [|vm_compute; repeat split; reflexivity].
  vm_compute. do 4 apply cut_later. apply (cut_partial _ [119] []).
Qed.

(* two callers, a writer and a reader that overlaps the writer's critical
   section attempt: a complete execution exists (the hypotheses of
   C18_serialisable are satisfiable) *)
Example C18_example_concurrent :
  let c := {| c_user := b "u"; c_pass := b "p"; c_refresh := []; c_access := [] |} in
  let g0 := {| g_store := {| st_mem := empty_mem; st_file := None |}; g_writer := None;
               g_threads := fun i => match i with
                                     | O => {| t_pc := Idle; t_todo := [Put (b "r") c]; t_done := [] |}
                                     | 1%nat => {| t_pc := Idle; t_todo := [Get (b "r")]; t_done := [] |}
                                     | _ => {| t_pc := Idle; t_todo := []; t_done := [] |}
                                     end |} in
  initial g0 /\
  exists g lin, creach b64_encode b64_decode g0 g lin /\ quiescent g /\
                map lab_res lin = [ROk; RCred c].
Proof.
  intros c g0. split.
  - split; [reflexivity|]. intros [|[|i]]; split; reflexivity.
  - eexists. eexists. split; [|split].
    + eapply cr_step. eapply cr_step. eapply cr_step. eapply cr_step.
      eapply cr_step. eapply cr_step. eapply cr_step. apply cr_refl.
      * apply (c_acq_w _ _ g0 0%nat (Put (b "r") c) []); try reflexivity.
        intros [|[|j]]; simpl; tauto.
      * eapply (c_wcache _ _ _ 0%nat). reflexivity.
      * eapply (c_wfile _ _ _ 0%nat). reflexivity.
      * eapply (c_rel_w _ _ _ 0%nat). reflexivity.
      * eapply (c_acq_r _ _ _ 1%nat); reflexivity.
      * eapply (c_read _ _ _ 1%nat). reflexivity.
      * eapply (c_rel_r _ _ _ 1%nat). reflexivity.
    + intros [|[|i]]; split; reflexivity.
    + vm_compute. reflexivity.
Qed.

(* crash points x schedules: at EVERY reachable state of a concurrent execution
   (in particular whenever the process is killed) the config document on disk is
   the one a sequential run of a prefix of the linearisation leaves -- never a
   mixture of two callers' updates; C18_atomic_op refines the single save step
   [c_wfile] into system calls *)
Theorem C18_file_always_sequential :
  forall (enc : str -> str) (dec : str -> option str) g0 g lin,
    initial g0 -> creach enc dec g0 g lin ->
    exists n, (n <= length lin)%nat /\
              st_file (g_store g) = st_file (run enc dec (g_store g0) (map lab_op (firstn n lin))).
Proof. exact file_always_sequential. Qed.
Print Assumptions C18_file_always_sequential.

(* Get is pure: a Get -- answered by an exact key, by the legacy-key scan or not
   at all -- leaves memory (auths cache, content, credsStore) and file exactly
   as they were; so does any sequence of Gets *)
Theorem C18_get_pure :
  forall (enc : str -> str) (dec : str -> option str) st,
    (forall a, fst (step enc dec st (Get a)) = st) /\
    (forall h, Forall is_get h -> run enc dec st h = st).
Proof. intros enc dec st. split; [exact (get_pure enc dec st)|intro h; exact (gets_pure enc dec h st)]. Qed.
Print Assumptions C18_get_pure.

(* the saved file is owner-only whatever file (and whatever permission bits) was
   at the config path before: 0600 after the save, and at every crash cut the
   path holds the untouched old file or a file of mode 0600 *)
Theorem C18_mode_owner_only :
  forall (dir : list path) (p t : path) (chunks : list str),
    t <> p -> forall s,
    fget t s = None ->
    (forall f, fget p (exec_all s (save_steps dir p t chunks)) = Some f -> f_mode f = mode_file) /\
    (exists f, fget p (exec_all s (save_steps dir p t chunks)) = Some f) /\
    (forall pre f, crash_cut (save_steps dir p t chunks) pre ->
                   fget p (exec_all s pre) = Some f -> fget p (exec_all s pre) <> fget p s -> f_mode f = mode_file).
Proof. exact mode_owner_only. Qed.
Print Assumptions C18_mode_owner_only.

Example C18_example_mode :
  let s := {| fs_files := [(b "cfg", {| f_data := b "old"; f_mode := 438 |})]; fs_dirs := [] |} in
  fget (b "cfg") (exec_all s (save_steps [b "d"] (b "cfg") (b "tmp") [b "new"]))
  = Some {| f_data := b "new"; f_mode := 384 |}.
Proof. vm_compute. reflexivity. Qed.

(* os.MkdirAll(configDir, 0700) over any chain of ancestors: after the save every
   level exists; a level that was missing has mode 0700, an existing level keeps
   its mode; no other directory changes *)
Theorem C18_mkdir_all :
  forall (chain : list path) (p t : path) (chunks : list str) s d,
    dget d (exec_all s (save_steps chain p t chunks)) =
    if existsb (str_eqb d) chain
    then Some (match dget d s with Some m => m | None => mode_dir end)
    else dget d s.
Proof. exact save_dirs. Qed.
Print Assumptions C18_mkdir_all.

(* a config path that is a symbolic link to q (the name p holds no file; reading
   p reads q until the name is replaced): at every crash cut a reader of the
   path finds the old target or the complete new file with mode 0600; after the
   save the new file; the link target itself is never written (it keeps the
   old document) *)
Theorem C18_symlink_path :
  forall (chain : list path) (p t : path) (chunks : list str),
    t <> p ->
    forall q s pre,
    q <> p -> q <> t -> fget t s = None ->
    crash_cut (save_steps chain p t chunks) pre ->
    (read_via_link p q s pre = fget q s \/
     read_via_link p q s pre = Some {| f_data := concat chunks; f_mode := mode_file |}) /\
    fget q (exec_all s pre) = fget q s /\
    (pre = save_steps chain p t chunks ->
     read_via_link p q s pre = Some {| f_data := concat chunks; f_mode := mode_file |}).
Proof. exact symlink_path. Qed.
Print Assumptions C18_symlink_path.

(* FileStore.DisablePut: every Put (also one with a malformed credential) is
   refused with ErrPlaintextPutDisabled and changes nothing; Get and Delete are
   unaffected; over any history no auths entry appears in the file that the
   opened document did not already hold, unchanged; with the switch off the
   store is the one of the theorems above *)
Theorem C18_disable_put :
  forall (enc : str -> str) (dec : str -> option str),
    (forall st a c, fs_step enc dec true st (Put a c) = (st, RErrPutDisabled)) /\
    (forall st a, fs_step enc dec true st (Get a) = step enc dec st (Get a)) /\
    (forall st a, fs_step enc dec true st (Delete a) = step enc dec st (Delete a)) /\
    (forall f st0 h a e, open_store f = Some st0 ->
       file_entry a (st_file (fs_run enc dec true st0 h)) = Some e -> file_entry a f = Some e) /\
    (forall st h, fs_run enc dec false st h = run enc dec st h).
Proof.
  intros enc dec. split; [exact (put_disabled enc dec)|]. split; [reflexivity|]. split; [reflexivity|].
  split; [exact (disable_put_no_new_entry enc dec)|].
  intros st h. exact (fs_run_enabled enc dec h st).
Qed.
Print Assumptions C18_disable_put.

Example C18_example_mkdir_all :
  let s := {| fs_files := []; fs_dirs := [(b "/home", 493)] |} in
  let s' := exec_all s (save_steps [b "/home"; b "/home/.docker"; b "/home/.docker/sub"] (b "cfg") (b "tmp") [b "x"]) in
  (dget (b "/home") s', dget (b "/home/.docker") s', dget (b "/home/.docker/sub") s') = (Some 493, Some 448, Some 448).
Proof. vm_compute. reflexivity. Qed.

(* on plain host addresses (ToHostname a = a: no scheme, no path) the FileStore
   answers every history exactly like the in-memory Store of memory_store.go (a
   map; [mem_step] with the colon rule): starting from a store that corresponds to
   a map -- in particular from a missing config file and the empty map *)
Theorem C18_refines_memory_store :
  forall (enc : str -> str) (dec : str -> option str) (ok : str -> Prop),
    (forall s, ok s -> dec (enc s) = Some s) -> (forall s, enc s = [] -> s = []) ->
    forall h st m,
      sim enc ok st m -> Forall (good_op ok) h ->
      map fst (run_obs enc dec st h) = mem_results m h.
Proof. exact refines_memory_store. Qed.
Print Assumptions C18_refines_memory_store.

Theorem C18_refines_memory_store_fresh :
  forall h, Forall (good_op bytes) h ->
    map fst (run_obs b64_encode b64_decode {| st_mem := empty_mem; st_file := None |} h) = mem_results [] h.
Proof.
  intros h F.
  exact (refines_memory_store b64_encode b64_decode bytes b64_roundtrip b64_encode_nonempty h _ []
           (sim_empty b64_encode bytes None) F).
Qed.
Print Assumptions C18_refines_memory_store_fresh.

(* what the model takes from the Go source through the translator (Generated/GC18.v,
   regenerated on every run): FileStore.Put's guards in their order, and that these
   guards together mean "no colon in the username; address and tokens valid
   UTF-8"; ToHostname's TrimPrefix sequence and Cut byte.  An edit of Put,
   validateCredentialFormat or ToHostname changes the generated tables and breaks
   these equations (or the translation itself) *)
Theorem C18_put_guards_from_source :
  fileStorePut_guards = [b "DisablePut"; b "call:validateCredentialFormat"; b "utf8:serverAddress"] /\
  forall a c, put_accepts a c =
              negb (contains colon (c_user c)) && valid_utf8 a && valid_utf8 (c_refresh c) && valid_utf8 (c_access c).
Proof. exact (conj put_guards_order put_accepts_spec). Qed.
Print Assumptions C18_put_guards_from_source.

(* the order of effects the save model (Model/CredSave.v) and the lock discipline of
   the concurrent model (Model/CredConc.v) assume is the order in the source: an
   extra Unlock/Lock inside PutCredential, a save outside the lock, a write that
   bypasses Ingest + Rename, a chmod after the copy ... change these lists *)
Theorem C18_call_order_from_source :
  calls_saveFile = [b "os.MkdirAll"; b "ioutil.Ingest"; b "os.Remove"; b "os.Rename"] /\
  calls_Ingest = [b "os.CreateTemp"; b "tempFile.Close"; b "os.Remove"; b "tempFile.Chmod"; b "io.Copy"] /\
  calls_PutCredential = [b "cfg.rwLock.Lock"; b "cfg.rwLock.Unlock"; b "json.Marshal"; b "cfg.saveFile"] /\
  calls_DeleteCredential = [b "cfg.rwLock.Lock"; b "cfg.rwLock.Unlock"; b "cfg.saveFile"] /\
  calls_SetCredentialsStore = [b "cfg.rwLock.Lock"; b "cfg.rwLock.Unlock"; b "cfg.saveFile"] /\
  calls_GetCredential = [b "cfg.rwLock.RLock"; b "cfg.rwLock.RUnlock"; b "json.Unmarshal"] /\
  calls_IsAuthConfigured = [b "cfg.rwLock.RLock"; b "cfg.rwLock.RUnlock"] /\
  calls_getHelperSuffix = [b "ds.config.GetCredentialHelper"; b "ds.config.CredentialsStore"].
Proof. exact call_orders. Qed.
Print Assumptions C18_call_order_from_source.

Theorem C18_to_hostname_from_source :
  forall addr, to_hostname addr = cut_before slash (trim_prefix (b "https://") (trim_prefix (b "http://") addr)).
Proof. exact to_hostname_spec. Qed.
Print Assumptions C18_to_hostname_from_source.

(* encoding/json's string codec (Model/Json.v: appendString with HTML escaping,
   unquote with its lossy repairs) is part of the model: every valid UTF-8
   string -- control characters, quotes, <>&, U+2028/9, any plane -- written as a
   JSON string reads back as the same bytes *)
Theorem C18_json_string_roundtrip :
  forall s, valid_utf8 s = true -> json_unquote (json_quote s) = Some s.
Proof. exact json_string_roundtrip. Qed.
Print Assumptions C18_json_string_roundtrip.

(* hence every string an accepted Put hands to encoding/json -- the address (object
   key), the auth field (base64 text of ANY user/password bytes), the refresh and
   the access token -- survives the file; a string that is not valid UTF-8 would
   not, which is why Put refuses it (before fix d7d4ed9 it was written) *)
Theorem C18_put_fields_survive_json :
  forall a c,
    put_accepts a c = true -> Forall (fun x => x < 256) (c_user c ++ colon :: c_pass c) ->
    Forall (fun x => json_unquote (json_quote x) = Some x)
           [a; encode_auth b64_encode (c_user c) (c_pass c); c_refresh c; c_access c].
Proof. exact put_fields_json_roundtrip. Qed.
Print Assumptions C18_put_fields_survive_json.

(* Put -> bytes -> Get.  PutCredential keeps json.Marshal(AuthConfig) in the cache
   and the file holds the same text re-indented; GetCredential (also of a
   re-opened store) json.Unmarshals it.  [entry_bytes] is that text,
   [parse_fresh] the reading of its three fields: for every accepted credential
   the bytes parse back to the entry and decode to the credential *)
Theorem C18_entry_bytes_roundtrip :
  forall a c,
    put_accepts a c = true -> Forall (fun x => x < 256) (c_user c ++ colon :: c_pass c) ->
    parse_fresh (entry_bytes b64_encode c) =
      Some (encode_auth b64_encode (c_user c) (c_pass c), c_refresh c, c_access c) /\
    cred_of_bytes b64_decode (entry_bytes b64_encode c) = RCred c.
Proof. exact entry_bytes_roundtrip. Qed.
Print Assumptions C18_entry_bytes_roundtrip.

(* the GENERAL reader of the model (Model/JsonRead.v: the JSON value parser with
   encoding/json's conventions and the unmarshalling into AuthConfig -- the one
   that classifies a loaded config file in the HB correspondence cases) reads the
   text PutCredential produced back to the stored credential *)
Theorem C18_reader_reads_put_entry :
  forall a c,
    put_accepts a c = true -> Forall (fun x => x < 256) (c_user c ++ colon :: c_pass c) ->
    exists v, parse_whole (entry_bytes b64_encode c) = Some v /\
              cred_of_entry b64_decode (Old (entry_bytes b64_encode c) (view_of_jval v)) = RCred c.
Proof. exact reader_reads_put_entry. Qed.
Print Assumptions C18_reader_reads_put_entry.

(* END TO END AT BYTE LEVEL, no JSON hypothesis: the first Put on a missing config file
   (a login on a fresh machine) writes bytes -- MarshalIndent as modelled by
   render_file -- from which NewFileStore, reading them with the model's JSON reader
   (Model/JsonRead.v open_bytes), gives a store in which every answer Get can give for
   that address is the stored credential *)
Theorem C18_first_put_reopen_bytes :
  forall a c,
    put_accepts a c = true -> Forall (fun x => x < 256) (c_user c ++ colon :: c_pass c) ->
    exists d, st_file (fst (step b64_encode b64_decode fresh_store (Put a c))) = Some d /\
    exists st2 tops ents,
      open_bytes (Some (render_file [] [] d)) = Some (st2, tops, ents) /\
      get_candidates b64_decode (cache_of st2) a = [RCred c].
Proof. exact first_put_reopen. Qed.
Print Assumptions C18_first_put_reopen_bytes.

(* ... lifted to histories: after ANY number of accepted Puts for one address on a missing
   config (login, token refresh, re-login), the bytes on disk reopen to the LAST credential *)
Theorem C18_repeated_put_reopen_bytes :
  forall a (cs : list cred) c st,
    one_addr_shape a st ->
    Forall (fun c => put_accepts a c = true /\ Forall (fun x => x < 256) (c_user c ++ colon :: c_pass c)) (cs ++ [c]) ->
    let stf := run b64_encode b64_decode st (map (Put a) (cs ++ [c])) in
    exists d, st_file stf = Some d /\
    exists st2 tops ents,
      open_bytes (Some (render_file [] [] d)) = Some (st2, tops, ents) /\
      get_candidates b64_decode (cache_of st2) a = [RCred c].
Proof. exact repeated_put_reopen. Qed.
Print Assumptions C18_repeated_put_reopen_bytes.

(* the named JSON premise [reads_back] of C18_atomic_op, PROVED for that operation with
   the real writer (render_file) and the real reader (read_config) ... *)
Theorem C18_first_put_reads_back :
  forall a c,
    put_accepts a c = true -> Forall (fun x => x < 256) (c_user c ++ colon :: c_pass c) ->
    reads_back b64_encode b64_decode file_writer file_reader views_eq fresh_store (Put a c).
Proof. exact first_put_reads_back. Qed.
Print Assumptions C18_first_put_reads_back.

(* ... so the crash clause holds for it down to the bytes: at every crash cut of the
   save (between two system calls or inside a write, any split of the content over
   writes, any chain of config directories) the config path is still absent or
   holds bytes that the reader reads as the document with the stored entry, mode 0600 *)
Theorem C18_first_put_crash_bytes :
  forall a c (chunking : str -> list str) (dir : list path) (p t : path) s pre,
    (forall x, concat (chunking x) = x) ->
    put_accepts a c = true -> Forall (fun x => x < 256) (c_user c ++ colon :: c_pass c) ->
    t <> p -> fget t s = None -> fget p s = None ->
    crash_cut (op_steps b64_encode b64_decode file_writer chunking dir p t fresh_store (Put a c)) pre ->
    let d := one_entry_doc a (encode_auth b64_encode (c_user c) (c_pass c)) (c_refresh c) (c_access c) in
    let s' := exec_all s pre in
    (fget p s' = None \/
     disk_is file_reader views_eq p s' (Some d) /\ exists f, fget p s' = Some f /\ f_mode f = mode_file) /\
    (pre = op_steps b64_encode b64_decode file_writer chunking dir p t fresh_store (Put a c) ->
     disk_is file_reader views_eq p s' (Some d)).
Proof. exact first_put_crash_bytes. Qed.
Print Assumptions C18_first_put_crash_bytes.

(* the BYTES saveFile writes (Model/JsonDoc.v render_file = json.MarshalIndent of the
   content map, compared byte for byte with the real file on every run) do not
   depend on Go's map iteration order: any order of the content map and of the
   auths map gives the same file *)
Theorem C18_file_bytes_map_order :
  forall tops ents d d',
    NoDup (map fst d) -> Permutation d d' -> render_file tops ents d = render_file tops ents d'.
Proof. exact render_file_order. Qed.
Print Assumptions C18_file_bytes_map_order.

Theorem C18_auths_bytes_map_order :
  forall tops ents k l l',
    NoDup (map fst l) -> Permutation l l' ->
    render_top tops ents (k, TAuths l) = render_top tops ents (k, TAuths l').
Proof. exact render_auths_order. Qed.
Print Assumptions C18_auths_bytes_map_order.

Theorem C18_invalid_utf8_refuted :
  exists s, valid_utf8 s = false /\ json_unquote (json_quote s) <> Some s.
Proof. exact invalid_utf8_json_lossy. Qed.
Print Assumptions C18_invalid_utf8_refuted.

(* I/O errors inside a save (error paths of saveFile and ioutil.Ingest): whichever
   system call fails -- a mkdir at any level, the temp-file creation, chmod, any
   write, close or the rename -- after the clean-up the code performs the config
   path and every other file are untouched and no ingest file stays behind *)
Theorem C18_failed_save_harmless :
  forall (chain : list path) (p t : path) (chunks : list str),
    t <> p -> forall s fp,
    fget t s = None ->
    let s' := exec_all s (failed_save_steps chain p t chunks fp) in
    fget p s' = fget p s /\
    (forall q, q <> t -> fget q s' = fget q s) /\
    fget t s' = None.
Proof. exact failed_save_harmless. Qed.
Print Assumptions C18_failed_save_harmless.

(* ... and the operation is invisible: it reports the error and the store (memory
   and file) is exactly as before; operations that do not save cannot fail *)
Theorem C18_failed_op_invisible :
  forall (enc : str -> str) (dec : str -> option str) st o,
    (saves st o = true -> step_io enc dec true st o = (st, RErrIO)) /\
    (forall io, io = false \/ saves st o = false -> step_io enc dec io st o = step enc dec st o).
Proof. intros enc dec st o. split; [exact (step_io_failed enc dec st o)|intro io; exact (step_io_unaffected enc dec io st o)]. Qed.
Print Assumptions C18_failed_op_invisible.

(* the two defects fixed on the repository branch, as witnesses about the pre-fix
   variants of the model: the ingest file survived a failing chmod / write, and a
   failed Put stayed visible in memory *)
Theorem C18_failed_save_leak_refuted :
  forall (chain : list path) (p t : path) (chunks : list str) s,
    fget t s = None ->
    fget t (exec_all s (failed_save_steps_prefix chain p t chunks FChmod)) <> None /\
    forall j, fget t (exec_all s (failed_save_steps_prefix chain p t chunks (FWrite j))) <> None.
Proof. exact failed_save_prefix_leaks. Qed.
Print Assumptions C18_failed_save_leak_refuted.

Theorem C18_failed_op_visible_refuted :
  forall (enc : str -> str) (dec : str -> option str),
    exists st o a,
      snd (step_io_prefix enc dec true st o) = RErrIO /\
      get_candidates dec (cache_of (fst (step_io_prefix enc dec true st o))) a <>
      get_candidates dec (cache_of st) a.
Proof. exact step_io_prefix_visible. Qed.
Print Assumptions C18_failed_op_visible_refuted.

(* DynamicStore (store.go; DetectDefaultNativeStore off): an address routed to a
   credential helper or to the configured credsStore never touches the store or
   the config file; with no helper for any address and no credsStore, the
   DynamicStore IS the file store with DisablePut = not AllowPlaintextPut, over
   every history of Get/Put/Delete -- so all theorems above apply to it *)
Theorem C18_dynamic_store :
  forall (enc : str -> str) (dec : str -> option str) allow helpers,
    (forall st o h, ds_route helpers st (op_addr o) = Some h -> (forall s, o <> SetCs s) ->
                    ds_step enc dec allow helpers st o = (st, RNative)) /\
    (forall st h, (forall a, helper_of helpers a = []) -> m_cs (st_mem st) = [] -> Forall dyn_op h ->
                  ds_run enc dec allow helpers st h = fs_run enc dec (negb allow) st h).
Proof.
  intros enc dec allow helpers. split.
  - intros st o h. exact (ds_native_untouched enc dec allow helpers st o h).
  - intros st h. exact (ds_run_file enc dec allow helpers h st).
Qed.
Print Assumptions C18_dynamic_store.

(* the defect this check found (fixed on the repository branch): before the fix
   a config file holding the JSON value null made the first save panic *)
Theorem C18_null_document_refuted :
  exists j cache, save_content_prefix (load_content_prefix j) cache = None.
Proof. exact null_document_refuted. Qed.
Print Assumptions C18_null_document_refuted.

Theorem C18_null_document_fixed :
  forall j cache, save_content_prefix (load_content j) cache <> None.
Proof. exact null_document_fixed. Qed.
Print Assumptions C18_null_document_fixed.
