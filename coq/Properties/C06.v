(* C06 -- the built-in Targets behave as a content map plus a reference -> descriptor map.
   Only statements closed by [exact]; the lemmas live in Proofs/Stores.v, the executable
   models (memory store, OCI layout store, abstract specification) in Model/Stores.v. *)
From Oras Require Import Base.Prelude Model.Stores Proofs.Stores.

(* For every history, the memory store (cas.Memory + resolver.Memory + graph.Memory)
   answers exactly like the content map + tag map, and its content/tag maps are the
   specification's (predecessor lists compared as sets). *)
Theorem C06_refines_memory : forall h : list op,
  mem_abs (fst (run mem_step mem_init h)) = fst (run mspec_step mspec_init h) /\
  Forall2 out_equiv (snd (run mem_step mem_init h)) (snd (run mspec_step mspec_init h)).
Proof. exact refines_memory. Qed.
Print Assumptions C06_refines_memory.

(* The same for the OCI layout store (blob files by digest + resolver with the implicit
   tag-by-digest + graph, Untag, Delete without AutoGC, Tags), for every history over a
   universe U in which every digest is used with one media type and size. *)
Theorem C06_refines_oci : forall U : N -> gkey,
  (forall g, k_dig (U g) = g) ->
  forall h : list op, Forall (canon_op U) h ->
  oci_abs (fst (run oci_step oci_init h)) = fst (run (ospec_step U) ospec_init h) /\
  Forall2 out_equiv (snd (run oci_step oci_init h)) (snd (run (ospec_step U) ospec_init h)).
Proof. exact refines_oci. Qed.
Print Assumptions C06_refines_oci.

(* A refused or failed operation leaves the whole concrete state (content, tags,
   resolver tag sets, graph) literally unchanged, after any history. *)
Theorem C06_failed_noop_memory : forall (h : list op) (o : op),
  let s := fst (run mem_step mem_init h) in
  is_err (snd (mem_step s o)) = true -> fst (mem_step s o) = s.
Proof. exact failed_noop_memory. Qed.
Print Assumptions C06_failed_noop_memory.

Theorem C06_failed_noop_oci : forall U : N -> gkey,
  (forall g, k_dig (U g) = g) ->
  forall (h : list op) (o : op), Forall (canon_op U) h ->
  let s := fst (run oci_step oci_init h) in
  is_err (snd (oci_step s o)) = true -> fst (oci_step s o) = s.
Proof. exact failed_noop_oci. Qed.
Print Assumptions C06_failed_noop_oci.

(* ---- the hypotheses are satisfiable: a concrete universe and history ---- *)
Definition ex_U (g : N) : gkey :=
  if g =? 1 then (1, 1, 10) else if g =? 2 then (6, 2, 5) else (0, g, 0).
Definition ex_man := mkDesc 1 1 10 0.
Definition ex_layer := mkDesc 6 2 5 0.
Definition ex_hist : list op :=
  [ Push ex_man (mkBlob 1 10 [(6, 2, 5)]); Push ex_layer (mkBlob 2 5 []);
    Push ex_layer (mkBlob 2 5 []); Tag ex_man (RName 1); Resolve (RName 1); Resolve (RDig 2);
    Preds ex_layer; Delete ex_man; Resolve (RName 1); Preds ex_layer; Delete ex_man ].

Example C06_ex_U_dig : forall g, k_dig (ex_U g) = g.
Proof.
  intro g. unfold ex_U. destruct (g =? 1) eqn:E1; [apply N.eqb_eq in E1; now subst|].
  destruct (g =? 2) eqn:E2; [apply N.eqb_eq in E2; now subst|]. reflexivity.
Qed.

Example C06_ex_canon : Forall (canon_op ex_U) ex_hist.
Proof. repeat constructor. Qed.

Example C06_ex_run :
  snd (run oci_step oci_init ex_hist) =
  [ OOk; OOk; OErr EAlreadyExists; OOk; ODesc ex_man; ODesc (mkDesc 0 2 5 0);
    OPreds [(1, 1, 10)]; OOk; OErr ENotFound; OPreds []; OErr ENotFound ].
Proof. vm_compute. reflexivity. Qed.
