(* C06 -- the built-in Targets behave as a content map plus a reference -> descriptor map.
   Only statements closed by [exact]; the lemmas live in Proofs/Stores.v, the executable
   models (memory store, OCI layout store, abstract specification) in Model/Stores.v. *)
From Oras Require Import Base.Prelude Generated.GC06 Model.Stores Model.StoresFileSpec Model.StoresFileLimit Model.StoresConc Model.StoresConcOci Model.StoresConcFile
     Proofs.Stores Proofs.StoresConc Proofs.StoresConcOci Proofs.StoresConcOci2 Proofs.StoresConcFile Proofs.StoresFile Proofs.StoresConcFileGraph Proofs.StoresConcReads Proofs.StoresFileSpec Proofs.StoresFileLimit.
From Coq Require Import Permutation.

(* For every history, the memory store (cas.Memory + resolver.Memory + graph.Memory)
   answers exactly like the content map + tag map, and its content/tag maps are the
   specification's (predecessor lists compared as sets). *)
Theorem C06_refines_memory : forall h : list op,
  mem_abs (fst (run mem_step mem_init h)) = fst (run mspec_step mspec_init h) /\
  Forall2 out_equiv (snd (run mem_step mem_init h)) (snd (run mspec_step mspec_init h)).
Proof. exact refines_memory. Qed.
Print Assumptions C06_refines_memory.

(* The same for the OCI layout store (blob files by digest + resolver with the implicit
   tag-by-digest + graph, Untag, Delete without AutoGC, Tags), for every history over a
   universe U in which content is pushed and deleted under the universe's descriptor of
   its digest ([canon_op]); Fetch, Exists, Tag and Predecessors may use any descriptor of
   the digest, e.g. the application/octet-stream one Resolve(<digest>) hands out. *)
Theorem C06_refines_oci : forall U : N -> gkey,
  (forall g, k_dig (U g) = g) ->
  forall h : list op, Forall (canon_op U) h ->
  oci_abs (fst (run oci_step oci_init h)) = fst (run (ospec_step U) ospec_init h) /\
  Forall2 out_equiv (snd (run oci_step oci_init h)) (snd (run (ospec_step U) ospec_init h)).
Proof. exact refines_oci. Qed.
Print Assumptions C06_refines_oci.

(* A refused or failed operation leaves the whole concrete state (content, tags,
   resolver tag sets, graph) literally unchanged, after any history. *)
Theorem C06_failed_noop_memory : forall (h : list op) (o : op),
  let s := fst (run mem_step mem_init h) in
  is_err (snd (mem_step s o)) = true -> fst (mem_step s o) = s.
Proof. exact failed_noop_memory. Qed.
Print Assumptions C06_failed_noop_memory.

Theorem C06_failed_noop_oci : forall U : N -> gkey,
  (forall g, k_dig (U g) = g) ->
  forall (h : list op) (o : op), Forall (canon_op U) h ->
  let s := fst (run oci_step oci_init h) in
  is_err (snd (oci_step s o)) = true -> fst (oci_step s o) = s.
Proof. exact failed_noop_oci. Qed.
Print Assumptions C06_failed_noop_oci.

(* ---- the clauses of the property, for every history ---- *)

(* memory: after a successful Push, whatever happens next, Fetch of that descriptor
   returns exactly the pushed bytes (whose hash and length are the descriptor's), and
   pushing it again is refused with already-exists and changes nothing *)
Theorem C06_fetch_returns_pushed_memory : forall s d c h2 d',
  snd (mem_step s (Push d c)) = OOk -> gk d' = gk d ->
  let s2 := fst (run mem_step (fst (mem_step s (Push d c))) h2) in
  snd (mem_step s2 (Fetch d')) = OBytes (b_hash c) (b_len c) /\
  b_hash c = d_dig d /\ b_len c = d_size d /\
  forall c', mem_step s2 (Push d' c') = (s2, OErr EAlreadyExists).
Proof. exact mem_fetch_returns_pushed. Qed.
Print Assumptions C06_fetch_returns_pushed_memory.

(* memory: Resolve returns the descriptor most recently tagged *)
Theorem C06_resolve_latest_memory : forall s d r h2,
  snd (mem_step s (Tag d r)) = OOk -> forallb (fun o => negb (tags_ref r o)) h2 = true ->
  snd (mem_step (fst (run mem_step (fst (mem_step s (Tag d r))) h2)) (Resolve r)) = ODesc d.
Proof. exact mem_resolve_latest. Qed.
Print Assumptions C06_resolve_latest_memory.

(* memory: content never pushed successfully is absent; fetching or tagging it is not-found *)
Theorem C06_absent_notfound_memory : forall h k,
  (forall d c, In (Push d c) h -> gk d <> k) ->
  let s := fst (run mem_step mem_init h) in
  get gkey_eqb k (m_cas s) = None /\
  forall d r, gk d = k -> snd (mem_step s (Fetch d)) = OErr ENotFound /\
                          snd (mem_step s (Tag d r)) = OErr ENotFound /\
                          snd (mem_step s (Exists d)) = OBool false.
Proof. exact mem_never_pushed_absent. Qed.
Print Assumptions C06_absent_notfound_memory.

(* OCI: the same until the content is deleted *)
Theorem C06_fetch_returns_pushed_oci : forall s d c h2 d',
  snd (oci_step s (Push d c)) = OOk -> d_dig d' = d_dig d ->
  forallb (fun o => negb (deletes_dig (d_dig d) o)) h2 = true ->
  let s2 := fst (run oci_step (fst (oci_step s (Push d c))) h2) in
  snd (oci_step s2 (Fetch d')) = OBytes (b_hash c) (b_len c) /\
  b_hash c = d_dig d /\ b_len c = d_size d /\
  forall c', oci_step s2 (Push d' c') = (s2, OErr EAlreadyExists).
Proof. exact oci_fetch_returns_pushed. Qed.
Print Assumptions C06_fetch_returns_pushed_oci.

(* OCI: a name resolves to the descriptor most recently tagged (full descriptor,
   annotations included) until it is re-tagged, untagged, or its content deleted *)
Theorem C06_resolve_latest_oci : forall h1 d n h2,
  let s := fst (run oci_step oci_init h1) in
  snd (oci_step s (Tag d (RName n))) = OOk ->
  forallb (fun o => negb (touches_name n (gk d) o)) h2 = true ->
  snd (oci_step (fst (run oci_step (fst (oci_step s (Tag d (RName n)))) h2)) (Resolve (RName n))) = ODesc d.
Proof. exact oci_resolve_latest. Qed.
Print Assumptions C06_resolve_latest_oci.

(* OCI: Delete removes the content and every name that pointed to that digest, whatever
   media type or size it was tagged with (after the audit-F3 repair of Store.delete) *)
Theorem C06_delete_clears_oci : forall h1 d,
  let s := fst (run oci_step oci_init h1) in
  snd (oci_step s (Delete d)) = OOk ->
  let s' := fst (oci_step s (Delete d)) in
  snd (oci_step s' (Fetch d)) = OErr ENotFound /\
  snd (oci_step s' (Exists d)) = OBool false /\
  forall n d', get ref_eqb (RName n) (r_index (o_res s)) = Some d' -> d_dig d' = d_dig d ->
               snd (oci_step s' (Resolve (RName n))) = OErr ENotFound.
Proof. exact oci_delete_clears. Qed.
Print Assumptions C06_delete_clears_oci.

(* OCI: content never pushed successfully is absent; fetching, tagging or deleting it is not-found *)
Theorem C06_absent_notfound_oci : forall h g,
  (forall d c, In (Push d c) h -> d_dig d <> g) ->
  let s := fst (run oci_step oci_init h) in
  get N.eqb g (o_blobs s) = None /\
  forall d r, d_dig d = g -> snd (oci_step s (Fetch d)) = OErr ENotFound /\
                             (r <> REmpty -> foreign_digest_ref d r = false ->
                              snd (oci_step s (Tag d r)) = OErr ENotFound) /\
                             snd (oci_step s (Exists d)) = OBool false /\
                             snd (oci_step s (Delete d)) = OErr ENotFound.
Proof. exact oci_never_pushed_absent. Qed.
Print Assumptions C06_absent_notfound_oci.

(* OCI: Store.delete walks a Go map; for every iteration order of the snapshot the
   surviving references are exactly those not content.Equal to the target *)
Theorem C06_delete_order_free : forall k snap t r,
  NoDup (map fst t) -> (forall e, In e snap <-> In e t) ->
  get ref_eqb r (untag_fold k snap t) = get ref_eqb r (spec_untag_equal k t).
Proof. exact untag_fold_order_free. Qed.
Print Assumptions C06_delete_order_free.

(* ---- "no operation ever returned bytes that do not match its descriptor" ---- *)

(* memory: for every history, what Fetch returns has the digest AND the size of the request *)
Theorem C06_fetch_matches_memory : forall h d hash len,
  snd (mem_step (fst (run mem_step mem_init h)) (Fetch d)) = OBytes hash len ->
  hash = d_dig d /\ len = d_size d.
Proof. exact mem_fetch_matches. Qed.
Print Assumptions C06_fetch_matches_memory.

(* OCI: content is found by digest (the size field of the request is not consulted, as in
   the code): for every history, canonical or not, the returned bytes hash to the requested digest *)
Theorem C06_fetch_matches_oci : forall h d hash len,
  snd (oci_step (fst (run oci_step oci_init h)) (Fetch d)) = OBytes hash len -> hash = d_dig d.
Proof. exact oci_fetch_matches. Qed.
Print Assumptions C06_fetch_matches_oci.

(* under concurrency: at EVERY configuration reachable by any schedule of atomic steps (not
   only at quiescence) a Fetch returns matching bytes *)
Theorem C06_conc_fetch_matches_memory : forall (progs : list (list op)) (sched : list nat) d hash len,
  snd (mem_step (c_store (mconf_run (mconf_init progs) sched)) (Fetch d)) = OBytes hash len ->
  hash = d_dig d /\ len = d_size d.
Proof. exact conc_fetch_matches_memory. Qed.
Print Assumptions C06_conc_fetch_matches_memory.

Theorem C06_conc_fetch_matches_oci :
  forall (U : N -> gkey) (B : N -> blob) (progs : list (list op)) (sched : list nat) d hash len,
  (forall g, k_dig (U g) = g) -> Forall (wf_op U B) (concat progs) ->
  snd (oci_step (oc_store (oconf_run (oconf_init progs) sched)) (Fetch d)) = OBytes hash len ->
  hash = d_dig d.
Proof. exact conc_fetch_matches_oci. Qed.
Print Assumptions C06_conc_fetch_matches_oci.

Theorem C06_conc_fetch_matches_file :
  forall (ig ov : bool) (progs : list (list op)) (sched : list nat) d hash len,
  Forall untitled (concat progs) -> Forall no_alias (concat progs) ->
  snd (file_step true ig ov (fc_store (fconf_run true ig ov (fconf_init progs) sched)) (Fetch d)) = FO (OBytes hash len) ->
  hash = d_dig d.
Proof. exact conc_fetch_matches_file. Qed.
Print Assumptions C06_conc_fetch_matches_file.

(* ---- concurrency: reads at every reachable configuration ----
   Not only at quiescence: after EVERY prefix of EVERY schedule the content map and the tag map
   are those of the sequential execution of the commit log (whose projection to a goroutine
   is a prefix of its program), so a Fetch / Exists / Resolve taken at that moment answers what
   that sequential execution answers -- content-map reads are linearisable.  (OCI: Resolve by
   name; a digest reference during a manifest Push may see the blob before its digest tag.) *)
Theorem C06_reads_linearisable_memory : forall (progs : list (list op)) (sched : list nat),
  let cf := mconf_run (mconf_init progs) sched in
  let q := fst (run mem_step mem_init (map snd (c_log cf))) in
  (forall i, exists rest, log_of i (c_log cf) ++ rest = nth i progs []) /\
  forall d r, snd (mem_step (c_store cf) (Fetch d)) = snd (mem_step q (Fetch d)) /\
              snd (mem_step (c_store cf) (Exists d)) = snd (mem_step q (Exists d)) /\
              snd (mem_step (c_store cf) (Resolve r)) = snd (mem_step q (Resolve r)).
Proof. exact reads_linearisable_memory. Qed.
Print Assumptions C06_reads_linearisable_memory.

Theorem C06_reads_linearisable_oci :
  forall (U : N -> gkey) (B : N -> blob) (progs : list (list op)) (sched : list nat),
  (forall g, k_dig (U g) = g) -> Forall (wf_op U B) (concat progs) ->
  let cf := oconf_run (oconf_init progs) sched in
  let q := fst (run oci_step oci_init (map snd (oc_log cf))) in
  (forall i, exists rest, log_of i (oc_log cf) ++ rest = nth i progs []) /\
  forall d n, snd (oci_step (oc_store cf) (Fetch d)) = snd (oci_step q (Fetch d)) /\
              snd (oci_step (oc_store cf) (Exists d)) = snd (oci_step q (Exists d)) /\
              snd (oci_step (oc_store cf) (Resolve (RName n))) = snd (oci_step q (Resolve (RName n))).
Proof. exact reads_linearisable_oci. Qed.
Print Assumptions C06_reads_linearisable_oci.

(* the decision of a Push is taken in one atomic step reading the content map: at every
   reachable configuration it is the one the sequential execution of the commit log takes
   (memory store, file store; false for the OCI store: C06_repush_refused_oci_racing_refuted) *)
Theorem C06_push_decision_linearisable_memory : forall (progs : list (list op)) (sched : list nat),
  let cf := mconf_run (mconf_init progs) sched in
  let q := fst (run mem_step mem_init (map snd (c_log cf))) in
  forall d c, snd (mem_step (c_store cf) (Push d c)) = snd (mem_step q (Push d c)).
Proof. exact push_decision_linearisable_memory. Qed.
Print Assumptions C06_push_decision_linearisable_memory.

Theorem C06_push_decision_linearisable_file :
  forall (fx ig ov : bool) (progs : list (list op)) (sched : list nat),
  Forall untitled (concat progs) ->
  let cf := fconf_run fx ig ov (fconf_init progs) sched in
  let q := fst (runf (file_step fx ig ov) file_init (map snd (fc_log cf))) in
  forall d c, snd (file_push_store fx ig ov (fc_store cf) d c) = snd (file_push_store fx ig ov q d c).
Proof. exact push_decision_linearisable_file. Qed.
Print Assumptions C06_push_decision_linearisable_file.

(* OCI Tags: at every reachable configuration the set of names listed is the one the sequential
   execution of the commit log lists *)
Theorem C06_tags_linearisable_oci :
  forall (U : N -> gkey) (B : N -> blob) (progs : list (list op)) (sched : list nat),
  (forall g, k_dig (U g) = g) -> Forall (wf_op U B) (concat progs) ->
  let cf := oconf_run (oconf_init progs) sched in
  let q := fst (run oci_step oci_init (map snd (oc_log cf))) in
  forall n l l', snd (oci_step (oc_store cf) Tags) = OTags l -> snd (oci_step q Tags) = OTags l' ->
                 (In (RName n) l <-> In (RName n) l').
Proof. exact tags_linearisable_oci. Qed.
Print Assumptions C06_tags_linearisable_oci.

Theorem C06_reads_linearisable_file :
  forall (fx ig ov : bool) (progs : list (list op)) (sched : list nat),
  Forall untitled (concat progs) ->
  let cf := fconf_run fx ig ov (fconf_init progs) sched in
  let q := fst (runf (file_step fx ig ov) file_init (map snd (fc_log cf))) in
  (forall i, exists rest, log_of i (fc_log cf) ++ rest = nth i progs []) /\
  forall d r, snd (file_step fx ig ov (fc_store cf) (Fetch d)) = snd (file_step fx ig ov q (Fetch d)) /\
              snd (file_step fx ig ov (fc_store cf) (Exists d)) = snd (file_step fx ig ov q (Exists d)) /\
              snd (file_step fx ig ov (fc_store cf) (Resolve r)) = snd (file_step fx ig ov q (Resolve r)).
Proof. exact reads_linearisable_file. Qed.
Print Assumptions C06_reads_linearisable_file.

(* ---- concurrency: memory store ---- *)

(* Goroutines run programs of operations; each operation is split into its atomic steps
   (Load check, LoadOrStore, graph.index under the graph lock, Exists, resolver.Tag under
   the resolver lock).  For EVERY schedule of those steps that runs all programs to
   completion, the final content map and resolver are literally those of a sequential
   execution of the same operations (in the order of their commit steps, which keeps
   every goroutine's program order), and every Predecessors query gets the same answer
   (as a set). *)
Theorem C06_quiescent_serialisable_memory : forall (progs : list (list op)) (sched : list nat),
  let cf := mconf_run (mconf_init progs) sched in
  quiescent cf = true ->
  exists order : list (nat * op),          (* (goroutine, operation) in commit order *)
    Permutation (map snd order) (concat progs) /\
    (forall i, log_of i order = nth i progs []) /\     (* every goroutine's program order is kept *)
    let q := fst (run mem_step mem_init (map snd order)) in
    m_cas (c_store cf) = m_cas q /\ m_res (c_store cf) = m_res q /\
    forall n k, In k (map gk (g_predecessors n (m_graph (c_store cf)))) <->
                In k (map gk (g_predecessors n (m_graph q))).
Proof. exact quiescent_serialisable_memory. Qed.
Print Assumptions C06_quiescent_serialisable_memory.

Example C06_ex_quiescent : quiescent (mconf_run (mconf_init cx_progs) cx_sched) = true.
Proof. exact cx_quiescent. Qed.

(* ---- concurrency: OCI layout store ---- *)

(* Atomic steps: stat, rename (replaces an existing blob), graph.index, the two
   tagResolver.Tag calls of Store.tag, tagResolver.Resolve / Untag; Delete runs only while
   no other operation is in flight (Store.sync).  Universe: every digest has one
   descriptor (U) and one byte string (B).  For EVERY schedule that runs all programs to
   completion there is a sequential order of the same operations, keeping every
   goroutine's program order, with literally the same content map, the same descriptor
   under every name, and the same Predecessors answers.  Partial: the resolver's
   digest-string entries (visible only as media type of Resolve(<digest>) for non-manifest
   blobs) are not compared. *)
Theorem C06_quiescent_serialisable_oci_partial :
  forall (U : N -> gkey), (forall g, k_dig (U g) = g) ->
  forall (B : N -> blob) (progs : list (list op)) (sched : list nat),
  Forall (wf_op U B) (concat progs) ->
  let cf := oconf_run (oconf_init progs) sched in
  oquiescent cf = true ->
  exists order : list (nat * op),
    Permutation (map snd order) (concat progs) /\
    (forall i, log_of i order = nth i progs []) /\
    let q := fst (run oci_step oci_init (map snd order)) in
    o_blobs (oc_store cf) = o_blobs q /\
    (forall n, get ref_eqb (RName n) (r_index (o_res (oc_store cf))) =
               get ref_eqb (RName n) (r_index (o_res q))) /\
    forall n k, In k (map gk (g_predecessors n (o_graph (oc_store cf)))) <->
                In k (map gk (g_predecessors n (o_graph q))).
Proof. exact quiescent_serialisable_oci. Qed.
Print Assumptions C06_quiescent_serialisable_oci_partial.

(* The complete statement: EVERY Resolve answer -- names, digest strings (resolver entry or
   blob fallback), the empty reference -- at quiescence is the one of the sequential order.
   (wf2_op is wf_op: Store.Tag itself refuses another content's digest string as reference,
   and its graph.Index step on manifest descriptors is one of the atomic steps.) *)
Theorem C06_quiescent_serialisable_oci :
  forall (U : N -> gkey), (forall g, k_dig (U g) = g) ->
  forall (B : N -> blob) (progs : list (list op)) (sched : list nat),
  Forall (wf2_op U B) (concat progs) ->
  let cf := oconf_run (oconf_init progs) sched in
  oquiescent cf = true ->
  exists order : list (nat * op),
    Permutation (map snd order) (concat progs) /\
    (forall i, log_of i order = nth i progs []) /\
    let q := fst (run oci_step oci_init (map snd order)) in
    o_blobs (oc_store cf) = o_blobs q /\
    (forall r, snd (oci_step (oc_store cf) (Resolve r)) = snd (oci_step q (Resolve r))) /\
    forall n k, In k (map gk (g_predecessors n (o_graph (oc_store cf)))) <->
                In k (map gk (g_predecessors n (o_graph q))).
Proof. exact quiescent_serialisable_oci_full. Qed.
Print Assumptions C06_quiescent_serialisable_oci.

Example C06_ex_oci_wf2 : Forall (wf2_op ex_U ox_B) (concat ox_progs).
Proof. exact ox_wf2. Qed.

Example C06_ex_oci_wf : Forall (wf_op ex_U ox_B) (concat ox_progs).
Proof. exact ox_wf. Qed.

Example C06_ex_oci_quiescent : oquiescent (oconf_run (oconf_init ox_progs) ox_sched) = true.
Proof. exact ox_quiescent. Qed.

(* ---- concurrency: file store ---- *)

(* Atomic steps: a named Push under its per-name lock (check, write, digestToPath, exists),
   an unnamed Push's fallback LoadOrStore, the later restoreDuplicates/graph.Index read-back,
   Exists, resolver.Tag.  For every option setting (repaired or original pushFile,
   IgnoreNoName, DisableOverwrite) and EVERY schedule run to completion, names,
   digestToPath, files, fallback storage and resolver are literally those of a sequential
   order of the same operations in program order, so every Fetch, Exists and Resolve
   answers alike.  Partial: the graph (Predecessors) is in the next theorem; programs use neither
   the aliasing name (two names, two locks, one file) nor titled successors (with those the
   restore step falls behind the store and executions are not serialisable in general). *)
Theorem C06_quiescent_serialisable_file_partial :
  forall (fx ig ov : bool) (progs : list (list op)) (sched : list nat),
  Forall untitled (concat progs) -> Forall no_alias (concat progs) ->
  let cf := fconf_run fx ig ov (fconf_init progs) sched in
  fquiescent cf = true ->
  exists order : list (nat * op),
    Permutation (map snd order) (concat progs) /\
    (forall i, log_of i order = nth i progs []) /\
    let q := fst (runf (file_step fx ig ov) file_init (map snd order)) in
    fcore (fc_store cf) = fcore q /\
    forall d r, snd (file_step fx ig ov (fc_store cf) (Fetch d)) = snd (file_step fx ig ov q (Fetch d)) /\
                snd (file_step fx ig ov (fc_store cf) (Exists d)) = snd (file_step fx ig ov q (Exists d)) /\
                snd (file_step fx ig ov (fc_store cf) (Resolve r)) = snd (file_step fx ig ov q (Resolve r)).
Proof. exact quiescent_serialisable_file. Qed.
Print Assumptions C06_quiescent_serialisable_file_partial.

(* ... and the graph: with the repaired pushFile, store and graph.Index as separate atomic
   steps, collision-free bytes B, EVERY schedule run to completion ends with the core state
   and the Predecessors answers (as sets) of the sequential execution in commit order.
   Programs use neither the aliasing name nor titled successors (see above). *)
Theorem C06_quiescent_serialisable_file_graph :
  forall (B : N -> blob) (ig ov : bool) (progs : list (list op)) (sched : list nat),
  Forall (good_op B) (concat progs) ->
  let cf := fconf_run true ig ov (fconf_init progs) sched in
  fquiescent cf = true ->
  exists order : list (nat * op),
    Permutation (map snd order) (concat progs) /\
    (forall i, log_of i order = nth i progs []) /\
    let q := fst (runf (file_step true ig ov) file_init (map snd order)) in
    fcore (fc_store cf) = fcore q /\
    forall n k, In k (map gk (g_predecessors n (f_graph (fc_store cf)))) <->
                In k (map gk (g_predecessors n (f_graph q))).
Proof. exact quiescent_serialisable_file_graph. Qed.
Print Assumptions C06_quiescent_serialisable_file_graph.

Example C06_ex_file_graph_conc_good : Forall (good_op fgx_B) (concat fgc_progs).
Proof. exact fgc_good. Qed.
Example C06_ex_file_graph_conc_run :
  let cf := fconf_run true false false (fconf_init fgc_progs) fgc_sched in
  fquiescent cf = true /\ map gk (g_predecessors w_layer (f_graph (fc_store cf))) = [(1, 9, 20)].
Proof. exact fgc_quiescent. Qed.

(* known finding file-conc-titled-restore-not-serialisable: WITH a titled successor the
   statement is refuted -- the schedule [0;1;1;1;0] of ft_progs (push manifest M under name 2 ||
   push M again under name 2, then push M's layer) ends quiescent with the layer's title
   (name 1) restored, and none of the three sequential orders that keep program order does *)
Theorem C06_quiescent_serialisable_file_titled_refuted :
  let cf := fconf_run true false false (fconf_init ft_progs) ft_sched in
  fquiescent cf = true /\
  f_names (fc_store cf) = [1; 2] /\
  map (fun h => f_names (fst (runf (file_step true false false) file_init h))) ft_orders = [[2]; [2]; [2]].
Proof. exact file_titled_not_serialisable. Qed.
Print Assumptions C06_quiescent_serialisable_file_titled_refuted.

Example C06_ex_file_hyps : Forall untitled (concat fx_progs) /\ Forall no_alias (concat fx_progs).
Proof. exact fx_hyps. Qed.
Example C06_ex_file_quiescent : fquiescent (fconf_run true false false (fconf_init fx_progs) fx_sched) = true.
Proof. exact fx_quiescent. Qed.

(* ---- file store (names, duplicate-name, fallback CAS; options IgnoreNoName, DisableOverwrite) ---- *)

(* Refinement: for EVERY history that does not use a second name for one path, the file store
   (repaired pushFile, any IgnoreNoName / DisableOverwrite setting, restoreDuplicates with
   titled successors included) returns step by step exactly what the abstract specification
   Model/StoresFileSpec.v returns -- a set of names, one content map by digest for named
   content, the fallback content map, the tag map and the graph -- and its
   digestToPath -> path -> file indirection is that content map. *)
Theorem C06_refines_file : forall (ig ov : bool) (h : list op),
  Forall no_alias h ->
  snd (runf (file_step true ig ov) file_init h) = snd (runf (fspec_step ig) fspec_init h) /\
  frel (fst (runf (file_step true ig ov) file_init h)) (fst (runf (fspec_step ig) fspec_init h)).
Proof. exact refines_file. Qed.
Print Assumptions C06_refines_file.

(* ... so DisableOverwrite cannot be observed on such histories *)
Theorem C06_disable_overwrite_unobservable_file : forall (ig : bool) (h : list op),
  Forall no_alias h ->
  snd (runf (file_step true ig true) file_init h) = snd (runf (file_step true ig false) file_init h).
Proof. exact file_disable_overwrite_unobservable. Qed.
Print Assumptions C06_disable_overwrite_unobservable_file.


(* ---- file store created with NewWithFallbackLimit: content.LimitedStorage.Push refuses an
   unnamed descriptor whose Size exceeds the limit before anything is read (Model/StoresFileLimit.v) ---- *)

(* exactly the oversized unnamed pushes (IgnoreNoName off) are refused, and the refusal changes nothing *)
Theorem C06_limit_refusal_iff_file : forall lim fx ig ov s o,
  snd (file_step_lim lim fx ig ov s o) = LLimit <->
  exists d c, o = Push d c /\ d_name d = 0 /\ ig = false /\ lim < d_size d.
Proof. exact file_limit_refusal_iff. Qed.
Print Assumptions C06_limit_refusal_iff_file.

Theorem C06_limit_refusal_noop_file : forall lim fx ig ov s o,
  snd (file_step_lim lim fx ig ov s o) = LLimit -> fst (file_step_lim lim fx ig ov s o) = s.
Proof. exact file_limit_refusal_noop. Qed.
Print Assumptions C06_limit_refusal_noop_file.

(* for EVERY history, option setting and limit -- aliasing names, titled successors, code as found
   or repaired -- nothing larger than the limit is ever in the fallback storage *)
Theorem C06_limit_bounds_fallback_file : forall lim fx ig ov h k c,
  get gkey_eqb k (f_cas (fst (runl (file_step_lim lim fx ig ov) file_init h))) = Some c -> k_size k <= lim.
Proof. exact file_limit_cas_bounded_init. Qed.
Print Assumptions C06_limit_bounds_fallback_file.

(* the limited store refines the abstract specification with the same limit on every history
   without an aliasing name (equal outputs, content map related, invariant kept) *)
Theorem C06_refines_file_limit : forall lim ig ov h s a,
  Forall no_alias h -> file_inv s -> frel s a ->
  snd (runl (file_step_lim lim true ig ov) s h) = snd (runl (fspec_step_lim lim ig) a h) /\
  frel (fst (runl (file_step_lim lim true ig ov) s h)) (fst (runl (fspec_step_lim lim ig) a h)) /\
  file_inv (fst (runl (file_step_lim lim true ig ov) s h)).
Proof. exact refines_file_limit. Qed.
Print Assumptions C06_refines_file_limit.

Theorem C06_fetch_matches_digest_file_limit : forall lim ig ov h d hash len,
  Forall no_alias h ->
  let s := fst (runl (file_step_lim lim true ig ov) file_init h) in
  snd (file_step_lim lim true ig ov s (Fetch d)) = LOut (FO (OBytes hash len)) -> hash = d_dig d.
Proof. exact file_limit_fetch_matches. Qed.
Print Assumptions C06_fetch_matches_digest_file_limit.

(* a history whose unnamed pushes stay below the limit cannot observe it: all theorems about
   file_step carry over *)
Theorem C06_limit_unobservable_below_file : forall lim fx ig ov h s,
  Forall (below_limit lim ig) h ->
  snd (runl (file_step_lim lim fx ig ov) s h) = map LOut (snd (runf (file_step fx ig ov) s h)) /\
  fst (runl (file_step_lim lim fx ig ov) s h) = fst (runf (file_step fx ig ov) s h).
Proof. exact file_limit_unobservable. Qed.
Print Assumptions C06_limit_unobservable_below_file.

(* for EVERY history (also above the limit) the limited store ends in the state of the unlimited
   store run on the history without its oversized unnamed pushes and answers the remaining
   operations alike: every theorem about file_step applies to the filtered history *)
Theorem C06_limit_is_filter_file : forall lim fx ig ov h s,
  fst (runl (file_step_lim lim fx ig ov) s h) =
  fst (runf (file_step fx ig ov) s (filter (fun o => negb (over_limit lim ig o)) h)) /\
  filter (fun x => match x with LLimit => false | LOut _ => true end) (snd (runl (file_step_lim lim fx ig ov) s h)) =
  map LOut (snd (runf (file_step fx ig ov) s (filter (fun o => negb (over_limit lim ig o)) h))).
Proof. exact file_limit_is_filter. Qed.
Print Assumptions C06_limit_is_filter_file.

(* the conditions of [over_limit] are the guards in the Go source, regenerated on every run *)
Theorem C06_limit_guards_from_source :
  limited_Push_guards = [(b "fmt.Errorf"%string, [b "expected.Size > ls.PushLimit"%string]);
                         (b "ls.Storage.Push"%string, [])] /\
  file_push_guards = [(b "s.fallbackStorage.Push"%string, [b "name == ''"%string])].
Proof. exact limit_guards_from_source. Qed.
Print Assumptions C06_limit_guards_from_source.

Example C06_ex_file_limit :
  snd (runl (file_step_lim 10 true false false) file_init
            [Push (mkDesc 1 9 20 0) (mkBlob 9 20 [(6, 1, 5)] 9 [(6, 1, 5)]); Push w_unnamed w_good;
             Exists (mkDesc 1 9 20 0); Fetch w_unnamed])
  = [LLimit; LOut (FO OOk); LOut (FO (OBool false)); LOut (FO (OBytes 1 5))].
Proof. exact file_limit_example. Qed.

(* the file store has no Delete: for every option setting and EVERY history (aliasing names
   and titled successors included) what Exists once answered true for stays present *)
Theorem C06_presence_monotone_file : forall (fx ig ov : bool) (h : list op) (s : file_store) (d : desc),
  file_exists d s = true -> file_exists d (fst (runf (file_step fx ig ov) s h)) = true.
Proof. exact file_run_fle. Qed.
Print Assumptions C06_presence_monotone_file.

(* whatever the options, in a history whose pushes do not use two names for one path
   ([no_alias]), a Fetch never returns bytes whose hash is not the requested digest
   (digestToPath -> file indirection included).  Partial: without [no_alias] the
   statement is refuted below (known finding file-name-alias-overwrite). *)
Theorem C06_fetch_matches_digest_file_partial : forall ig ov h d hash len,
  Forall no_alias h ->
  let s := fst (runf (file_step true ig ov) file_init h) in
  snd (file_step true ig ov s (Fetch d)) = FO (OBytes hash len) -> hash = d_dig d.
Proof. exact file_fetch_matches. Qed.
Print Assumptions C06_fetch_matches_digest_file_partial.

(* Fetch returns the pushed content for ever: after a successful Push (named, or unnamed
   without IgnoreNoName, which discards the content), whatever follows -- titled successors
   and restoreDuplicates included, the aliasing name excluded -- Fetch of that descriptor
   succeeds and returns bytes that hash to its digest *)
Theorem C06_fetch_returns_pushed_file_partial : forall ig ov h1 d c h2,
  Forall no_alias h1 -> no_alias (Push d c) -> Forall no_alias h2 -> (ig = false \/ d_name d <> 0) ->
  let s := fst (runf (file_step true ig ov) file_init h1) in
  snd (file_step true ig ov s (Push d c)) = FO OOk ->
  let s2 := fst (runf (file_step true ig ov) (fst (file_step true ig ov s (Push d c))) h2) in
  exists len, snd (file_step true ig ov s2 (Fetch d)) = FO (OBytes (d_dig d) len).
Proof. exact file_fetch_returns_pushed. Qed.
Print Assumptions C06_fetch_returns_pushed_file_partial.

(* the fallback content map is immutable: an unnamed re-push is already-exists and a no-op *)
Theorem C06_unnamed_repush_refused_file : forall fx ov d c h2 s c',
  d_name d = 0 ->
  snd (file_step fx false ov s (Push d c)) = FO OOk ->
  let s2 := fst (runf (file_step fx false ov) (fst (file_step fx false ov s (Push d c))) h2) in
  file_step fx false ov s2 (Push d c') = (s2, FO (OErr EAlreadyExists)).
Proof. exact file_unnamed_repush_refused. Qed.
Print Assumptions C06_unnamed_repush_refused_file.

(* content never pushed is absent: fetching or tagging it is not-found -- for every history
   and option setting, titled successors and the aliasing name included *)
Theorem C06_absent_notfound_file : forall fx ig ov h g,
  (forall d c, In (Push d c) h -> d_dig d <> g) ->
  let s := fst (runf (file_step fx ig ov) file_init h) in
  forall d r, d_dig d = g ->
    snd (file_step fx ig ov s (Fetch d)) = FO (OErr ENotFound) /\
    snd (file_step fx ig ov s (Exists d)) = FO (OBool false) /\
    (r <> REmpty -> snd (file_step fx ig ov s (Tag d r)) = FO (OErr ENotFound)).
Proof. exact file_absent_notfound. Qed.
Print Assumptions C06_absent_notfound_file.

(* Predecessors of the file store, for every history (titled successors / restoreDuplicates,
   IgnoreNoName, DisableOverwrite included; the aliasing name excluded; B = the bytes a digest
   stands for): exactly the indexed nodes whose bytes list the node as a successor ... *)
Theorem C06_predecessors_exact_file : forall (B : N -> blob) ig ov h n k,
  Forall no_alias h -> Forall (wfB_op B) h ->
  let s := fst (runf (file_step true ig ov) file_init h) in
  In k (map gk (g_predecessors n (f_graph s))) <->
  In k (map fst (g_nodes (f_graph s))) /\ In (gk n) (succ_of k (B (k_dig k))).
Proof. exact file_preds_exact. Qed.
Print Assumptions C06_predecessors_exact_file.

(* ... and every Push that succeeded (not discarded by IgnoreNoName) is indexed for ever *)
Theorem C06_push_ok_indexed_file : forall fx ig ov s d c h2,
  (ig = false \/ d_name d <> 0) ->
  snd (file_step fx ig ov s (Push d c)) = FO OOk ->
  indexed (gk d) (fst (runf (file_step fx ig ov) (fst (file_step fx ig ov s (Push d c))) h2)).
Proof. exact file_push_ok_indexed. Qed.
Print Assumptions C06_push_ok_indexed_file.

Example C06_ex_file_graph_wf : Forall (wfB_op fgx_B) fgx_hist /\ Forall no_alias fgx_hist.
Proof. exact fgx_wf. Qed.
Example C06_ex_file_graph_run :
  snd (runf (file_step true false false) file_init fgx_hist) = [FO OOk; FO OOk; FO (OPreds [(1, 9, 20)])].
Proof. exact fgx_run. Qed.

(* Resolve returns the descriptor most recently tagged *)
Theorem C06_resolve_latest_file : forall fx ig ov s d r h2,
  r <> REmpty ->
  snd (file_step fx ig ov s (Tag d r)) = FO OOk -> forallb (fun o => negb (tags_ref r o)) h2 = true ->
  snd (file_step fx ig ov (fst (runf (file_step fx ig ov) (fst (file_step fx ig ov s (Tag d r))) h2)) (Resolve r))
  = FO (ODesc d).
Proof. exact file_resolve_latest. Qed.
Print Assumptions C06_resolve_latest_file.

(* repaired code: a refused or failed operation leaves the whole state (names,
   digestToPath, files, fallback, tags, graph) unchanged -- in histories without the
   aliasing name and without titled successors ([untitled]: restoreDuplicates has nothing
   to restore).  With titled successors the statement is refuted below (audit F1). *)
Theorem C06_failed_noop_file_partial : forall ig ov h o,
  Forall no_alias h -> Forall untitled h -> no_alias o -> untitled o ->
  let s := fst (runf (file_step true ig ov) file_init h) in
  fout_is_err (snd (file_step true ig ov s o)) = true -> fst (file_step true ig ov s o) = s.
Proof. exact file_failed_noop. Qed.
Print Assumptions C06_failed_noop_file_partial.

(* code as found (fixed = false): refuted -- the witness is the finding failed-push-left-file *)
Theorem C06_failed_noop_file_prefix_refuted :
  snd (runf (file_step false false true) file_init [Push w_named w_bad; Push w_named w_good])
    = [FO (OErr EMismatch); FE FOverwrite] /\
  snd (runf (file_step false false true) file_init [Push w_named w_good]) = [FO OOk] /\
  snd (runf (file_step true false true) file_init [Push w_named w_bad; Push w_named w_good])
    = [FO (OErr EMismatch); FO OOk].
Proof. exact file_failed_noop_prefix_witness. Qed.
Print Assumptions C06_failed_noop_file_prefix_refuted.

(* a name is written once *)
Theorem C06_duplicate_name_file : forall fx ig ov s d c,
  d_name d <> 0 -> In (d_name d) (f_names s) ->
  file_step fx ig ov s (Push d c) = (s, FE FDuplicateName).
Proof. exact file_duplicate_name. Qed.
Print Assumptions C06_duplicate_name_file.

(* known findings, as witnesses on the model of the current code *)
Theorem C06_push_present_refused_file_refuted :
  let s := fst (runf (file_step true false false) file_init [Push w_named w_good]) in
  file_exists w_unnamed s = true /\
  snd (file_step true false false s (Push w_unnamed w_good)) = FO OOk.
Proof. exact file_push_present_witness. Qed.
Print Assumptions C06_push_present_refused_file_refuted.

Theorem C06_fetch_returns_pushed_file_refuted :
  snd (runf (file_step true false false) file_init [Push w_unnamed w_trailing; Fetch w_unnamed])
    = [FO OOk; FO (OBytes 1 5)] /\ b_len w_trailing = 6.
Proof. exact file_trailing_witness. Qed.
Print Assumptions C06_fetch_returns_pushed_file_refuted.

(* known finding file-restore-failed-after-store: restoreDuplicates runs after the content is
   stored; when it fails (here: a layer titled with a name outside the working directory)
   Push returns the error, yet the manifest exists, a re-push is already-exists, and (since
   the content is indexed before the restore) Predecessors lists it *)
Theorem C06_failed_noop_file_titled_refuted :
  snd (runf (file_step true false false) file_init
            [Push w_layer w_good; Push w_manifest w_manifest_blob; Exists w_manifest;
             Push w_manifest w_manifest_blob; Preds w_layer])
    = [FO OOk; FE FTraversal; FO (OBool true); FO (OErr EAlreadyExists); FO (OPreds [(1, 9, 20)])].
Proof. exact file_restore_fails_witness. Qed.
Print Assumptions C06_failed_noop_file_titled_refuted.

Theorem C06_fetch_matches_digest_file_alias_refuted :
  snd (runf (file_step true false false) file_init
            [Push w_named w_good; Push w_alias (mkBlob 2 5 [] 2 []); Fetch w_named])
    = [FO OOk; FO OOk; FO (OBytes 2 5)] /\ d_dig w_named = 1.
Proof. exact file_alias_witness. Qed.
Print Assumptions C06_fetch_matches_digest_file_alias_refuted.

(* known finding oci-racing-pushes-all-succeed: under the schedule [0;1;0;1] two goroutines
   pushing the same blob both pass the stat check and both rename their temp file onto the
   blob path (both Push calls return nil); every sequential order refuses the second *)
Theorem C06_repush_refused_oci_racing_refuted :
  map ot_pc (oc_threads (oconf_run (oconf_init orace_progs) [0; 1; 0; 1]%nat)) = [OPush3 ex_layer; OPush3 ex_layer] /\
  snd (run oci_step oci_init (concat orace_progs)) = [OOk; OErr EAlreadyExists].
Proof. exact orace_both_renamed. Qed.
Print Assumptions C06_repush_refused_oci_racing_refuted.

(* ---- tie to the source ---- *)
(* the media types descriptor.IsManifest accepts are exactly those content.Successors
   decodes, and there are five of them (the model's media type ids 1..5) *)
Theorem C06_manifest_types_from_source :
  ((forall x, In x isManifest_cases <-> In x successors_cases) /\
   (length isManifest_cases = 5%nat) /\ NoDup isManifest_cases)%type.
Proof. exact manifest_types_from_source. Qed.
Print Assumptions C06_manifest_types_from_source.

(* the order of effects the hand-written step functions mirror (store before index before
   restore, stat before rename before index before tag, untag before graph.Remove before
   storage.Delete, Load before ReadAll before LoadOrStore and no plain Store, ...) is the
   order of the calls in the Go sources as re-read on every run *)
Theorem C06_call_order_from_source : forallb (fun x => x) call_order_checks = true.
Proof. exact call_order_from_source. Qed.
Print Assumptions C06_call_order_from_source.

(* ---- the hypotheses are satisfiable: a concrete universe and history (Proofs/Stores.v) ---- *)
Example C06_ex_U_dig : forall g, k_dig (ex_U g) = g.
Proof. exact ex_U_dig. Qed.

Example C06_ex_canon : Forall (canon_op ex_U) ex_hist.
Proof. exact ex_canon. Qed.

Example C06_ex_run :
  snd (run oci_step oci_init ex_hist) =
  [ OOk; OOk; OErr EAlreadyExists; OOk; ODesc ex_man; ODesc (mkDesc 0 2 5 0);
    OPreds [(1, 1, 10)]; OOk; OErr ENotFound; OPreds []; OErr ENotFound ].
Proof. exact ex_run. Qed.
