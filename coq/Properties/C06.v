From Oras Require Import Base.Prelude Model.Stores Proofs.Stores.
Theorem C06_mem_push_present_noop : forall s d c x,
  get gkey_eqb (gk d) (m_cas s) = Some x -> mem_step s (Push d c) = (s, OErr EAlreadyExists).
Proof. exact mem_push_present_noop. Qed.
Print Assumptions C06_mem_push_present_noop.
