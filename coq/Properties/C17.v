(* C17 -- Re-sent requests carry the whole body; retries are bounded and paced.
   Only statements closed by [exact]; the lemmas live in Proofs/Retry.v.  The model
   (Model/Retry.v) is tied to registry/remote/retry and registry/remote/auth by the
   translator (Generated/GC17.v: DefaultPolicy numbers, DefaultPredicate status
   branch, whether the jitter draw is guarded) and by the correspondence run. *)
From Coq Require Import QArith.
From Oras Require Import Base.Prelude Base.RetryTypes Generated.GC17 Model.Retry Proofs.Retry Proofs.RetryParse.
Open Scope Z_scope.

(* --- pacing ---------------------------------------------------------- *)

(* every pause GenericPolicy.Retry computes lies within [MinWait, MaxWait]: any
   predicate, any backoff function, any attempt number, any answer *)
Theorem C17_pause_bounds :
  forall (p : policy) (attempt : Z) (o : outcome) (d : Z),
    p_min p <= p_max p -> generic_retry p attempt o = DWait d -> p_min p <= d <= p_max p.
Proof. exact generic_retry_bounds. Qed.
Print Assumptions C17_pause_bounds.

(* GenericPolicy.Retry as translated statement by statement from policy.go
   (Generated.GC17.generated_retry) is the decision with the clamp in closed form *)
Theorem C17_retry_decision_closed_form :
  forall p attempt o,
    generic_retry p attempt o =
    if attempt >=? p_max_retry p then DStop
    else match p_pred p o with
         | PFail => DFail
         | PStop => DStop
         | PRetry => match p_backoff p attempt o with
                     | BPanic => DPanic
                     | BRet x => DWait (clamp (p_min p) (p_max p) x)
                     end
         end.
Proof. exact generic_retry_eq. Qed.
Print Assumptions C17_retry_decision_closed_form.

(* the bounds are meant for MinWait <= MaxWait; for an ill-formed policy (MinWait > MaxWait)
   the code as written yields MaxWait for every pause *)
Theorem C17_pause_min_gt_max :
  forall (p : policy) (attempt : Z) (o : outcome) (d : Z),
    p_max p < p_min p -> generic_retry p attempt o = DWait d -> d = p_max p.
Proof. exact generic_retry_min_gt_max. Qed.
Print Assumptions C17_pause_min_gt_max.

(* ... hence every pause the transport actually makes, for every script, body,
   cancellation and policy *)
Theorem C17_trace_pauses :
  forall p cn bd st sc t,
    p_min p <= p_max p ->
    Forall (fun td => p_min p <= snd td <= p_max p /\ 0 <= snd td)
           (pauses (o_trace (round_trip p cn bd st sc t))).
Proof. exact round_trip_pauses. Qed.
Print Assumptions C17_trace_pauses.

(* a usable Retry-After on 429 is honoured within the bounds (ExponentialBackoff,
   original or repaired; any float conversion, any random source) *)
Theorem C17_retry_after :
  forall guarded oob rnd e maxretry minw maxw pred attempt h ch n,
    h <> [] -> parse_int64 h = n -> 0 < n -> n * 1000000000 < two63 ->
    attempt < maxretry -> pred (OStatus 429 h ch) = PRetry ->
    generic_retry (mkPolicy maxretry minw maxw pred (exp_backoff_gen guarded oob rnd e)) attempt (OStatus 429 h ch)
    = DWait (clamp minw maxw (n * 1000000000)).
Proof. exact retry_after_honoured. Qed.
Print Assumptions C17_retry_after.

(* --- bounded attempts -------------------------------------------------- *)

(* at least one and at most MaxRetry+1 attempts per send *)
Theorem C17_attempts :
  forall p cn bd st sc t,
    let n := Z.of_nat (length (attempts (o_trace (round_trip p cn bd st sc t)))) in
    1 <= n <= Z.max 0 (p_max_retry p) + 1.
Proof. exact round_trip_attempts. Qed.
Print Assumptions C17_attempts.

(* the auth client sends at most three times (twice with an empty token cache),
   each send bounded the same way *)
Theorem C17_auth_attempts :
  forall warm p cn bd sc,
    let a := auth_do warm p cn bd sc in
    1 <= Z.of_nat (length (attempts (a_first a))) <= Z.max 0 (p_max_retry p) + 1 /\
    Z.of_nat (length (attempts (a_second a))) <= Z.max 0 (p_max_retry p) + 1 /\
    Z.of_nat (length (attempts (a_third a))) <= Z.max 0 (p_max_retry p) + 1.
Proof. exact auth_do_attempts. Qed.
Print Assumptions C17_auth_attempts.

(* a non-retryable answer is returned at once: one attempt, that answer (or, when the
   predicate itself failed, its error) *)
Theorem C17_nonretryable_at_once :
  forall p cn bd st sc t bh sc' got st1 o t1,
    next_beh sc = (bh, sc') -> serve cn bd st bh t = (got, st1, o, t1) ->
    p_pred p o <> PRetry ->
    exists r, (r = result_of_outcome o \/ r = fail_result o) /\
              round_trip p cn bd st sc t = mkOut r st1 sc' t1 [EAttempt t got].
Proof. exact round_trip_nonretryable. Qed.
Print Assumptions C17_nonretryable_at_once.

(* ... on the whole trace (no cancellation): every answer but the last was retryable for the
   policy's predicate, and the call returns the last answer (or the predicate's error for it,
   or the backoff's panic) *)
Theorem C17_stops_at_first_nonretryable :
  forall p bd st sc t,
    let out := round_trip p None bd st sc t in
    let n := length (attempts (o_trace out)) in
    (forall i, (S i < n)%nat -> p_pred p (b_out (nth i sc default_beh)) = PRetry) /\
    (1 <= n)%nat /\
    (o_res out = result_of_outcome (last_answer sc n) \/ o_res out = fail_result (last_answer sc n) \/
     o_res out = RPanic).
Proof. exact round_trip_stops_at_first_nonretryable. Qed.
Print Assumptions C17_stops_at_first_nonretryable.

(* --- refinement to a stateless specification ------------------------------------------ *)

(* For a body that can always be replayed and a context that never ends, Transport.RoundTrip --
   request state, GetBody counter, script threading, trace -- computes exactly spec_send: result,
   end instant and the list (instant, bytes received) of all attempts, where attempt i receives
   the prefix server i reads of the whole body and the pauses are the policy's decisions *)
Theorem C17_round_trip_refines_spec :
  forall p bd sc t,
    wf_body bd -> replayable bd ->
    let out := round_trip p None bd (init_state bd) sc t in
    (o_res out, o_time out, attempts (o_trace out)) = spec_send p bd sc t.
Proof. exact round_trip_refines_spec. Qed.
Print Assumptions C17_round_trip_refines_spec.

(* ... and so does the whole auth stack (first send, token request through the same transport,
   re-send): result, end instant and the attempts of all three sends are those of spec_auth,
   built from three uses of spec_send *)
Theorem C17_auth_refines_spec :
  forall p bd sc tb tsc,
    wf_body bd -> replayable bd -> wf_body tb -> replayable tb ->
    let a := auth_do_tok p None bd sc tb tsc in
    (ak_res a, ak_time a, attempts (ak_first a), attempts (ak_token a), attempts (ak_second a))
    = spec_auth p bd sc tb tsc.
Proof. exact auth_do_tok_refines_spec. Qed.
Print Assumptions C17_auth_refines_spec.

(* ... and the whole blob push (POST, its token request, PUT, its token request) refines the
   stateless spec_push built from spec_send *)
Theorem C17_blob_push_refines_spec :
  forall authc p bd sc tb tsc,
    wf_body bd -> replayable bd -> wf_body tb -> replayable tb ->
    let u := blob_push_tok authc p None bd sc tb tsc in
    (uk_res u, uk_time u, show_authk (uk_post u), option_map show_authk (uk_put u))
    = spec_push authc p bd sc tb tsc.
Proof. exact blob_push_tok_refines_spec. Qed.
Print Assumptions C17_blob_push_refines_spec.

(* --- the same refinements under cancellation ----------------------------------------------- *)

(* for EVERY context (never ending, ending at any instant, over before the call): the transport
   computes spec_send_c, whose attempts are cut short by the context and whose pauses end the
   call with the context's error exactly as the specification says *)
Theorem C17_round_trip_refines_spec_c :
  forall p cn bd sc t,
    wf_body bd -> replayable bd ->
    let out := round_trip p cn bd (init_state bd) sc t in
    (o_res out, o_time out, attempts (o_trace out)) = spec_send_c p cn bd sc t.
Proof. exact round_trip_refines_spec_c. Qed.
Print Assumptions C17_round_trip_refines_spec_c.

Theorem C17_auth_refines_spec_c :
  forall p cn bd sc tb tsc t0,
    wf_body bd -> replayable bd -> wf_body tb -> replayable tb ->
    let a := auth_do_tok_at p cn bd sc tb tsc t0 in
    (ak_res a, ak_time a, attempts (ak_first a), attempts (ak_token a), attempts (ak_second a))
    = spec_auth_at_c p cn bd sc tb tsc t0.
Proof. exact auth_do_tok_at_refines_spec_c. Qed.
Print Assumptions C17_auth_refines_spec_c.

Theorem C17_auth_warm_refines_spec_c :
  forall p cn bd sc tb tsc t0,
    wf_body bd -> replayable bd -> wf_body tb -> replayable tb ->
    let a := auth_do_tokw_at p cn bd sc tb tsc t0 in
    (aw_res a, aw_time a, attempts (aw_first a), attempts (aw_second a), attempts (aw_token a), attempts (aw_third a))
    = spec_authw_at_c p cn bd sc tb tsc t0.
Proof. exact auth_do_tokw_at_refines_spec_c. Qed.
Print Assumptions C17_auth_warm_refines_spec_c.

Theorem C17_blob_push_refines_spec_c :
  forall authc p cn bd sc tb tsc,
    wf_body bd -> replayable bd -> wf_body tb -> replayable tb ->
    let u := blob_push_tok authc p cn bd sc tb tsc in
    (uk_res u, uk_time u, show_authk (uk_post u), option_map show_authk (uk_put u))
    = spec_push_c authc p cn bd sc tb tsc.
Proof. exact blob_push_tok_refines_spec_c. Qed.
Print Assumptions C17_blob_push_refines_spec_c.

(* --- bodies ---------------------------------------------------------------- *)

(* on attempt i the registry receives exactly what it reads of the complete original
   body: [received bd bh] is a prefix of the body, the whole body when the server
   reads to the end *)
Theorem C17_body_complete :
  forall p cn bd sc st t,
    wf_body bd -> s_rest st = bdata bd ->
    forall i t' got, nth_error (attempts (o_trace (round_trip p cn bd st sc t))) i = Some (t', got) ->
      got = received bd (nth i sc default_beh).
Proof. exact round_trip_bodies. Qed.
Print Assumptions C17_body_complete.

Theorem C17_received_whole :
  forall bd bh, b_read bh = None -> received bd bh = bdata bd.
Proof. exact received_all. Qed.
Print Assumptions C17_received_whole.

Theorem C17_received_prefix :
  forall bd bh, exists rest, bdata bd = received bd bh ++ rest.
Proof. exact received_prefix. Qed.
Print Assumptions C17_received_prefix.

(* the same through the auth client: first send and every re-send after a challenge
   (cached token, fresh token) *)
Theorem C17_body_complete_auth :
  forall warm p cn bd sc,
    wf_body bd ->
    let a := auth_do warm p cn bd sc in
    forall i t got,
      nth_error (attempts (a_first a) ++ attempts (a_second a) ++ attempts (a_third a)) i = Some (t, got) ->
      got = received bd (nth (0 + i) sc default_beh).
Proof. exact auth_do_bodies. Qed.
Print Assumptions C17_body_complete_auth.

(* the statuses on which the re-send logic branches, as read from the sources (StatusCode
   comparisons of auth.Client.Do, fetch*Token, blobStore.Push / completePushAfterInitialPost /
   Mount, manifestStore.push, in source order): challenge 401, token 200, upload session 202,
   created 201 *)
Theorem C17_status_constants :
  challenge_status = 401 /\ challenge_status_2 = 401 /\ token_ok_status = 200 /\ accepted_status = 202 /\
  fetch_oauth2_status_cmps = fetch_distribution_status_cmps /\
  blob_put_status_cmps = [(1, 201)] /\ manifest_push_status_cmps = [(1, 201)] /\
  blob_mount_status_cmps = [(0, 201); (1, 202)].
Proof. exact status_constants. Qed.
Print Assumptions C17_status_constants.

(* --- the token request of a Bearer challenge, inside the model ------------------------- *)

(* auth.Client.Do with the token request spelled out (fetchDistributionToken: GET without body;
   fetchOAuth2Token: POST with a replayable form; both through the same retrying transport):
   every request to the registry (first send, re-send) carries the whole body, and every
   attempt of the token request carries the whole form, as far as each is read *)
Theorem C17_token_bodies :
  forall p cn bd sc tb tsc,
    wf_body bd -> wf_body tb ->
    let a := auth_do_tok p cn bd sc tb tsc in
    (forall i t got, nth_error (attempts (ak_first a) ++ attempts (ak_second a)) i = Some (t, got) ->
       got = received bd (nth (0 + i) sc default_beh)) /\
    (forall i t got, nth_error (attempts (ak_token a)) i = Some (t, got) ->
       got = received tb (nth (0 + i) tsc default_beh)).
Proof. exact auth_do_tok_bodies. Qed.
Print Assumptions C17_token_bodies.

(* each of the three sends (registry, token service, registry again) is bounded *)
Theorem C17_token_attempts :
  forall p cn bd sc tb tsc,
    let a := auth_do_tok p cn bd sc tb tsc in
    1 <= Z.of_nat (length (attempts (ak_first a))) <= Z.max 0 (p_max_retry p) + 1 /\
    Z.of_nat (length (attempts (ak_token a))) <= Z.max 0 (p_max_retry p) + 1 /\
    Z.of_nat (length (attempts (ak_second a))) <= Z.max 0 (p_max_retry p) + 1.
Proof. exact auth_do_tok_attempts. Qed.
Print Assumptions C17_token_attempts.

(* a body that cannot be replayed reaches the registry once, whatever the token service does *)
Theorem C17_token_not_replayable :
  forall p cn bd sc tb tsc,
    (forall st', rewind bd st' = RwNoGetBody \/ rewind bd st' = RwGetBodyErr) ->
    let a := auth_do_tok p cn bd sc tb tsc in
    length (attempts (ak_first a)) = 1%nat /\ ak_second a = [].
Proof. exact auth_do_tok_not_replayable. Qed.
Print Assumptions C17_token_not_replayable.

(* cancellation over the registry sends and the token request *)
Theorem C17_token_cancel :
  forall p bd sc tb tsc tc dl,
    let a := auth_do_tok p (Some (tc, dl)) bd sc tb tsc in
    Forall (fun x => fst x < tc) (tl (attempts (ak_first a))) /\
    Forall (fun x => fst x < tc) (tl (attempts (ak_token a))) /\
    Forall (fun x => fst x < tc) (tl (attempts (ak_second a))) /\
    ak_time a <= Z.max 0 tc /\
    Forall (fun pd => fst pd + snd pd < tc \/ (ak_res a = RCtx /\ ak_time a = Z.max (fst pd) tc))
           (pauses (ak_first a) ++ pauses (ak_token a) ++ pauses (ak_second a)).
Proof. exact auth_do_tok_cancel. Qed.
Print Assumptions C17_token_cancel.

(* the same with a warm Bearer cache (cached token tried first, fresh token fetched when it is
   refused): bodies of all three sends and of the token request, bounds, one-shot, cancellation *)
Theorem C17_token_warm_bodies :
  forall p cn bd sc tb tsc t0,
    wf_body bd -> wf_body tb ->
    let a := auth_do_tokw_at p cn bd sc tb tsc t0 in
    bodies_ok bd sc 0 (attempts (aw_first a) ++ attempts (aw_second a) ++ attempts (aw_third a)) /\
    bodies_ok tb tsc 0 (attempts (aw_token a)).
Proof. exact auth_do_tokw_at_bodies. Qed.
Print Assumptions C17_token_warm_bodies.

Theorem C17_token_warm_attempts :
  forall p cn bd sc tb tsc t0,
    let a := auth_do_tokw_at p cn bd sc tb tsc t0 in
    1 <= Z.of_nat (length (attempts (aw_first a))) <= Z.max 0 (p_max_retry p) + 1 /\
    Z.of_nat (length (attempts (aw_second a))) <= Z.max 0 (p_max_retry p) + 1 /\
    Z.of_nat (length (attempts (aw_token a))) <= Z.max 0 (p_max_retry p) + 1 /\
    Z.of_nat (length (attempts (aw_third a))) <= Z.max 0 (p_max_retry p) + 1.
Proof. exact auth_do_tokw_at_attempts. Qed.
Print Assumptions C17_token_warm_attempts.

Theorem C17_token_warm_not_replayable :
  forall p cn bd sc tb tsc t0,
    (forall st', rewind bd st' = RwNoGetBody \/ rewind bd st' = RwGetBodyErr) ->
    let a := auth_do_tokw_at p cn bd sc tb tsc t0 in
    length (attempts (aw_first a)) = 1%nat /\ aw_second a = [] /\ aw_token a = [] /\ aw_third a = [].
Proof. exact auth_do_tokw_at_not_replayable. Qed.
Print Assumptions C17_token_warm_not_replayable.

Theorem C17_token_warm_cancel :
  forall p bd sc tb tsc t0 tc dl,
    authw_cancel_post tc t0 (auth_do_tokw_at p (Some (tc, dl)) bd sc tb tsc t0).
Proof. exact auth_do_tokw_at_cancel. Qed.
Print Assumptions C17_token_warm_cancel.

(* the coarser model auth_do (token served at once) is auth_do_tok with a token service that
   answers 200 immediately *)
Theorem C17_token_instant_refines :
  forall p bd sc tb,
    p_pred p (OStatus 200 [] 0%N) = PStop ->
    let a := auth_do false p None bd sc in
    let k := auth_do_tok p None bd sc tb [] in
    ak_res k = a_res a /\ ak_first k = a_first a /\ ak_second k = a_second a /\ ak_time k = a_time a.
Proof. exact auth_do_tok_instant. Qed.
Print Assumptions C17_token_instant_refines.

(* the two rewind decisions as translated from auth.rewindRequestBody and from the rewind block
   of Transport.RoundTrip (Generated.GC17.generated_auth_rewind / generated_rt_rewind), by body
   kind: they differ exactly on http.NoBody without GetBody *)
Theorem C17_rewind_closed_form :
  forall bd st, rewind bd st = rewind_closed bd st /\ rt_rewind bd st = rt_rewind_closed bd st.
Proof. exact (fun bd st => conj (rewind_eq bd st) (rt_rewind_eq bd st)). Qed.
Print Assumptions C17_rewind_closed_form.

(* a body that cannot be replayed (no GetBody, or GetBody failing) is sent once; the
   transport ends with that answer (or the policy's panic) *)
Theorem C17_not_replayable_once :
  forall p cn bd st sc t,
    (forall st', rewind bd st' = RwNoGetBody \/ rewind bd st' = RwGetBodyErr) ->
    exists bh sc' got st1 o t1,
      next_beh sc = (bh, sc') /\ serve cn bd st bh t = (got, st1, o, t1) /\
      o_trace (round_trip p cn bd st sc t) = [EAttempt t got] /\
      (o_res (round_trip p cn bd st sc t) = result_of_outcome o \/
       o_res (round_trip p cn bd st sc t) = fail_result o \/
       o_res (round_trip p cn bd st sc t) = RPanic).
Proof. exact round_trip_not_replayable. Qed.
Print Assumptions C17_not_replayable_once.

Theorem C17_oneshot_is_not_replayable :
  forall bd, bk bd = KOneShot ->
    forall st', rewind bd st' = RwNoGetBody \/ rewind bd st' = RwGetBodyErr.
Proof. exact oneshot_not_replayable. Qed.
Print Assumptions C17_oneshot_is_not_replayable.

(* ... and the auth client answers a challenge with the rewind error, never a re-send *)
Theorem C17_not_replayable_auth :
  forall warm p cn bd sc,
    (forall st', rewind bd st' = RwNoGetBody \/ rewind bd st' = RwGetBodyErr) ->
    let a := auth_do warm p cn bd sc in
    length (attempts (a_first a)) = 1%nat /\ a_second a = [] /\ a_third a = [] /\
    (a_res a = RNotRewindable \/ a_res a = RGetBodyFailed \/
     a_res a = o_res (round_trip p cn bd (init_state bd) sc 0)) /\
    (challenged (o_res (round_trip p cn bd (init_state bd) sc 0)) = true ->
     a_res a = RNotRewindable \/ a_res a = RGetBodyFailed).
Proof. exact auth_do_not_replayable. Qed.
Print Assumptions C17_not_replayable_auth.

(* manifest push through an auth client: a one-shot body is buffered and becomes replayable *)
Theorem C17_manifest_push_buffered :
  forall bd, bk (manifest_push_body true bd) <> KOneShot /\ bdata (manifest_push_body true bd) = bdata bd.
Proof. exact manifest_push_replayable. Qed.
Print Assumptions C17_manifest_push_buffered.

(* blob push (POST, then PUT with the blob; the PUT re-uses the POST's Authorization or is
   an ordinary request of the auth client): every request of the PUT carries the blob as far
   as the registry reads it, at the script position after the POST's requests *)
Theorem C17_blob_push_bodies :
  forall authc warm0 p cn bd sc,
    wf_body bd ->
    match u_put (blob_push_gen authc warm0 p cn bd sc) with
    | Some put => forall i t got, nth_error (auth_attempts put) i = Some (t, got) ->
        got = received bd (nth (length (auth_attempts (u_post (blob_push_gen authc warm0 p cn bd sc))) + i) sc default_beh)
    | None => True
    end.
Proof. exact blob_push_bodies. Qed.
Print Assumptions C17_blob_push_bodies.

(* a one-shot blob reaches the registry in exactly one request of the PUT *)
Theorem C17_blob_push_oneshot_once :
  forall authc warm0 p cn bd sc,
    (forall st', rewind bd st' = RwNoGetBody \/ rewind bd st' = RwGetBodyErr) ->
    match u_put (blob_push_gen authc warm0 p cn bd sc) with
    | Some put => length (auth_attempts put) = 1%nat
    | None => True
    end.
Proof. exact blob_push_not_replayable. Qed.
Print Assumptions C17_blob_push_oneshot_once.

(* blob push / mount fallback with the token requests spelled out (the POST may fetch a token,
   and so may the PUT when it does not inherit the POST's credentials): every PUT request
   carries the blob as far as it is read; every token request of the push carries its form *)
Theorem C17_blob_push_tok_bodies :
  forall authc p cn bd sc tb tsc,
    wf_body bd -> wf_body tb ->
    let u := blob_push_tok authc p cn bd sc tb tsc in
    bodies_ok tb tsc 0 (attempts (ak_token (uk_post u))) /\
    match uk_put u with
    | Some put =>
      bodies_ok bd sc (length (authk_attempts (uk_post u))) (authk_attempts put) /\
      bodies_ok tb tsc (length (attempts (ak_token (uk_post u)))) (attempts (ak_token put))
    | None => True
    end.
Proof. exact blob_push_tok_bodies. Qed.
Print Assumptions C17_blob_push_tok_bodies.

Theorem C17_blob_push_tok_oneshot_once :
  forall authc p cn bd sc tb tsc,
    (forall st', rewind bd st' = RwNoGetBody \/ rewind bd st' = RwGetBodyErr) ->
    match uk_put (blob_push_tok authc p cn bd sc tb tsc) with
    | Some put => length (authk_attempts put) = 1%nat
    | None => True
    end.
Proof. exact blob_push_tok_not_replayable. Qed.
Print Assumptions C17_blob_push_tok_oneshot_once.

Theorem C17_blob_push_tok_cancel :
  forall authc p bd sc tb tsc tc dl,
    let u := blob_push_tok authc p (Some (tc, dl)) bd sc tb tsc in
    authk_cancel_post_at tc 0 (uk_res u) (uk_time u) (uk_post u) /\
    uk_time u <= Z.max 0 tc /\
    match uk_put u with
    | Some put => exists t1, t1 <= Z.max 0 tc /\ authk_cancel_post_at tc t1 (uk_res u) (uk_time u) put
    | None => True
    end.
Proof. exact blob_push_tok_cancel. Qed.
Print Assumptions C17_blob_push_tok_cancel.

(* a cross-repository mount the registry declines (202) falls back to the same POST/PUT
   protocol with a body read from an io.ReadCloser: the PUT is exactly one request *)
Theorem C17_mount_fallback_once :
  forall authc warm0 p cn data sc,
    match u_put (blob_push_gen authc warm0 p cn (mkBody KOneShot data) sc) with
    | Some put => length (auth_attempts put) = 1%nat
    | None => True
    end.
Proof. exact mount_fallback_once. Qed.
Print Assumptions C17_mount_fallback_once.

(* --- cancellation -------------------------------------------------------------- *)

(* context ending at tc, call started at t -- no hypothesis on the policy (MinWait = 0 and zero
   backoff included), on t (the context may be over from the start) or on the script:
   every attempt but the first starts strictly before tc; the call is over at max(t, tc); a
   pause that the context ends in, or that begins after it ended, ends the call with the
   context's error at that instant; a context that is over at the start allows one attempt *)
Theorem C17_cancel :
  forall p bd st sc t tc dl,
    let out := round_trip p (Some (tc, dl)) bd st sc t in
    Forall (fun a => fst a < tc) (tl (attempts (o_trace out))) /\
    o_time out <= Z.max t tc /\
    Forall (fun pd => fst pd + snd pd < tc \/ (o_res out = RCtx /\ o_time out = Z.max (fst pd) tc))
           (pauses (o_trace out)) /\
    (tc <= t -> length (attempts (o_trace out)) = 1%nat).
Proof. exact round_trip_cancel. Qed.
Print Assumptions C17_cancel.

(* the select of the source as it was (defect, fixed): a pause ending at an instant at which
   the context had ended could let the loop go on *)
Theorem C17_cancel_zero_pause_prefix_refuted :
  exists cn x, ended_at cn x = true /\ pause_cancelled_gen false cn x = false.
Proof. exact pause_cancelled_prefix_refuted. Qed.
Print Assumptions C17_cancel_zero_pause_prefix_refuted.

(* the same through the auth client, over all of its sends: the call ends with the context's
   error at the instant the context ends in a pause of any send *)
Theorem C17_cancel_auth :
  forall warm p bd sc tc dl,
    let a := auth_do warm p (Some (tc, dl)) bd sc in
    Forall (fun x => fst x < tc) (tl (attempts (a_first a))) /\
    Forall (fun x => fst x < tc) (tl (attempts (a_second a))) /\
    Forall (fun x => fst x < tc) (tl (attempts (a_third a))) /\
    a_time a <= Z.max 0 tc /\
    Forall (fun pd => fst pd + snd pd < tc \/ (a_res a = RCtx /\ a_time a = Z.max (fst pd) tc))
           (all_pauses a).
Proof. exact auth_do_cancel. Qed.
Print Assumptions C17_cancel_auth.

(* ... and through a blob push (POST, then PUT) *)
Theorem C17_cancel_blob_push :
  forall authc warm0 p bd sc tc dl,
    let u := blob_push_gen authc warm0 p (Some (tc, dl)) bd sc in
    sends_cancel_post tc 0 (u_res u) (u_time u) (u_post u) /\
    u_time u <= Z.max 0 tc /\
    match u_put u with
    | Some put => exists t1, t1 <= Z.max 0 tc /\ sends_cancel_post tc t1 (u_res u) (u_time u) put
    | None => True
    end.
Proof. exact blob_push_cancel. Qed.
Print Assumptions C17_cancel_blob_push.

(* --- totality of the backoff (F7) ------------------------------------------------- *)

(* the arithmetic and the Retry-After constants of ExponentialBackoff as translated from the
   source (the Generated.GC17.generated_backoff definitions): temp = backoff x factor^attempt, base interval
   temp x (1-jitter), jitter bound 2 x jitter x temp; Retry-After on 429, positive, in seconds *)
Theorem C17_backoff_arith_closed_form :
  forall e attempt,
    exp_temp e attempt = (inject_Z (e_base e) * Qpower (e_factor e) attempt)%Q /\
    exp_a e attempt = (exp_temp e attempt * (1 - e_jitter e))%Q /\
    exp_n e attempt = ((2 # 1) * e_jitter e * exp_temp e attempt)%Q /\
    generated_backoff_retry_after_status = 429 /\ generated_backoff_retry_after_unit = 1000000000 /\
    (forall ra, generated_backoff_retry_after_ok ra = (ra >? 0)).
Proof. exact exp_arith_eq. Qed.
Print Assumptions C17_backoff_arith_closed_form.

(* the source as it is now (guard flag re-read from policy.go): ExponentialBackoff
   returns for every parameter choice, attempt and answer *)
Theorem C17_backoff_total :
  forall oob rnd e attempt o, exists d, exp_backoff oob rnd e attempt o = BRet d.
Proof. exact exp_backoff_total. Qed.
Print Assumptions C17_backoff_total.

(* the original source did not: zero jitter panics in rand.Int64N *)
Theorem C17_backoff_total_prefix_refuted :
  exists e attempt o, forall oob rnd, exp_backoff_prefix oob rnd e attempt o = BPanic.
Proof. exact exp_backoff_prefix_refuted. Qed.
Print Assumptions C17_backoff_total_prefix_refuted.

(* a transport whose backoff cannot panic never panics, and the loop of the model
   never runs out of fuel *)
Theorem C17_no_panic :
  forall p cn bd st sc t,
    (forall a o, p_backoff p a o <> BPanic) ->
    o_res (round_trip p cn bd st sc t) <> RPanic /\ o_res (round_trip p cn bd st sc t) <> RFuel.
Proof. exact round_trip_no_panic_no_fuel. Qed.
Print Assumptions C17_no_panic.

(* the loop of the model terminates by itself: the fuel artefact is unreachable for every
   policy (so the attempt bound of C17_attempts is not an effect of the fuel) *)
Theorem C17_no_fuel :
  forall p cn bd st sc t, o_res (round_trip p cn bd st sc t) <> RFuel.
Proof. exact round_trip_no_fuel. Qed.
Print Assumptions C17_no_fuel.

Theorem C17_default_policy_never_panics :
  forall oob rnd a o, p_backoff (default_policy oob rnd) a o <> BPanic.
Proof. exact default_policy_never_panics. Qed.
Print Assumptions C17_default_policy_never_panics.

(* --- the documented defaults (generated from policy.go) ------------------------------ *)

Theorem C17_default_predicate_status :
  forall c, default_predicate_status c = true <-> (c = 408 \/ c = 429 \/ c = 0 \/ 500 <= c).
Proof. exact default_predicate_status_spec. Qed.
Print Assumptions C17_default_predicate_status.

(* transport errors: only a net.Error value reporting Timeout() is retried -- Temporary()
   alone (EMFILE, temporary DNS failures ...) is not; generated from the error branch *)
Theorem C17_default_predicate_error :
  forall ne to tmp, default_predicate (OErr ne to tmp) = PRetry <-> (ne = true /\ to = true).
Proof. exact default_predicate_error_outcome. Qed.
Print Assumptions C17_default_predicate_error.

Theorem C17_default_policy_wellformed :
  0 < default_min_wait /\ default_min_wait <= default_max_wait /\ 0 <= default_max_retry.
Proof. exact default_policy_wellformed. Qed.
Print Assumptions C17_default_policy_wellformed.

(* --- the acceptor of the correspondence run ------------------------------------------- *)

(* the jitter is random and float64 rounds, so the run compares an observed decision of
   GenericPolicy{DefaultPredicate, ExponentialBackoff} through [accept_decision]; it never
   rejects what the model can produce (random draw within its range; a float below -2^63
   does not convert to a positive integer) *)
Theorem C17_acceptor_complete :
  forall guarded oob rnd e maxretry minw maxw attempt o,
    (forall n, 0 < n -> 0 <= rnd n < n) ->
    (forall q, qtrunc q < - two63 -> oob q <= 0) ->
    accept_decision guarded maxretry minw maxw e attempt o
      (project_decision
         (generic_retry (mkPolicy maxretry minw maxw default_predicate (exp_backoff_gen guarded oob rnd e))
                        attempt o)) <> VNo.
Proof. exact accept_decision_complete. Qed.
Print Assumptions C17_acceptor_complete.

(* ... and it is sound up to its allowances: a pause it accepts (for MinWait <= MaxWait) is the
   clamp of a value that is the Retry-After delay exactly, or lies within the float64 rounding
   allowances tol_a, tol_n of the model's exact range [a, a + max(n, 0)] (a = trunc(temp*(1-jitter)),
   n = trunc(2*jitter*temp)) -- so a pause farther than that from everything the model can produce
   is rejected *)
Theorem C17_acceptor_sound :
  forall guarded maxretry minw maxw e attempt o d,
    minw <= maxw ->
    accept_decision guarded maxretry minw maxw e attempt o (ODWait d) = VYes ->
    attempt < maxretry /\ default_predicate o = PRetry /\
    exists x, d = clamp minw maxw x /\
      ((generated_backoff_retry_after_ok (retry_after_secs o) = true /\
        x = wrap64 (retry_after_secs o * generated_backoff_retry_after_unit)) \/
       (generated_backoff_retry_after_ok (retry_after_secs o) = false /\
        qtrunc (exp_a e attempt) - tol_a e attempt <= x <=
        qtrunc (exp_a e attempt) + Z.max 0 (qtrunc (exp_n e attempt)) + tol_a e attempt + tol_n e attempt)).
Proof. exact accept_decision_sound. Qed.
Print Assumptions C17_acceptor_sound.

(* --- the hypotheses are satisfiable: concrete runs ---------------------------------- *)

Definition ex_policy := table_policy default_predicate 3 100 1000 [50; 5000] 7.
Definition ex_body := mkBody KReplay (b "manifest").
Definition ex_script :=
  [mkBeh (OStatus 503 [] 0%N) None 10; mkBeh (OErr true true false) (Some 3%nat) 20; mkBeh (OStatus 200 [] 0%N) None 4].

Example ex_wf : wf_body ex_body.
Proof. intros [H|H]; discriminate. Qed.

(* two retries, pauses clamped to 100 and 1000, the whole body on attempts 1 and 3,
   the three bytes the server read on attempt 2 *)
Example ex_run :
  let out := round_trip ex_policy None ex_body (init_state ex_body) ex_script 0 in
  o_res out = RResp 200 0%N /\
  o_trace out = [EAttempt 0 (b "manifest"); EPause 10 100; EAttempt 110 (b "man"); EPause 130 1000;
                 EAttempt 1130 (b "manifest")].
Proof. vm_compute. split; reflexivity. Qed.

(* zero-length pauses and a deadline that passes while the server is busy: the call ends with
   the context's error after that attempt *)
Example ex_cancel_zero_pause :
  let p := table_policy default_predicate 5 0 1000 [] 0 in
  let out := round_trip p (Some (5, true)) ex_body (init_state ex_body)
                        [mkBeh (OStatus 503 [] 0%N) None 10; mkBeh (OStatus 503 [] 0%N) None 10] 0 in
  o_res out = RCtx /\ o_time out = 5 /\ length (attempts (o_trace out)) = 1%nat.
Proof. vm_compute. repeat split; reflexivity. Qed.

Example ex_spec :
  spec_send ex_policy ex_body ex_script 0
  = (RResp 200 0%N, 1134, [(0, b "manifest"); (110, b "man"); (1130, b "manifest")]).
Proof. vm_compute. reflexivity. Qed.

(* the specification under a context ending at 151: cut in the second pause *)
Example ex_spec_cancel :
  spec_send_c ex_policy (Some (151, false)) ex_body ex_script 0
  = (RCtx, 151, [(0, b "manifest"); (110, b "man")]).
Proof. vm_compute. reflexivity. Qed.

(* cancelled in the second pause *)
Example ex_cancel :
  let out := round_trip ex_policy (Some (151, false)) ex_body (init_state ex_body) ex_script 0 in
  o_res out = RCtx /\ o_time out = 151 /\ length (attempts (o_trace out)) = 2%nat.
Proof. vm_compute. repeat split; reflexivity. Qed.

(* a one-shot body and a Basic challenge: the rewind error, one request *)
Example ex_oneshot_auth :
  let a := auth_do false ex_policy None (mkBody KOneShot (b "blob")) [mkBeh (OStatus 401 [] 1%N) None 0] in
  a_res a = RNotRewindable /\ a_second a = [] /\ length (attempts (a_first a)) = 1%nat.
Proof. vm_compute. repeat split; reflexivity. Qed.

(* a replayable body and a Bearer challenge after a retry: four complete bodies *)
Example ex_auth :
  let a := auth_do false ex_policy None ex_body
                   [mkBeh (OStatus 503 [] 0%N) None 0; mkBeh (OStatus 401 [] 2%N) None 0;
                    mkBeh (OStatus 502 [] 0%N) None 0; mkBeh (OStatus 201 [] 0%N) None 0] in
  a_res a = RResp 201 0%N /\
  map snd (attempts (a_first a) ++ attempts (a_second a)) = [b "manifest"; b "manifest"; b "manifest"; b "manifest"].
Proof. vm_compute. split; reflexivity. Qed.

(* warm token cache: cached token refused, fresh token accepted: three sends, whole bodies *)
Example ex_auth_warm :
  let a := auth_do true ex_policy None ex_body
                   [mkBeh (OStatus 401 [] 2%N) None 0; mkBeh (OStatus 401 [] 2%N) None 0;
                    mkBeh (OStatus 201 [] 0%N) None 0] in
  a_res a = RResp 201 0%N /\
  map snd (attempts (a_first a) ++ attempts (a_second a) ++ attempts (a_third a))
  = [b "manifest"; b "manifest"; b "manifest"].
Proof. vm_compute. split; reflexivity. Qed.

(* "too many open files" (Temporary, not Timeout) is returned at once; a custom predicate
   failing on a response gives its error *)
Example ex_temporary_not_retried :
  let out := round_trip ex_policy None ex_body (init_state ex_body) [mkBeh (OErr true false true) None 0] 0 in
  o_res out = RErr true false true /\ length (attempts (o_trace out)) = 1%nat.
Proof. vm_compute. split; reflexivity. Qed.

Example ex_custom_predicate :
  let p := table_policy (custom_predicate [(404, PRetry); (503, PFail)] PStop PRetry) 3 100 1000 [] 100 in
  let out := round_trip p None ex_body (init_state ex_body)
                        [mkBeh (OStatus 404 [] 0%N) None 0; mkBeh (OErr false false false) None 0;
                         mkBeh (OStatus 503 [] 0%N) None 0] 0 in
  o_res out = RPredErr /\ length (attempts (o_trace out)) = 3%nat.
Proof. vm_compute. split; reflexivity. Qed.

(* blob push: challenged POST (retried once), then the PUT with the POST's credentials,
   retried once: both PUT requests carry the whole blob *)
Example ex_blob_push :
  let u := blob_push true ex_policy None ex_body
             [mkBeh (OStatus 401 [] 2%N) None 0; mkBeh (OStatus 503 [] 0%N) None 0; mkBeh (OStatus 202 [] 0%N) None 0;
              mkBeh (OStatus 502 [] 0%N) None 0; mkBeh (OStatus 201 [] 0%N) None 0] in
  u_res u = RResp 201 0%N /\
  match u_put u with Some put => map snd (auth_attempts put) = [b "manifest"; b "manifest"] | None => False end.
Proof. vm_compute. split; reflexivity. Qed.

(* http.NoBody without GetBody: the transport does not retry it (one attempt, the 503 comes
   back), the auth client does re-send it after a challenge *)
Example ex_nobody :
  let bd := mkBody KNoBody [] in
  length (attempts (o_trace (round_trip ex_policy None bd (init_state bd)
                                        [mkBeh (OStatus 503 [] 0%N) None 0] 0))) = 1%nat /\
  let a := auth_do false ex_policy None bd [mkBeh (OStatus 401 [] 1%N) None 0; mkBeh (OStatus 200 [] 0%N) None 0] in
  a_res a = RResp 200 0%N /\ length (attempts (a_second a)) = 1%nat.
Proof. vm_compute. repeat split; reflexivity. Qed.

(* Bearer challenge, the token service fails once (503) and then answers: the OAuth2 form
   goes out whole twice, the body goes to the registry whole twice *)
Example ex_token :
  let a := auth_do_tok ex_policy None ex_body
             [mkBeh (OStatus 401 [] 2%N) None 0; mkBeh (OStatus 201 [] 0%N) None 0]
             (mkBody KReplay (b "grant_type=password")) [mkBeh (OStatus 503 [] 0%N) None 4; mkBeh (OStatus 200 [] 0%N) None 4] in
  ak_res a = RResp 201 0%N /\
  map snd (attempts (ak_token a)) = [b "grant_type=password"; b "grant_type=password"] /\
  attempts (ak_second a) = [(108, b "manifest")].
Proof. vm_compute. repeat split; reflexivity. Qed.

(* the token service refuses: Do ends with that error, nothing is sent again *)
Example ex_token_refused :
  let a := auth_do_tok ex_policy None ex_body [mkBeh (OStatus 401 [] 2%N) None 0]
                       (mkBody KNone []) [mkBeh (OStatus 403 [] 0%N) None 0] in
  ak_res a = RTokenResp 403 /\ ak_second a = [].
Proof. vm_compute. split; reflexivity. Qed.

(* blob push: the POST is challenged and its token request fails once; the PUT inherits the
   credentials and is retried once *)
Example ex_blob_push_tok :
  let u := blob_push_tok true ex_policy None ex_body
             [mkBeh (OStatus 401 [] 2%N) None 0; mkBeh (OStatus 202 [] 0%N) None 0;
              mkBeh (OStatus 502 [] 0%N) None 0; mkBeh (OStatus 201 [] 0%N) None 0]
             (mkBody KNone []) [mkBeh (OStatus 503 [] 0%N) None 0; mkBeh (OStatus 200 [] 0%N) None 0] in
  uk_res u = RResp 201 0%N /\ length (attempts (ak_token (uk_post u))) = 2%nat /\
  match uk_put u with Some put => map snd (authk_attempts put) = [b "manifest"; b "manifest"] | None => False end.
Proof. vm_compute. repeat split; reflexivity. Qed.

(* the acceptor: default backoff at attempt 2 (temp = 1 s): 950 ms is accepted, 2 s is not *)
Example ex_acceptor :
  accept_decision true 5 0 100000000000 default_eparams 2 (OStatus 503 [] 0%N) (ODWait 950000000) = VYes /\
  accept_decision true 5 0 100000000000 default_eparams 2 (OStatus 503 [] 0%N) (ODWait 2000000000) = VNo.
Proof. vm_compute. split; reflexivity. Qed.

(* Retry-After: 2 within [100ns, 3s]: honoured *)
Example ex_retry_after :
  generic_retry (mkPolicy 5 100 3000000000 default_predicate
                          (exp_backoff (fun _ => 0) (fun _ => 0) default_eparams))
                0 (OStatus 429 (b "2") 0%N) = DWait 2000000000.
Proof. vm_compute. reflexivity. Qed.

(* --- the Retry-After parser in closed form (Proofs/RetryParse.v) ---------------------- *)

(* whatever bytes the header holds, the parsed value is an int64: saturation, never a wrapped value *)
Theorem C17_retry_after_parse_range :
  forall h : str, - two63 <= parse_int64 h <= two63 - 1.
Proof. exact parse_int64_range. Qed.
Print Assumptions C17_retry_after_parse_range.

(* an unsigned decimal numeral below 2^63 is read exactly; from 2^63 on it saturates at MaxInt64 *)
Theorem C17_retry_after_parse_decimal :
  forall h : str, h <> [] -> forallb is_digit h = true ->
    (dec_val h 0 < two63 -> parse_int64 h = dec_val h 0) /\
    (two63 <= dec_val h 0 -> parse_int64 h = two63 - 1).
Proof.
  intros h Hne Hd. split; intro Hv.
  - exact (parse_int64_decimal h Hne Hd Hv).
  - exact (parse_int64_decimal_saturates h Hne Hd Hv).
Qed.
Print Assumptions C17_retry_after_parse_decimal.

(* a header that is not a (signed) numeral, e.g. the HTTP-date form, reads as 0 = "not usable" *)
Theorem C17_retry_after_parse_non_numeral :
  forall (c : N) (t : str), c <> 43%N -> c <> 45%N ->
    forallb is_digit (c :: t) = false -> dec_val (c :: t) 0 <= max_u64 ->
    parse_int64 (c :: t) = 0.
Proof. exact parse_int64_non_numeral. Qed.
Print Assumptions C17_retry_after_parse_non_numeral.

(* C17_retry_after with its parser hypothesis discharged: every decimal Retry-After of n seconds
   whose nanosecond value fits int64 is honoured within [MinWait, MaxWait], for every policy shape *)
Theorem C17_retry_after_decimal :
  forall guarded oob rnd e maxretry minw maxw pred attempt (h : str) ch,
    h <> [] -> forallb is_digit h = true -> 0 < dec_val h 0 -> dec_val h 0 * 1000000000 < two63 ->
    attempt < maxretry -> pred (OStatus 429 h ch) = PRetry ->
    generic_retry (mkPolicy maxretry minw maxw pred (exp_backoff_gen guarded oob rnd e)) attempt (OStatus 429 h ch)
    = DWait (clamp minw maxw (dec_val h 0 * 1000000000)).
Proof. exact retry_after_decimal. Qed.
Print Assumptions C17_retry_after_decimal.

(* an unusable Retry-After (value <= 0: HTTP-date form, garbage, "0", a negative numeral) is ignored:
   the backoff is exactly the one of the same answer without the header; and the header is only
   ever looked at on the status the source names (429) *)
Theorem C17_retry_after_unusable_ignored :
  forall guarded oob rnd e attempt c (h : str) ch,
    (parse_int64 h <= 0 \/ c <> generated_backoff_retry_after_status) ->
    exp_backoff_gen guarded oob rnd e attempt (OStatus c h ch)
    = exp_backoff_gen guarded oob rnd e attempt (OStatus c [] ch).
Proof.
  intros guarded oob rnd e attempt c h ch [H|H].
  - exact (retry_after_unusable_ignored guarded oob rnd e attempt c h ch H).
  - exact (retry_after_only_429 guarded oob rnd e attempt c h ch H).
Qed.
Print Assumptions C17_retry_after_unusable_ignored.

(* the premises are met: "120" is a decimal numeral of value 120; an HTTP-date reads as 0;
   a 25-digit numeral saturates *)
Example ex_retry_after_parse :
  forallb is_digit (b "120") = true /\ dec_val (b "120") 0 = 120 /\ parse_int64 (b "120") = 120 /\
  parse_int64 (b "Wed, 21 Oct 2015 07:28:00 GMT") = 0 /\
  parse_int64 (b "9999999999999999999999999") = two63 - 1.
Proof. vm_compute. repeat split; reflexivity. Qed.
