(* C17 -- Re-sent requests carry the whole body; retries are bounded and paced.
   Only statements closed by [exact]; lemmas live in Proofs/Retry.v. *)
From Coq Require Import QArith.
From Oras Require Import Base.Prelude Generated.GC17 Model.Retry Proofs.Retry.
Open Scope Z_scope.

Theorem C17_pause_bounds :
  forall (p : policy) (attempt : Z) (o : outcome) (d : Z),
    p_min p <= p_max p -> generic_retry p attempt o = DWait d -> p_min p <= d <= p_max p.
Proof. exact generic_retry_bounds. Qed.
Print Assumptions C17_pause_bounds.
