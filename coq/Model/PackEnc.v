(* Executable model of json.Marshal (encoding/json of go1.26.8, escapeHTML = true) on the two
   manifest structs pack.go marshals: ocispec.Manifest (image-spec v1.1.1) and spec.Artifact
   (internal/spec), byte for byte: field order and omitempty of the struct tags, string escaping
   (appendString), map keys sorted bytewise, int64 in decimal, []byte in padded base64.
   No proofs here (Proofs/PackEnc.v). *)
From Oras Require Import Base.Prelude Base.Regex Base.StrCheck Generated.GC19 Model.Pack.

(* ---------- strings (encode.go appendString) ---------- *)
Definition hex_digit (n : N) : N := if n <? 10 then 48 + n else 87 + n.

Definition esc_u00 (c : N) : str := [92; 117; 48; 48; hex_digit (c / 16); hex_digit (c mod 16)].

Definition esc_ascii (c : N) : str :=
  if (c =? 34) || (c =? 92) then [92; c]
  else if c =? 8 then [92; 98]
  else if c =? 12 then [92; 102]
  else if c =? 10 then [92; 110]
  else if c =? 13 then [92; 114]
  else if c =? 9 then [92; 116]
  else if (c <? 32) || (c =? 60) || (c =? 62) || (c =? 38) then esc_u00 c
  else [c].

Definition esc_fffd : str := [92; 117; 102; 102; 102; 100].        (* � *)
Definition esc_2028 (last : N) : str := [92; 117; 50; 48; 50; hex_digit (last mod 16)].

(* same scan as utf8_san: invalid bytes one by one, U+2028 / U+2029 escaped, the rest copied *)
Fixpoint json_esc (s : str) : str :=
  match s with
  | [] => []
  | b0 :: r1 =>
    if b0 <? 128 then esc_ascii b0 ++ json_esc r1
    else
      match r1 with
      | [] => esc_fffd
      | b1 :: r2 =>
        if in_rng 194 223 b0 && utf8_cont b1 then b0 :: b1 :: json_esc r2
        else
          match r2 with
          | [] => esc_fffd ++ json_esc r1
          | b2 :: r3 =>
            if utf8_three b0 b1 && utf8_cont b2 then
              (if (b0 =? 226) && (b1 =? 128) && ((b2 =? 168) || (b2 =? 169))
               then esc_2028 b2 ++ json_esc r3
               else b0 :: b1 :: b2 :: json_esc r3)
            else
              match r3 with
              | [] => esc_fffd ++ json_esc r1
              | b3 :: r4 =>
                if utf8_four b0 b1 && utf8_cont b2 && utf8_cont b3
                then b0 :: b1 :: b2 :: b3 :: json_esc r4
                else esc_fffd ++ json_esc r1
              end
          end
      end
  end.

Definition json_string (s : str) : str := 34 :: json_esc s ++ [34].

(* ---------- numbers ---------- *)
Fixpoint dec_digits (fuel : nat) (n : N) (acc : str) : str :=
  match fuel with
  | O => acc
  | S f => let acc' := (48 + n mod 10) :: acc in
           if n / 10 =? 0 then acc' else dec_digits f (n / 10) acc'
  end.
Definition json_nat (n : N) : str := dec_digits 40 n [].
Definition json_int (z : Z) : str :=
  match z with
  | Z0 => [48]
  | Zpos p => json_nat (Npos p)
  | Zneg p => 45 :: json_nat (Npos p)
  end.

(* ---------- []byte: base64.StdEncoding ---------- *)
Definition b64_char (n : N) : N :=
  if n <? 26 then 65 + n else if n <? 52 then 71 + n else if n <? 62 then n - 4
  else if n =? 62 then 43 else 47.

Fixpoint base64 (s : str) : str :=
  match s with
  | [] => []
  | [a] => [b64_char (a / 4); b64_char ((a mod 4) * 16); 61; 61]
  | [a; c] => [b64_char (a / 4); b64_char ((a mod 4) * 16 + c / 16); b64_char ((c mod 16) * 4); 61]
  | a :: c :: d :: r =>
    b64_char (a / 4) :: b64_char ((a mod 4) * 16 + c / 16) :: b64_char ((c mod 16) * 4 + d / 64) ::
    b64_char (d mod 64) :: base64 r
  end.

(* ---------- map[string]string: keys sorted bytewise (strings.Compare) ---------- *)
Fixpoint str_ltb (x y : str) : bool :=
  match x, y with
  | [], [] => false
  | [], _ :: _ => true
  | _ :: _, [] => false
  | c :: x', d :: y' => (c <? d) || ((c =? d) && str_ltb x' y')
  end.

Fixpoint kv_insert (p : kv) (l : list kv) : list kv :=
  match l with
  | [] => [p]
  | q :: l' => if str_ltb (fst p) (fst q) then p :: l else q :: kv_insert p l'
  end.
Definition kv_sort (l : list kv) : list kv := fold_right kv_insert [] l.

Fixpoint join (sep : str) (l : list str) : str :=
  match l with
  | [] => []
  | [x] => x
  | x :: l' => x ++ sep ++ join sep l'
  end.

Definition comma : str := [44].
Definition json_obj (fields : list str) : str := 123 :: join comma fields ++ [125].
Definition json_arr (items : list str) : str := 91 :: join comma items ++ [93].
Definition field (name : string) (value : str) : str := json_string (b name) ++ 58 :: value.

Definition json_ann (l : list kv) : str :=
  json_obj (map (fun p => json_string (fst p) ++ 58 :: json_string (snd p)) (kv_sort l)).

Definition opt_field (present : bool) (f : str) : list str := if present then [f] else [].
Definition nonempty {A} (l : list A) : bool := match l with [] => false | _ => true end.

Definition json_platform (p : platform) : str :=
  json_obj ([field "architecture" (json_string (p_arch p)); field "os" (json_string (p_os p))] ++
            opt_field (nonempty (p_osver p)) (field "os.version" (json_string (p_osver p))) ++
            opt_field (nonempty (p_osfeat p)) (field "os.features" (json_arr (map json_string (p_osfeat p)))) ++
            opt_field (nonempty (p_variant p)) (field "variant" (json_string (p_variant p)))).

(* ocispec.Descriptor *)
Definition json_desc (d : desc) : str :=
  let x := d_extra d in
  json_obj ([field "mediaType" (json_string (d_mt d)); field "digest" (json_string (d_dg d));
             field "size" (json_int (d_sz d))] ++
            opt_field (nonempty (x_urls x)) (field "urls" (json_arr (map json_string (x_urls x)))) ++
            opt_field (nonempty (d_ann d)) (field "annotations" (json_ann (d_ann d))) ++
            opt_field (nonempty (x_data x)) (field "data" (34 :: base64 (x_data x) ++ [34])) ++
            match x_platform x with Some p => [field "platform" (json_platform p)] | None => [] end ++
            opt_field (nonempty (d_at d)) (field "artifactType" (json_string (d_at d)))).

Definition zero_desc : desc := mkDesc [] [] 0 [] [] no_extra.
Definition json_null : str := [110; 117; 108; 108].

(* json.Marshal(ocispec.Manifest{...}) / json.Marshal(spec.Artifact{...}) *)
Definition json_manifest (m : manifest) : str :=
  match m_kind m with
  | KImage =>
    json_obj ([field "schemaVersion" [50]; field "mediaType" (json_string (kind_mt KImage))] ++
              opt_field (nonempty (m_at m)) (field "artifactType" (json_string (m_at m))) ++
              [field "config" (json_desc (match m_config m with Some c => c | None => zero_desc end));
               field "layers" (match m_layers m with
                               | Some l => json_arr (map json_desc l)
                               | None => json_null
                               end)] ++
              match m_subject m with Some sj => [field "subject" (json_desc sj)] | None => [] end ++
              opt_field (nonempty (m_ann m)) (field "annotations" (json_ann (m_ann m))))
  | KArtifact =>
    json_obj ([field "mediaType" (json_string (kind_mt KArtifact));
               field "artifactType" (json_string (m_at m))] ++
              match m_layers m with
              | Some (x :: l) => [field "blobs" (json_arr (map json_desc (x :: l)))]
              | _ => []
              end ++
              match m_subject m with Some sj => [field "subject" (json_desc sj)] | None => [] end ++
              opt_field (nonempty (m_ann m)) (field "annotations" (json_ann (m_ann m))))
  end.

(* ---------- reading a JSON string back (encoding/json unquote, on what json_esc can produce) ---------- *)
Definition unhex (c : N) : option N :=
  if in_rng 48 57 c then Some (c - 48)
  else if in_rng 97 102 c then Some (c - 87)
  else if in_rng 65 70 c then Some (c - 55) else None.

(* UTF-8 of a code point of the basic multilingual plane *)
Definition utf8_enc (cp : N) : str :=
  if cp <? 128 then [cp]
  else if cp <? 2048 then [192 + cp / 64; 128 + cp mod 64]
  else [224 + cp / 4096; 128 + (cp / 64) mod 64; 128 + cp mod 64].

Definition simple_esc (e : N) : option N :=
  if (e =? 34) || (e =? 92) || (e =? 47) then Some e
  else if e =? 98 then Some 8 else if e =? 102 then Some 12 else if e =? 110 then Some 10
  else if e =? 114 then Some 13 else if e =? 116 then Some 9 else None.

(* None = not a JSON string body *)
Fixpoint json_unesc (s : str) : option str :=
  match s with
  | [] => Some []
  | c :: r =>
    if c =? 92 then
      match r with
      | [] => None
      | e :: r' =>
        if e =? 117 then
          match r' with
          | h1 :: h2 :: h3 :: h4 :: r'' =>
            match unhex h1, unhex h2, unhex h3, unhex h4 with
            | Some a, Some b', Some c', Some d =>
              option_map (app (utf8_enc (((a * 16 + b') * 16 + c') * 16 + d))) (json_unesc r'')
            | _, _, _, _ => None
            end
          | _ => None
          end
        else
          match simple_esc e with
          | Some x => option_map (cons x) (json_unesc r')
          | None => None
          end
      end
    else if (c =? 34) || (c <? 32) then None
    else option_map (cons c) (json_unesc r)
  end.

(* ---------- reading an annotations object back (encoding/json Unmarshal into map[string]string,
   on what json_ann can produce; entries in document order) ---------- *)
(* after the opening quote: the decoded string and what follows the closing quote *)
Fixpoint read_body (s : str) : option (str * str) :=
  match s with
  | [] => None
  | c :: r =>
    if c =? 34 then Some ([], r)
    else if c =? 92 then
      match r with
      | [] => None
      | e :: r' =>
        if e =? 117 then
          match r' with
          | h1 :: h2 :: h3 :: h4 :: r'' =>
            match unhex h1, unhex h2, unhex h3, unhex h4 with
            | Some a, Some b', Some c', Some d =>
              match read_body r'' with
              | Some (x, rest) => Some (utf8_enc (((a * 16 + b') * 16 + c') * 16 + d) ++ x, rest)
              | None => None
              end
            | _, _, _, _ => None
            end
          | _ => None
          end
        else
          match simple_esc e with
          | Some x => match read_body r' with Some (y, rest) => Some (x :: y, rest) | None => None end
          | None => None
          end
      end
    else if c <? 32 then None
    else match read_body r with Some (y, rest) => Some (c :: y, rest) | None => None end
  end.

Definition read_string (s : str) : option (str * str) :=
  match s with 34 :: r => read_body r | _ => None end.

(* "key":"value" *)
Definition read_pair (s : str) : option (kv * str) :=
  match read_string s with
  | Some (k, 58 :: r) =>
    match read_string r with Some (v, r') => Some ((k, v), r') | None => None end
  | _ => None
  end.

(* after a pair: "}" or "," pair ... *)
Fixpoint read_more (fuel : nat) (s : str) : option (list kv * str) :=
  match fuel with
  | O => None
  | S f =>
    match s with
    | 125 :: r => Some ([], r)
    | 44 :: r =>
      match read_pair r with
      | Some (p, r') =>
        match read_more f r' with Some (l, r'') => Some (p :: l, r'') | None => None end
      | None => None
      end
    | _ => None
    end
  end.

Definition read_obj (s : str) : option (list kv * str) :=
  match s with
  | 123 :: 125 :: r => Some ([], r)
  | 123 :: r =>
    match read_pair r with
    | Some (p, r') =>
      match read_more (length s) r' with Some (l, r'') => Some (p :: l, r'') | None => None end
    | None => None
    end
  | _ => None
  end.

(* ---------- the mediaType a manifest document declares (what a registry or a store dispatches on) ---------- *)
Fixpoint strip_prefix (p s : str) : option str :=
  match p with
  | [] => Some s
  | c :: p' =>
    match s with
    | d :: s' => if c =? d then strip_prefix p' s' else None
    | [] => None
    end
  end.

(* "name":<string> at the head of s *)
Definition read_field (name : string) (s : str) : option (str * str) :=
  match strip_prefix (json_string (b name) ++ [58]) s with
  | Some r => read_string r
  | None => None
  end.

(* the first field, or the one after "schemaVersion":2 *)
Definition doc_media_type (s : str) : option str :=
  match strip_prefix [123] s with
  | Some r =>
    let r' := match strip_prefix (field "schemaVersion" [50] ++ comma) r with Some x => x | None => r end in
    match read_field "mediaType" r' with Some (mt, _) => Some mt | None => None end
  | None => None
  end.

(* ... and, right after it, the artifactType when the document has one *)
Definition doc_artifact_type (s : str) : option str :=
  match strip_prefix [123] s with
  | Some r =>
    let r' := match strip_prefix (field "schemaVersion" [50] ++ comma) r with Some x => x | None => r end in
    match read_field "mediaType" r' with
    | Some (_, r2) =>
      match strip_prefix comma r2 with
      | Some r3 => match read_field "artifactType" r3 with Some (a, _) => Some a | None => None end
      | None => None
      end
    | None => None
    end
  | None => None
  end.

(* ---------- the config descriptor a manifest document declares: mediaType, digest, size ---------- *)
(* a run of decimal digits *)
Fixpoint read_digits (s : str) (acc : N) : N * str :=
  match s with
  | c :: r => if is_digit c then read_digits r (acc * 10 + (c - 48)) else (acc, s)
  | [] => (acc, [])
  end.

(* from "config":{ on *)
Definition read_config_head (r5 : str) : option (str * str * N) :=
  match strip_prefix (json_string (b "config") ++ [58; 123]) r5 with
  | None => None
  | Some r6 =>
    match read_field "mediaType" r6 with
    | None => None
    | Some (mt, r7) =>
      match strip_prefix comma r7 with
      | None => None
      | Some r8 =>
        match read_field "digest" r8 with
        | None => None
        | Some (dg, r9) =>
          match strip_prefix (comma ++ json_string (b "size") ++ [58]) r9 with
          | None => None
          | Some r10 => Some (mt, dg, fst (read_digits r10 0))
          end
        end
      end
    end
  end.

Definition doc_config_head (s : str) : option (str * str * N) :=
  match strip_prefix [123] s with
  | None => None
  | Some r =>
    let r1 := match strip_prefix (field "schemaVersion" [50] ++ comma) r with Some x => x | None => r end in
    match read_field "mediaType" r1 with
    | None => None
    | Some (_, r2) =>
      match strip_prefix comma r2 with
      | None => None
      | Some r3 =>
        read_config_head
          match read_field "artifactType" r3 with
          | Some (_, r4) => match strip_prefix comma r4 with Some x => x | None => r4 end
          | None => r3
          end
      end
    end
  end.

