(* CopyImplSrc: which Go calls each program counter of the protocol model (Model/CopyImpl.v) stands
   for, in program order.  Proofs/CopyImplSrc.v states that these sequences ARE the source-order call
   sequences that tools/gosrc2v (kind callseq, specs/C02.json: c02proto_calls_fn etc.) re-reads from
   copy.go / extendedcopy.go / internal/syncutil/limit.go on every run: reordering region.End() and
   the nested syncutil.Go, dropping the wait loop or the re-acquisition, or changing what Start / End
   do to the semaphore breaks that lemma (layer P).  No proofs here. *)
From Coq Require Import List.
From Oras Require Import Base.Prelude Model.CopyImpl.
Import ListNotations.

(* copyGraph.fn, kind KFn: the program counters in the order the model steps through them *)
Definition fn_pcs : list pc := [TTry; TExists; TFind; TEnd; TGo; TWait []; TStart; TPush].
Definition pc_calls (p : pc) : list str :=
  match p with
  | TTry => [b "tracker.TryCommit"; b "close"]      (* the deferred close(done) is registered right after TryCommit *)
  | TExists => [b "dst.Exists"]
  | TFind => [b "opts.FindSuccessors"]
  | TEnd => [b "region.End"]
  | TGo => [b "syncutil.Go"]
  | TWait _ => [b "tracker.TryCommit"]               (* for _, node := range successors: TryCommit; select *)
  | TStart => [b "region.Start"]
  | TPush => [b "proxy.Cache.Exists"; b "copyNode"; b "mountOrCopyNode"]
  | _ => []
  end.
(* ... followed by the top-level call of copyGraph (frame 0) *)
Definition fn_calls : list str := flat_map pc_calls fn_pcs ++ [b "syncutil.Go"].

(* syncutil.Go: frame creation; dispatch loop (LDispatchAcq = LimitRegion + Start + eg.Go); the
   child closure (deferred lr.End, then fn: LChildRun / LChildSkip / finish); LGoReturn = Wait + Cause *)
Definition go_calls : list str :=
  [b "context.WithCancelCause"; b "errgroup.WithContext"] ++
  [b "LimitRegion"; b "region.Start"; b "eg.Go"] ++ [b "lr.End"; b "fn"] ++ [b "eg.Wait"; b "context.Cause"].

(* ExtendedCopyGraph: findRoots, the top-level Go, and the outer closure = kind KOuter: TEnd; TGo; TStart *)
Definition outer_pcs : list pc := [TEnd; TGo; TStart].
Definition outer_pc_calls (p : pc) : list str :=
  match p with TEnd => [b "region.End"] | TGo => [b "copyGraph"] | TStart => [b "region.Start"] | _ => [] end.
Definition ext_calls : list str := [b "findRoots"; b "syncutil.Go"] ++ flat_map outer_pc_calls outer_pcs.

(* LimitedRegion.Start acquires (only), End releases (only) *)
Definition start_calls : list str := [b "lr.limiter.Acquire"].
Definition end_calls : list str := [b "lr.limiter.Release"].
