(* C06 -- the file store created with NewWithFallbackLimit (no proofs in this file): unnamed
   content goes to content.LimitedStorage, whose Push refuses a descriptor whose Size exceeds
   the limit (errdef.ErrSizeExceedsLimit) BEFORE anything is read or looked up; everything
   else is the file store of Model/Stores.v.  With IgnoreNoName the fallback is never reached. *)
From Oras Require Import Base.Prelude Model.Stores Model.StoresFileSpec.

Inductive lout := LLimit | LOut (x : fout).

Definition over_limit (lim : N) (ignore_noname : bool) (o : op) : bool :=
  match o with
  | Push d _ => (d_name d =? 0) && negb ignore_noname && (lim <? d_size d)
  | _ => false
  end.

Definition file_step_lim (lim : N) (fixed ignore_noname disable_overwrite : bool)
           (s : file_store) (o : op) : file_store * lout :=
  if over_limit lim ignore_noname o then (s, LLimit)
  else (fst (file_step fixed ignore_noname disable_overwrite s o),
        LOut (snd (file_step fixed ignore_noname disable_overwrite s o))).

Definition fspec_step_lim (lim : N) (ignore_noname : bool) (a : fspec) (o : op) : fspec * lout :=
  if over_limit lim ignore_noname o then (a, LLimit)
  else (fst (fspec_step ignore_noname a o), LOut (snd (fspec_step ignore_noname a o))).

Section RunL.
  Context {S : Type} (step : S -> op -> S * lout).
  Fixpoint runl (s : S) (h : list op) : S * list lout :=
    match h with
    | [] => (s, [])
    | o :: h' => let (s1, x) := step s o in
                 let (s2, xs) := runl s1 h' in (s2, x :: xs)
    end.
End RunL.
