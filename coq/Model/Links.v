(* Model/Links.v -- content.Successors (content/graph.go:49-122): which references of a
   document are its successors, per media type.  No proofs here.

   A document is what the JSON decoders of the five cases can see: subject, config, layers,
   manifests, blobs (fields a case does not read are ignored by it, exactly as the Go structs
   ignore unknown JSON members).  Successors returns, in this order:
     docker manifest      config :: layers                 (subject NOT read)
     OCI image manifest   [subject] ++ config :: layers
     docker manifest list manifests                        (subject NOT read)
     OCI image index      [subject] ++ manifests
     ORAS artifact        [subject] ++ blobs
     any other media type nothing (and the content is not even fetched) *)
From Coq Require Import List NArith Bool.
Import ListNotations.
From Oras Require Import Base.Prelude Generated.GC07 Model.GraphMem.

Inductive mkind := KDockerManifest | KImageManifest | KDockerList | KImageIndex | KArtifact | KOther.
Record mdoc := mkDoc {
  d_kind : mkind; d_subject : option node; d_config : node;
  d_layers : list node; d_manifests : list node; d_blobs : list node }.

Definition opt_list (o : option node) : list node := match o with Some x => [x] | None => [] end.

(* The executable model is an interpreter of the schema that tools/gosrc2v (kind
   "linkschema") re-reads from the switch in content.Successors on every run:
   Generated.GC07.successors_schema lists, per media type constant, the document members
   returned ("F" one descriptor, "F*" a slice, "F?" a pointer when not nil), in order. *)
Definition kind_name (k : mkind) : option str :=
  match k with
  | KDockerManifest => Some (b "docker.MediaTypeManifest")
  | KImageManifest => Some (b "ocispec.MediaTypeImageManifest")
  | KDockerList => Some (b "docker.MediaTypeManifestList")
  | KImageIndex => Some (b "ocispec.MediaTypeImageIndex")
  | KArtifact => Some (b "spec.MediaTypeArtifactManifest")
  | KOther => None
  end.
Fixpoint slookup (k : str) (l : list (str * list str)) : option (list str) :=
  match l with [] => None | (k', v) :: r => if str_eqb k k' then Some v else slookup k r end.
Definition item_nodes (m : mdoc) (it : str) : list node :=
  if str_eqb it (b "Subject?") then opt_list (d_subject m)
  else if str_eqb it (b "Config") then [d_config m]
  else if str_eqb it (b "Layers*") then d_layers m
  else if str_eqb it (b "Manifests*") then d_manifests m
  else if str_eqb it (b "Blobs*") then d_blobs m
  else [].
Definition successors_of (m : mdoc) : list node :=
  match kind_name (d_kind m) with
  | None => []
  | Some k => match slookup k successors_schema with
              | Some items => flat_map (item_nodes m) items
              | None => []
              end
  end.

(* the same, written out by hand (what the schema is expected to say) *)
Definition successors_spec (m : mdoc) : list node :=
  match d_kind m with
  | KDockerManifest => d_config m :: d_layers m
  | KImageManifest => opt_list (d_subject m) ++ d_config m :: d_layers m
  | KDockerList => d_manifests m
  | KImageIndex => opt_list (d_subject m) ++ d_manifests m
  | KArtifact => opt_list (d_subject m) ++ d_blobs m
  | KOther => []
  end.
