(* Model/Links.v -- content.Successors (content/graph.go:49-122): which references of a
   document are its successors, per media type.  No proofs here.

   A document is what the JSON decoders of the five cases can see: subject, config, layers,
   manifests, blobs (fields a case does not read are ignored by it, exactly as the Go structs
   ignore unknown JSON members).  Successors returns, in this order:
     docker manifest      config :: layers                 (subject NOT read)
     OCI image manifest   [subject] ++ config :: layers
     docker manifest list manifests                        (subject NOT read)
     OCI image index      [subject] ++ manifests
     ORAS artifact        [subject] ++ blobs
     any other media type nothing (and the content is not even fetched) *)
From Coq Require Import List NArith Bool.
Import ListNotations.
From Oras Require Import Model.GraphMem.

Inductive mkind := KDockerManifest | KImageManifest | KDockerList | KImageIndex | KArtifact | KOther.
Record mdoc := mkDoc {
  d_kind : mkind; d_subject : option node; d_config : node;
  d_layers : list node; d_manifests : list node; d_blobs : list node }.

Definition opt_list (o : option node) : list node := match o with Some x => [x] | None => [] end.
Definition successors_of (m : mdoc) : list node :=
  match d_kind m with
  | KDockerManifest => d_config m :: d_layers m
  | KImageManifest => opt_list (d_subject m) ++ d_config m :: d_layers m
  | KDockerList => d_manifests m
  | KImageIndex => opt_list (d_subject m) ++ d_manifests m
  | KArtifact => opt_list (d_subject m) ++ d_blobs m
  | KOther => []
  end.
