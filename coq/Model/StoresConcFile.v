(* C06 -- concurrent executions of the file store as interleavings of atomic steps
   (no proofs in this file).

   content/file: a named Push runs under the per-name status lock (exists? resolveWritePath,
   create + copy + verify, digestToPath.Store, [remove on failure], exists := true): one
   atomic step here (the window between digestToPath.Store and exists := true is not
   modelled); an unnamed Push commits with the fallback's LoadOrStore; afterwards, outside
   any lock, restoreDuplicates / graph.Index read the content back and index it: a second
   step (for content without titled successors it touches the graph only; with titled
   successors the restore falls behind the store and concurrent histories are not
   serialisable in general -- the theorem is about untitled content).  Tag = Exists (reads of monotone state) ; resolver.Tag under the resolver lock.
   Everything else is an atomic read. *)
From Oras Require Import Base.Prelude Model.Stores Model.StoresConc.

(* the store part of Store.Push: None = stored, the index step is still to come *)
Definition file_push_store (fixed ig ov : bool) (s : file_store) (d : desc) (c : blob)
  : file_store * option fout :=
  if d_name d =? 0 then
    if ig then
      if is_manifest (d_mt d) then
        if verify d c
        then match file_restore fixed ov (b_tl c) s with
             | (s2, Some e) => (s2, Some e)
             | (s2, None) => (s2, Some (FO OOk))
             end
        else (s, Some (FO (OErr EMismatch)))
      else (s, Some (FO OOk))
    else match get gkey_eqb (gk d) (f_cas s) with
         | Some _ => (s, Some (FO (OErr EAlreadyExists)))
         | None =>
             let c := limit_reader d c in
             if verify d c
             then (mkFile (f_names s) (f_d2p s) (f_disk s)
                          (put gkey_eqb (gk d) c (f_cas s)) (f_res s) (f_graph s), None)
             else (s, Some (FO (OErr EMismatch)))
         end
  else file_named_push fixed ov s (gk d) (d_name d) c.

Inductive fpc :=
| FIdle
| FIndex (d : desc)             (* stored; before restoreDuplicates / graph.Index *)
| FTag2 (d : desc) (r : ref).   (* exists; before resolver.Tag *)

Record fthread := mkFT { ft_pc : fpc; ft_ops : list op }.

Record fconf := mkFC { fc_store : file_store; fc_threads : list fthread; fc_log : list (nat * op) }.

Definition fthread_step (fx ig ov : bool) (s : file_store) (t : fthread)
  : option (file_store * fthread * list op) :=
  match ft_pc t with
  | FIdle =>
      match ft_ops t with
      | [] => None
      | o :: rest =>
          match o with
          | Push d c =>
              match file_push_store fx ig ov s d c with
              | (s1, None) => Some (s1, mkFT (FIndex d) rest, [o])
              | (s1, Some _) => Some (s1, mkFT FIdle rest, [o])
              end
          | Tag d r =>
              match r with
              | REmpty => Some (s, mkFT FIdle rest, [o])
              | _ => if file_exists d s then Some (s, mkFT (FTag2 d r) rest, [])
                     else Some (s, mkFT FIdle rest, [o])
              end
          | _ => Some (s, mkFT FIdle rest, [o])
          end
      end
  | FIndex d => Some (fst (file_index_after fx ov d s), mkFT FIdle (ft_ops t), [])
  | FTag2 d r =>
      Some (mkFile (f_names s) (f_d2p s) (f_disk s) (f_cas s) (res_tag d r (f_res s)) (f_graph s),
            mkFT FIdle (ft_ops t), [Tag d r])
  end.

Definition fconf_step (fx ig ov : bool) (cf : fconf) (i : nat) : fconf :=
  match nth_error (fc_threads cf) i with
  | None => cf
  | Some t =>
      match fthread_step fx ig ov (fc_store cf) t with
      | None => cf
      | Some (s', t', lg) => mkFC s' (upd_nth i t' (fc_threads cf)) (fc_log cf ++ map (pair i) lg)
      end
  end.

Definition fconf_init (progs : list (list op)) : fconf :=
  mkFC file_init (map (fun p => mkFT FIdle p) progs) [].

Definition fconf_run (fx ig ov : bool) (cf : fconf) (sched : list nat) : fconf :=
  fold_left (fconf_step fx ig ov) sched cf.

Definition fthread_done (t : fthread) : bool :=
  match ft_pc t, ft_ops t with FIdle, [] => true | _, _ => false end.

Definition fquiescent (cf : fconf) : bool := forallb fthread_done (fc_threads cf).

(* everything but the graph *)
Definition fcore (s : file_store) :=
  (f_names s, f_d2p s, f_disk s, f_cas s, f_res s).
