(* Reading the config file the way config.Load and GetCredential do it with
   encoding/json: one JSON value is decoded from the start of the file into
   map[string]json.RawMessage (a member's RawMessage is the SOURCE TEXT of its
   value; a repeated key: the last one wins; what follows the first value is
   not looked at), then credsStore / credHelpers / auths are unmarshalled from
   their raw texts, and an auths entry is unmarshalled into AuthConfig when it
   is looked up (field names: exact match, else case-insensitive in the sense of bytes.EqualFold; a null
   member leaves the field; a member of another type is an error).
   Executable model only. *)
From Oras Require Import Base.Prelude Generated.GC18 Model.Utf8 Model.Json Model.CredFile Model.JsonDoc.

Inductive jval :=
| JNull | JBool (v : bool) | JNum (raw : str) | JStr (s : str)
| JArr (l : list jval)
| JObj (l : list (str * (jval * str))).     (* key (Go string), value, source text of the value *)

Fixpoint skip_ws (s : str) : str :=
  match s with
  | c :: r => if is_ws c then skip_ws r else s
  | [] => []
  end.

Definition is_digit (c : N) : bool := in_range 48 57 c.

Fixpoint take_digits (s : str) : str * str :=
  match s with
  | c :: r => if is_digit c then let (d, rest) := take_digits r in (c :: d, rest) else ([], s)
  | [] => ([], [])
  end.

(* -? (0 | [1-9][0-9]* ) ( . [0-9]+ )? ( [eE] [+-]? [0-9]+ )? *)
Definition take_number (s : str) : option (str * str) :=
  let (sign, s1) := match s with 45 :: r => ([45], r) | _ => ([], s) end in
  match s1 with
  | c :: r =>
      if is_digit c then
        let (int_part, s2) := if c =? 48 then ([c], r) else take_digits s1 in
        let frac :=
          match s2 with
          | 46 :: r2 => let (d, s3) := take_digits r2 in
                        match d with [] => None | _ => Some (46 :: d, s3) end
          | _ => Some ([], s2)
          end in
        match frac with
        | None => None
        | Some (fr, s3) =>
            match s3 with
            | e :: r3 =>
                if (e =? 101) || (e =? 69) then
                  let (sg, s4) := match r3 with
                                  | x :: r4 => if (x =? 43) || (x =? 45) then ([x], r4) else ([], r3)
                                  | [] => ([], [])
                                  end in
                  let (d, s5) := take_digits s4 in
                  match d with
                  | [] => None
                  | _ => Some (sign ++ int_part ++ fr ++ [e] ++ sg ++ d, s5)
                  end
                else Some (sign ++ int_part ++ fr, s3)
            | [] => Some (sign ++ int_part ++ fr, s3)
            end
        end
      else None
  | [] => None
  end.

Definition src_between (s rest : str) : str := firstn (length s - length rest) s.

(* [pvalue n s]: s starts at the first byte of the value *)
Fixpoint pvalue (n : nat) (s : str) : option (jval * str) :=
  match n with
  | O => None
  | S n' =>
      match s with
      | [] => None
      | c :: r =>
          if c =? 110 then match strip_prefix (b "null") s with Some rest => Some (JNull, rest) | None => None end
          else if c =? 116 then match strip_prefix (b "true") s with Some rest => Some (JBool true, rest) | None => None end
          else if c =? 102 then match strip_prefix (b "false") s with Some rest => Some (JBool false, rest) | None => None end
          else if c =? dq then
            match scan_string r with
            | Some (q, rest) => match json_unquote q with Some t => Some (JStr t, rest) | None => None end
            | None => None
            end
          else if c =? 91 then
            match skip_ws r with
            | 93 :: rest => Some (JArr [], rest)
            | r1 => match pelements n' r1 with
                    | Some (l, rest) => Some (JArr l, rest)
                    | None => None
                    end
            end
          else if c =? 123 then
            match skip_ws r with
            | 125 :: rest => Some (JObj [], rest)
            | r1 => match pmembers n' r1 with
                    | Some (l, rest) => Some (JObj l, rest)
                    | None => None
                    end
            end
          else match take_number s with
               | Some (raw, rest) => Some (JNum raw, rest)
               | None => None
               end
      end
  end
(* elements up to and including the closing bracket; s starts at a value *)
with pelements (n : nat) (s : str) : option (list jval * str) :=
  match n with
  | O => None
  | S n' =>
      match pvalue n' s with
      | Some (v, rest) =>
          match skip_ws rest with
          | 93 :: rest' => Some ([v], rest')
          | 44 :: rest' => match pelements n' (skip_ws rest') with
                           | Some (l, r2) => Some (v :: l, r2)
                           | None => None
                           end
          | _ => None
          end
      | None => None
      end
  end
(* members up to and including the closing brace; s starts at the key's quote *)
with pmembers (n : nat) (s : str) : option (list (str * (jval * str)) * str) :=
  match n with
  | O => None
  | S n' =>
      match s with
      | 34 :: r =>
          match scan_string r with
          | Some (q, rest) =>
              match json_unquote q, skip_ws rest with
              | Some k, 58 :: rest1 =>
                  let vs := skip_ws rest1 in
                  match pvalue n' vs with
                  | Some (v, rest2) =>
                      let src := src_between vs rest2 in
                      match skip_ws rest2 with
                      | 125 :: rest3 => Some ([(k, (v, src))], rest3)
                      | 44 :: rest3 => match pmembers n' (skip_ws rest3) with
                                       | Some (l, r4) => Some ((k, (v, src)) :: l, r4)
                                       | None => None
                                       end
                      | _ => None
                      end
                  | None => None
                  end
              | _, _ => None
              end
          | None => None
          end
      | _ => None
      end
  end.

(* json.Decoder.Decode: leading white space, one value, the rest is not looked at *)
Definition parse_first (s : str) : option jval :=
  match pvalue (S (length s)) (skip_ws s) with
  | Some (v, _) => Some v
  | None => None
  end.

(* a whole text that is exactly one value (json.Unmarshal of a RawMessage) *)
Definition parse_whole (s : str) : option jval :=
  match pvalue (S (length s)) (skip_ws s) with
  | Some (v, rest) => match skip_ws rest with [] => Some v | _ => None end
  | None => None
  end.

(* ---------- Go maps: a repeated key keeps the last value ---------- *)
Fixpoint dedup_last {V} (l : list (str * V)) : list (str * V) :=
  match l with
  | [] => []
  | (k, v) :: r => match lookup k r with
                   | Some _ => dedup_last r
                   | None => (k, v) :: dedup_last r
                   end
  end.

(* ---------- json.Unmarshal into AuthConfig ---------- *)
Definition lower (c : N) : N := if in_range 65 90 c then c + 32 else c.

(* bytes.EqualFold (Unicode simple case folding) against the ASCII field names: besides
   the ASCII letters, U+212A KELVIN SIGN (E2 84 AA) folds to k and U+017F LATIN SMALL
   LETTER LONG S (C5 BF) folds to s -- the only non-ASCII runes that fold to ASCII *)
Fixpoint fold_str (s : str) : str :=
  match s with
  | 226 :: 132 :: 170 :: r => 107 :: fold_str r
  | 197 :: 191 :: r => 115 :: fold_str r
  | c :: r => lower c :: fold_str r
  | [] => []
  end.
Definition fold_eqb (x y : str) : bool := str_eqb (fold_str x) (fold_str y).

Definition auth_fields : list str := [b "auth"; b "identitytoken"; b "registrytoken"; b "username"; b "password"].

(* the struct field a member name selects: exact name first, else case-insensitive *)
Definition field_index (k : str) : option nat :=
  let fix find (eq : str -> str -> bool) (l : list str) (i : nat) : option nat :=
    match l with
    | [] => None
    | f :: r => if eq k f then Some i else find eq r (S i)
    end in
  match find str_eqb auth_fields O with
  | Some i => Some i
  | None => find fold_eqb auth_fields O
  end.

Fixpoint set_nth (i : nat) (v : str) (l : list str) : list str :=
  match l, i with
  | [], _ => []
  | _ :: r, O => v :: r
  | x :: r, S j => x :: set_nth j v r
  end.

(* members in source order; error = a selected member that is neither string nor null *)
Fixpoint fill_fields (ms : list (str * (jval * str))) (acc : list str) (err : bool) : list str * bool :=
  match ms with
  | [] => (acc, err)
  | (k, (v, _)) :: r =>
      match field_index k with
      | None => fill_fields r acc err
      | Some i =>
          match v with
          | JStr s => fill_fields r (set_nth i s acc) err
          | JNull => fill_fields r acc err
          | _ => fill_fields r acc true
          end
      end
  end.

Definition view_of_jval (v : jval) : view :=
  match v with
  | JNull => VFields [] [] [] [] []
  | JObj ms =>
      match fill_fields ms [[]; []; []; []; []] false with
      | ([a; i; r; u; p], false) => VFields a i r u p
      | _ => VErr
      end
  | _ => VErr
  end.

Definition kind_of_jval (v : jval) : kind :=
  match v with
  | JNull => KNull
  | JStr _ => KStr
  | JObj ms => if forallb (fun m => match fst (snd m) with JStr _ | JNull => true | _ => false end) ms
               then KObjStr else KObj
  | _ => KOther
  end.

(* ---------- the loaded document in the terms of Model/CredFile.v ---------- *)
Definition entry_of_member (m : str * (jval * str)) : str * entry :=
  (fst m, Old (snd (snd m)) (view_of_jval (fst (snd m)))).

Definition tval_of_member (m : str * (jval * str)) : str * tval :=
  let k := fst m in
  let v := fst (snd m) in
  let src := snd (snd m) in
  if str_eqb k configFieldAuths then
    match v with
    | JObj es => (k, TAuths (map entry_of_member (dedup_last es)))
    | _ => (k, TRaw src (kind_of_jval v))
    end
  else if str_eqb k configFieldCredentialsStore then
    match v with
    | JStr s => (k, TCs s)
    | _ => (k, TRaw src (kind_of_jval v))
    end
  else (k, TRaw src (kind_of_jval v)).

Record loaded := { l_doc : fdoc; l_tops : src_table; l_ents : src_table; l_helpers : list (str * str) }.

(* None: the file cannot be decoded into map[string]json.RawMessage *)
Definition read_config (text : str) : option loaded :=
  match parse_first text with
  | Some JNull => Some {| l_doc := []; l_tops := []; l_ents := []; l_helpers := [] |}
  | Some (JObj ms) =>
      let ms' := dedup_last ms in
      let ents := match lookup configFieldAuths ms' with
                  | Some (JObj es, _) => map (fun m => (fst m, snd (snd m))) (dedup_last es)
                  | _ => []
                  end in
      (* credHelpers into map[string]string: a null member leaves the zero value *)
      let helpers := match lookup configFieldCredentialHelpers ms' with
                     | Some (JObj hs, _) =>
                         map (fun m => (fst m, match fst (snd m) with JStr s => s | _ => [] end)) (dedup_last hs)
                     | _ => []
                     end in
      Some {| l_doc := map tval_of_member ms';
              l_tops := map (fun m => (fst m, snd (snd m))) ms';
              l_ents := ents;
              l_helpers := helpers |}
  | _ => None
  end.

(* NewFileStore on the BYTES of the config file (None = no such file) *)
Definition open_bytes (f : option str) : option (state * src_table * src_table) :=
  match f with
  | None => match open_store None with Some st => Some (st, [], []) | None => None end
  | Some text =>
      match read_config text with
      | None => None
      | Some l => match open_store (Some (l_doc l)) with
                  | Some st => Some (st, l_tops l, l_ents l)
                  | None => None
                  end
      end
  end.

(* credentials.NewStore on the bytes of the config file: the store and the credHelpers map *)
Definition open_dynamic (f : option str) : option (state * src_table * src_table * list (str * str)) :=
  match f with
  | None => match open_store None with Some st => Some (st, [], [], []) | None => None end
  | Some text =>
      match read_config text with
      | None => None
      | Some l => match open_store (Some (l_doc l)) with
                  | Some st => Some (st, l_tops l, l_ents l, l_helpers l)
                  | None => None
                  end
      end
  end.
