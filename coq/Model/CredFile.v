(* C18 -- executable model of the credentials FileStore
   (registry/remote/credentials/file_store.go, internal/config/config.go).

   The docker config document is a key-unique association list of top-level keys
   to values.  Values this library does not interpret are OPAQUE: a canonical
   raw text (never re-encoded by the model, like json.RawMessage) plus the JSON
   kind that Load's type checks look at.  An auths entry is either the entry
   shape that Put writes ([Fresh]: at most auth/identitytoken/registrytoken, all
   non-empty strings; omitted = empty) or any other JSON value ([Old raw view])
   with the AuthConfig view encoding/json gives of it.

   base64 is a parameter (section variables); the extracted runner instantiates
   it with Model/Base64.v.  No proofs in this file. *)
From Oras Require Import Base.Prelude Generated.GC18 Model.Utf8 Model.Json.

Definition colon : N := 58.
Definition slash : N := 47.

(* ---------- association lists with [str] keys ---------- *)
Section Assoc.
  Context {V : Type}.
  Fixpoint lookup (k : str) (l : list (str * V)) : option V :=
    match l with
    | [] => None
    | (k', v) :: r => if str_eqb k k' then Some v else lookup k r
    end.
  Definition del (k : str) (l : list (str * V)) : list (str * V) :=
    filter (fun kv => negb (str_eqb k (fst kv))) l.
  (* Go: m[k] = v *)
  Definition set (k : str) (v : V) (l : list (str * V)) : list (str * V) :=
    (k, v) :: del k l.
End Assoc.

(* ---------- strings.TrimPrefix / strings.Cut / ToHostname ---------- *)
Fixpoint strip_prefix (p s : str) : option str :=
  match p, s with
  | [], _ => Some s
  | c :: p', d :: s' => if c =? d then strip_prefix p' s' else None
  | _ :: _, [] => None
  end.

Definition trim_prefix (p s : str) : str :=
  match strip_prefix p s with Some r => r | None => s end.

Definition cut_before (c : N) (s : str) : str :=
  match index_of c s with Some i => firstn i s | None => s end.

(* config.ToHostname: the TrimPrefix sequence and the Cut byte are regenerated from
   config.go on every run (Generated/GC18.v, kind c18_trimcut) *)
Definition to_hostname (addr : str) : str :=
  cut_before toHostname_cut (fold_left (fun a p => trim_prefix p a) toHostname_prefixes addr).

(* ---------- credentials ---------- *)
Record cred := { c_user : str; c_pass : str; c_refresh : str; c_access : str }.
Definition empty_cred : cred := {| c_user := []; c_pass := []; c_refresh := []; c_access := [] |}.

Inductive view :=
| VErr                                              (* json.Unmarshal into AuthConfig fails *)
| VFields (auth idtok regtok user pass : str).

Inductive entry :=
| Fresh (auth idtok regtok : str)
| Old (raw : str) (v : view).

Inductive kind := KNull | KStr | KObjStr | KObj | KOther.

Inductive tval :=
| TRaw (raw : str) (k : kind)
| TAuths (l : list (str * entry))
| TCs (s : str).

Definition fdoc := list (str * tval).

Inductive result :=
| ROk
| RCred (c : cred)
| RErrFormat          (* config.ErrInvalidConfigFormat *)
| RErrBadCred         (* credentials.ErrBadCredentialFormat *)
| RErrPutDisabled     (* credentials.ErrPlaintextPutDisabled *)
| RErrIO              (* saveFile failed (an I/O error) *)
| RNative.            (* routed to a native credential helper (outside this model) *)

Inductive op :=
| Get (a : str)
| Put (a : str) (c : cred)
| Delete (a : str)
| SetCs (s : str).     (* Config.SetCredentialsStore (called by DynamicStore.Put) *)

(* FileStore.Put accepts: validateCredentialFormat (no colon in the username; the
   tokens, which are written as JSON strings, are valid UTF-8) and a server
   address that is valid UTF-8 (it becomes a JSON object key).  Username and
   password travel base64-encoded and may hold any bytes. *)
Definition cred_field (name : str) (c : cred) : str :=
  if str_eqb name (b "Username") then c_user c
  else if str_eqb name (b "Password") then c_pass c
  else if str_eqb name (b "RefreshToken") then c_refresh c
  else if str_eqb name (b "AccessToken") then c_access c
  else [].

(* validateCredentialFormat, interpreted from its regenerated tables (kind c18_credchecks) *)
Definition validate_credential_format (c : cred) : bool :=
  forallb (fun fr => negb (contains (snd fr) (cred_field (fst fr) c))) validateCredentialFormat_norune &&
  forallb (fun f => valid_utf8 (cred_field f c)) validateCredentialFormat_utf8.

(* one guard of FileStore.Put (kind c18_putguards); DisablePut is a switch of the store
   ([fs_step]); a guard this model does not know refuses everything, which breaks
   Proofs/CredFile.v put_accepts_spec *)
Definition put_guard (a : str) (c : cred) (g : str) : bool :=
  if str_eqb g (b "DisablePut") then true
  else if str_eqb g (b "call:validateCredentialFormat") then validate_credential_format c
  else if str_eqb g (b "utf8:serverAddress") then valid_utf8 a
  else false.

Definition put_accepts (a : str) (c : cred) : bool := forallb (put_guard a c) fileStorePut_guards.

Record mem := { m_content : fdoc; m_cache : list (str * entry); m_cs : str }.

(* in-memory store + the parsed document currently at the config path *)
Record state := { st_mem : mem; st_file : option fdoc }.

Section Model.
  Variable b64enc : str -> str.
  Variable b64dec : str -> option str.

  (* encodeAuth *)
  Definition encode_auth (u p : str) : str :=
    match u, p with
    | [], [] => []
    | _, _ => b64enc (u ++ colon :: p)
    end.

  (* decodeAuth; None = error *)
  Definition decode_auth (a : str) : option (str * str) :=
    match a with
    | [] => Some ([], [])
    | _ => match b64dec a with
           | None => None
           | Some d => match index_of colon d with
                       | None => None
                       | Some i => Some (firstn i d, skipn (S i) d)
                       end
           end
    end.

  (* NewAuthConfig + json.Marshal (omitempty) *)
  Definition entry_of_cred (c : cred) : entry :=
    Fresh (encode_auth (c_user c) (c_pass c)) (c_refresh c) (c_access c).

  (* json.Unmarshal into AuthConfig + AuthConfig.Credential *)
  Definition cred_of_fields (auth idtok regtok user pass : str) : result :=
    match auth with
    | [] => RCred {| c_user := user; c_pass := pass; c_refresh := idtok; c_access := regtok |}
    | _ => match decode_auth auth with
           | Some (u, p) => RCred {| c_user := u; c_pass := p; c_refresh := idtok; c_access := regtok |}
           | None => RErrFormat
           end
    end.

  Definition cred_of_entry (e : entry) : result :=
    match e with
    | Fresh a i r => cred_of_fields a i r [] []
    | Old _ VErr => RErrFormat
    | Old _ (VFields a i r u p) => cred_of_fields a i r u p
    end.

  (* the same at the level of BYTES: PutCredential keeps json.Marshal(authCfg) in the
     cache (and saveFile writes it, re-indented); GetCredential json.Unmarshals it *)
  Definition entry_bytes (c : cred) : str :=
    render_fresh (encode_auth (c_user c) (c_pass c)) (c_refresh c) (c_access c).

  Definition cred_of_bytes (raw : str) : result :=
    match parse_fresh raw with
    | Some (a, i, r) => cred_of_fields a i r [] []
    | None => RErrFormat
    end.

  (* the legacy-key scan of GetCredential, in the iteration order given by the list *)
  Definition legacy_matches (a : str) (cache : list (str * entry)) : list (str * entry) :=
    filter (fun kv => str_eqb (to_hostname (fst kv)) a) cache.

  (* GetCredential; the order of [cache] stands for Go's map iteration order *)
  Definition get_cache (cache : list (str * entry)) (a : str) : result :=
    match lookup a cache with
    | Some e => cred_of_entry e
    | None => match legacy_matches a cache with
              | [] => RCred empty_cred
              | (_, e) :: _ => cred_of_entry e
              end
    end.

  (* every result some iteration order can produce *)
  Definition get_candidates (cache : list (str * entry)) (a : str) : list result :=
    match lookup a cache with
    | Some e => [cred_of_entry e]
    | None => match legacy_matches a cache with
              | [] => [RCred empty_cred]
              | l => map (fun kv => cred_of_entry (snd kv)) l
              end
    end.

  (* ---------- Load ---------- *)
  Definition cs_ok (d : fdoc) : bool :=
    match lookup configFieldCredentialsStore d with
    | None | Some (TCs _) | Some (TRaw _ KNull) => true
    | _ => false
    end.
  Definition helpers_ok (d : fdoc) : bool :=
    match lookup configFieldCredentialHelpers d with
    | None | Some (TRaw _ KNull) | Some (TRaw _ KObjStr) => true
    | _ => false
    end.
  Definition auths_ok (d : fdoc) : bool :=
    match lookup configFieldAuths d with
    | None | Some (TAuths _) | Some (TRaw _ KNull) => true
    | _ => false
    end.

  Definition empty_mem : mem := {| m_content := []; m_cache := []; m_cs := [] |}.

  Definition load_doc (d : fdoc) : option mem :=
    if cs_ok d && helpers_ok d && auths_ok d then
      Some {| m_content := d;
              m_cache := match lookup configFieldAuths d with Some (TAuths l) => l | _ => [] end;
              m_cs := match lookup configFieldCredentialsStore d with Some (TCs s) => s | _ => [] end |}
    else None.

  (* NewFileStore on a config path holding [f] (None = no such file) *)
  Definition open_store (f : option fdoc) : option state :=
    match f with
    | None => Some {| st_mem := empty_mem; st_file := None |}
    | Some d => match load_doc d with
                | Some m => Some {| st_mem := m; st_file := Some d |}
                | None => None
                end
    end.

  (* ---------- reading a file: encoding/json decodes object keys and the strings
     it interprets into Go strings, LOSSILY (Model/Utf8.v [sanitize]): a lone
     surrogate escape becomes U+FFFD.  This happens to the top-level keys, the
     auths keys and credsStore; raw values (json.RawMessage) keep their text.
     [open_store] works on documents whose strings already are Go strings;
     [open_file] is NewFileStore on the document as it is on disk. ---------- *)
  Definition decode_tval (v : tval) : tval :=
    match v with
    | TRaw raw k => TRaw raw k
    | TAuths l => TAuths (map (fun ae => (sanitize (fst ae), snd ae)) l)
    | TCs s => TCs (sanitize s)
    end.
  Definition decode_doc (d : fdoc) : fdoc :=
    map (fun kv => (sanitize (fst kv), decode_tval (snd kv))) d.

  Definition open_file (f : option fdoc) : option state :=
    match f with
    | None => open_store None
    | Some d => match open_store (Some (decode_doc d)) with
                | Some st => Some {| st_mem := st_mem st; st_file := Some d |}
                | None => None
                end
    end.

  (* ---------- saveFile: the document that is marshalled ---------- *)
  Definition saved_doc (m : mem) : fdoc :=
    set configFieldAuths (TAuths (m_cache m))
        (match m_cs m with
         | [] => del configFieldCredentialsStore (m_content m)
         | s => set configFieldCredentialsStore (TCs s) (m_content m)
         end).

  Definition save (m : mem) : state :=
    let d := saved_doc m in
    {| st_mem := {| m_content := d; m_cache := m_cache m; m_cs := m_cs m |}; st_file := Some d |}.

  (* ---------- operations ---------- *)
  Definition step (st : state) (o : op) : state * result :=
    let m := st_mem st in
    match o with
    | Get a => (st, get_cache (m_cache m) a)
    | Put a c =>
        if negb (put_accepts a c) then (st, RErrBadCred)
        else (save {| m_content := m_content m;
                      m_cache := set a (entry_of_cred c) (m_cache m);
                      m_cs := m_cs m |}, ROk)
    | Delete a =>
        match lookup a (m_cache m) with
        | None => (st, ROk)
        | Some _ => (save {| m_content := m_content m; m_cache := del a (m_cache m); m_cs := m_cs m |}, ROk)
        end
    | SetCs s => (save {| m_content := m_content m; m_cache := m_cache m; m_cs := s |}, ROk)
    end.

  Fixpoint run (st : state) (h : list op) : state :=
    match h with
    | [] => st
    | o :: h' => run (fst (step st o)) h'
    end.

  (* run, collecting the result and the file after every operation *)
  Fixpoint run_obs (st : state) (h : list op) : list (result * option fdoc) :=
    match h with
    | [] => []
    | o :: h' => let '(st', r) := step st o in (r, st_file st') :: run_obs st' h'
    end.

  (* FileStore.Put/Get/Delete with the DisablePut switch (checked before the
     credential format) *)
  Definition fs_step (disable_put : bool) (st : state) (o : op) : state * result :=
    match o with
    | Put _ _ => if disable_put then (st, RErrPutDisabled) else step st o
    | _ => step st o
    end.

  Fixpoint fs_run (disable_put : bool) (st : state) (h : list op) : state :=
    match h with
    | [] => st
    | o :: h' => fs_run disable_put (fst (fs_step disable_put st o)) h'
    end.

  (* DynamicStore (store.go, DetectDefaultNativeStore off): getStore routes an address to
     a server-specific credential helper (credHelpers, the map read at Load), else to the
     configured credsStore, else to the config file itself with DisablePut =
     not AllowPlaintextPut.  Native helpers are external programs: outside the model *)
  (* Config.GetCredentialHelper: "" when there is none *)
  Definition helper_of (helpers : list (str * str)) (a : str) : str :=
    match lookup a helpers with Some h => h | None => [] end.

  Definition ds_route (helpers : list (str * str)) (st : state) (a : str) : option str :=
    match helper_of helpers a with
    | c :: h => Some (c :: h)
    | [] => match m_cs (st_mem st) with
            | [] => None
            | cs => Some cs
            end
    end.

  Definition ds_step (allow_plaintext : bool) (helpers : list (str * str)) (st : state) (o : op) : state * result :=
    match o with
    | SetCs _ => (st, ROk)                       (* not an operation of the DynamicStore *)
    | Get a | Put a _ | Delete a =>
        match ds_route helpers st a with
        | Some _ => (st, RNative)
        | None => fs_step (negb allow_plaintext) st o
        end
    end.

  Fixpoint ds_run (allow_plaintext : bool) (helpers : list (str * str)) (st : state) (h : list op) : state :=
    match h with
    | [] => st
    | o :: h' => ds_run allow_plaintext helpers (fst (ds_step allow_plaintext helpers st o)) h'
    end.

  (* does the operation write the file? *)
  Definition saves (st : state) (o : op) : bool :=
    match o with
    | Get _ => false
    | Put a c => put_accepts a c
    | Delete a => match lookup a (m_cache (st_mem st)) with Some _ => true | None => false end
    | SetCs _ => true
    end.

  (* an operation whose save fails with an I/O error: Put/Delete/SetCredentialsStore
     undo their cache update and report the error -- nothing changes ([io_fails]
     says whether the save of this operation fails; operations that do not save
     cannot fail) *)
  Definition step_io (io_fails : bool) (st : state) (o : op) : state * result :=
    if io_fails && saves st o then (st, RErrIO) else step st o.

  (* history: before the fix "a failed save no longer leaves the in-memory cache
     changed" the update stayed in memory (the file, of course, kept the old
     document) *)
  Definition step_io_prefix (io_fails : bool) (st : state) (o : op) : state * result :=
    if io_fails && saves st o
    then ({| st_mem := st_mem (fst (step st o)); st_file := st_file st |}, RErrIO)
    else step st o.


  (* ---------- concurrency: threads are sequences of operations; every
     operation is one critical section of the RWMutex.  A schedule names the
     thread that enters its next critical section. ---------- *)
  Fixpoint nth_thread (ts : list (list op)) (i : nat) : option (op * list (list op)) :=
    match ts, i with
    | [], _ => None
    | [] :: _, O => None
    | (o :: t) :: r, O => Some (o, t :: r)
    | t :: r, S j => match nth_thread r j with
                     | Some (o, r') => Some (o, t :: r')
                     | None => None
                     end
    end.

  (* run a schedule; the log records (thread, op, result) in execution order *)
  Fixpoint run_sched (st : state) (ts : list (list op)) (sched : list nat)
    : state * list (nat * op * result) :=
    match sched with
    | [] => (st, [])
    | i :: s' =>
        match nth_thread ts i with
        | None => run_sched st ts s'          (* thread finished / no such thread: skip *)
        | Some (o, ts') =>
            let '(st', r) := step st o in
            let '(stf, log) := run_sched st' ts' s' in
            (stf, (i, o, r) :: log)
        end
    end.
End Model.

(* ---------- the in-memory Store (memory_store.go): a map address -> credential;
   Put accepts everything, the FileStore's colon rule is applied by the caller
   of this reference ([mem_step] refuses like the FileStore so that the two can be
   compared operation by operation) ---------- *)
Definition mem_step (m : list (str * cred)) (o : op) : list (str * cred) * result :=
  match o with
  | Get a => (m, RCred (match lookup a m with Some c => c | None => empty_cred end))
  | Put a c => if negb (put_accepts a c) then (m, RErrBadCred) else (set a c m, ROk)
  | Delete a => (del a m, ROk)
  | SetCs _ => (m, ROk)
  end.

Fixpoint mem_results (m : list (str * cred)) (h : list op) : list result :=
  match h with
  | [] => []
  | o :: h' => snd (mem_step m o) :: mem_results (fst (mem_step m o)) h'
  end.

Definition op_addr (o : op) : str :=
  match o with Get a | Put a _ | Delete a => a | SetCs _ => [] end.

(* ---------- history: Load before the fix "a config file holding JSON null no
   longer makes Put panic".  json.Decode of the document `null` left
   Config.content a nil map: reads and deletes on it are fine, the assignment
   cfg.content["auths"] = ... in saveFile panics.  [None] = nil map. ---------- *)
Inductive jdoc := JNull | JObject (d : fdoc).

Definition load_content_prefix (j : jdoc) : option fdoc :=
  match j with JNull => None | JObject d => Some d end.

(* saveFile's map writes; None = run-time panic "assignment to entry in nil map" *)
Definition save_content_prefix (content : option fdoc) (cache : list (str * entry)) : option fdoc :=
  match content with
  | None => None
  | Some d => Some (set configFieldAuths (TAuths cache) (del configFieldCredentialsStore d))
  end.

(* after the fix a nil map is replaced by an empty one *)
Definition load_content (j : jdoc) : option fdoc :=
  match j with JNull => Some [] | JObject d => Some d end.
