(* C14 — the delivery step of syncutil.Merge.complete at channel granularity.

   In Model/Merge.v the hand-over of a batch result to the members of the batch is ONE
   event (EComplete).  This file models what the code does instead:

     if err == nil { close(m.status) }
     else { for remaining := len(m.items)-1; remaining > 0; remaining-- { m.status <- mergeStatus{err: err} } }
     ... then the locked part (swap), after which m.status is a different channel ...

   over the buffered-1 status channel of the batch (its buffer is empty: the main
   status was taken by the main caller), and each waiter's `status := <-ch`:
   a buffered value, or the zero mergeStatus (err == nil) of a closed channel.  After
   the swap the old channel is reachable only from the waiters that still hold it
   ("late receivers"), so nothing else can interfere with it.  No proofs here. *)
From Oras Require Import Base.Prelude Model.Referrers Model.Merge.

Record dstate := mkD {
  d_buf : option result;      (* the one buffer slot *)
  d_closed : bool;
  d_remaining : nat;          (* sends the main caller still has to do *)
  d_main_done : bool;         (* the main caller has left the notification part *)
  d_waiting : list tid;       (* members still blocked in <-ch *)
  d_received : list (tid * result)
}.

Inductive devent := DClose | DSend | DFinish | DRecv (t : tid).

Definition is_ok (r : result) : bool := match r with ROk => true | _ => false end.

(* ws = the members of the batch other than the main caller *)
Definition dinit (ws : list tid) : dstate := mkD None false (length ws) false ws [].

Definition remove_tid (t : tid) (l : list tid) : list tid := filter (fun x => negb (Nat.eqb x t)) l.

Definition dstep (r : result) (d : dstate) (e : devent) : option dstate :=
  match e with
  | DClose =>
      if d_main_done d || negb (is_ok r) || d_closed d then None
      else Some (mkD (d_buf d) true (d_remaining d) false (d_waiting d) (d_received d))
  | DSend =>
      if d_main_done d || is_ok r then None
      else match d_remaining d, d_buf d with
           | S k, None => Some (mkD (Some r) (d_closed d) k false (d_waiting d) (d_received d))
           | _, _ => None          (* nothing left to send / buffer full: the send blocks *)
           end
  | DFinish =>
      if d_main_done d then None
      else if (if is_ok r then d_closed d else Nat.eqb (d_remaining d) 0)
           then Some (mkD (d_buf d) (d_closed d) (d_remaining d) true (d_waiting d) (d_received d))
           else None
  | DRecv t =>
      if mem t (d_waiting d) then
        match d_buf d with
        | Some x => Some (mkD None (d_closed d) (d_remaining d) (d_main_done d)
                              (remove_tid t (d_waiting d)) ((t, x) :: d_received d))
        | None =>
            if d_closed d   (* zero mergeStatus: main = false, err = nil *)
            then Some (mkD None true (d_remaining d) (d_main_done d)
                           (remove_tid t (d_waiting d)) ((t, ROk) :: d_received d))
            else None
        end
      else None
  end.

Fixpoint drun (r : result) (d : dstate) (tr : list devent) : option dstate :=
  match tr with
  | [] => Some d
  | e :: tr' => match dstep r d e with Some d' => drun r d' tr' | None => None end
  end.

Definition dstuck (r : result) (d : dstate) : Prop := forall e, dstep r d e = None.

(* the members the atomic EComplete of Model/Merge.v notifies *)
Definition waiters (s : state) (t : tid) : list tid := remove_tid t (batch s).
