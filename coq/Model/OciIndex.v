(* Executable model of the OCI-layout store of content/oci (oci.go, readonlyoci.go,
   storage.go, readonlystorage.go) with internal/resolver/memory.go, as far as C08
   needs it.  No proofs in this file.

   Universe (parameters of the section; the harness sends them with every case):
     nodes are natural numbers, one per *digest* (descriptor-consistent inputs: a
     digest is only ever used with one media type and size);
     [mf k]    descriptor.IsManifest of node k's media type,
     [succs k] content.Successors of k (ordered, duplicates kept, foreign layers
               included; [] for non-manifests),
     [subj k]  manifestutil.Subject of k,
     [sk k]    k's media type is one manifestutil.Subject fetches (image manifest,
               image index, artifact manifest),
     [bad k]   k has a manifest media type but its bytes are no JSON manifest
               (content.Successors fails on it),
     [dflt k]  node k's media type is descriptor.DefaultMediaType
               (application/octet-stream), i.e. resolveBlob's descriptor equals
               the node's plain descriptor.
   Reference strings: [RTag t] a tag name (t indexes a pool of names that are no
   digest strings), [RDig k] the digest string of node k.

   Go maps: the resolver map is an association list with unique keys ([rset]
   removes the key first); every Go `range` over it takes an explicit order
   (a choice list fed to [shuffle], which always returns a permutation).

   graph.Memory is represented by its node set; Predecessors is derived
   ({p in nodes | n in succs p}), which is graph.Memory's representation invariant
   (C07).  The per-call status tracker of IndexAll is replaced by "skip nodes
   already in the graph" (equivalent because every addition to a graph that
   IndexAll works on is made by IndexAll, hence closure complete).

   [fixF2]/[fixA] select the repaired GC (true) or the code as found (false):
     fixF2: GC saves index.json (when AutoSaveIndex) after rebuilding the maps;
     fixA : gcIndex keeps the digest reference of every node that stays in the
            rebuilt graph;
     fixF1: the referrer pass of gcIndex walks the subject chain and repeats until
            nothing changes (false: the pass as found, which never returns when a
            referrer's subject is not in the rebuilt graph: result RHang).
     fixRef : Tag refuses a reference that is the digest string of other content than
            the descriptor's (false: the code as found accepts it as a tag name);
     fixHold: Delete with AutoGC does not queue the referrers of a deleted manifest directly:
            they wait in a pending list and are queued, after each deletion of the cascade,
            once no surviving (not queued) manifest links to them other than as its subject.
   Delete (queue-once, tagged referrers kept, never-stored danglings skipped) and
   resolver.Memory.Tag (moved reference leaves the old tag set) are modelled as
   repaired (C09 owns their pre-fix variants). *)
From Coq Require Import List Arith Bool PeanoNat.
Import ListNotations.

Inductive ref := RTag (t : nat) | RDig (k : nat).

Definition ref_eqb (a b : ref) : bool :=
  match a, b with
  | RTag x, RTag y => Nat.eqb x y
  | RDig x, RDig y => Nat.eqb x y
  | _, _ => false
  end.

(* A descriptor: the node (media type, digest, size), an opaque identifier of
   everything else it carries (annotations other than the ref name, platform,
   artifactType, urls...; 0 = nothing), and the value of the annotation
   org.opencontainers.image.ref.name if present. *)
Record desc := mkDesc { d_node : nat; d_extra : nat; d_refann : option ref }.

Definition strip (d : desc) : desc := mkDesc (d_node d) (d_extra d) None.       (* deleteAnnotationRefName *)
Definition with_ref (d : desc) (r : ref) : desc := mkDesc (d_node d) (d_extra d) (Some r).
Definition plain (k : nat) : desc := mkDesc k 0 None.

Definition mem (n : nat) (l : list nat) : bool := existsb (Nat.eqb n) l.
Definition add (n : nat) (l : list nat) : list nat := if mem n l then l else n :: l.
Definition del (n : nat) (l : list nat) : list nat := filter (fun x => negb (Nat.eqb n x)) l.

(* ---------- Go map with unique keys ---------- *)
Definition rmap := list (ref * desc).

Fixpoint lookup (r : ref) (m : rmap) : option desc :=
  match m with
  | [] => None
  | (k, v) :: m' => if ref_eqb r k then Some v else lookup r m'
  end.
Definition runset (r : ref) (m : rmap) : rmap := filter (fun kv => negb (ref_eqb r (fst kv))) m.
Definition rset (r : ref) (d : desc) (m : rmap) : rmap := (r, d) :: runset r m.

(* a permutation chosen by a list of indices (Go map iteration order) *)
Fixpoint remove_at {A} (i : nat) (l : list A) : list A :=
  match l with
  | [] => []
  | x :: l' => match i with 0 => l' | S j => x :: remove_at j l' end
  end.
Fixpoint shuffle {A} (cs : list nat) (l : list A) : list A :=
  match cs with
  | [] => l
  | c :: cs' =>
    match nth_error l (c mod length l) with
    | Some x => x :: shuffle cs' (remove_at (c mod length l) l)
    | None => l
    end
  end.

(* ---------- resolver.Memory ---------- *)
Record resolver := mkRes { r_index : rmap; r_tags : list (nat * ref) }.
Definition res_empty := mkRes [] [].

Definition pair_eqb (a b : nat * ref) : bool := Nat.eqb (fst a) (fst b) && ref_eqb (snd a) (snd b).
Definition tags_add (p : nat * ref) (l : list (nat * ref)) := if existsb (pair_eqb p) l then l else p :: l.
Definition tags_del (p : nat * ref) (l : list (nat * ref)) := filter (fun q => negb (pair_eqb p q)) l.

(* Memory.Tag: index[ref] = desc; a reference that moves to other content leaves the tag
   set of its previous target; tags[desc.Digest] += ref *)
Definition res_tag (d : desc) (r : ref) (m : resolver) : resolver :=
  let tg := match lookup r (r_index m) with
            | Some old => if Nat.eqb (d_node old) (d_node d) then r_tags m
                          else tags_del (d_node old, r) (r_tags m)
            | None => r_tags m
            end in
  mkRes (rset r d (r_index m)) (tags_add (d_node d, r) tg).
(* Memory.Untag *)
Definition res_untag (r : ref) (m : resolver) : resolver :=
  match lookup r (r_index m) with
  | None => m
  | Some d => mkRes (runset r (r_index m)) (tags_del (d_node d, r) (r_tags m))
  end.
Definition tagset (k : nat) (m : resolver) : list ref :=
  map snd (filter (fun p => Nat.eqb (fst p) k) (r_tags m)).

(* `ref == desc.Digest.String()` *)
Definition is_digest_ref (r : ref) (d : desc) : bool := ref_eqb r (RDig (d_node d)).

(* ---------- saveIndex: the Manifests list of index.json ---------- *)
Definition save_pass1 (l : rmap) : list desc :=
  flat_map (fun kv => if is_digest_ref (fst kv) (snd kv) then [] else [with_ref (snd kv) (fst kv)]) l.
Definition save_pass2 (tagged : list nat) (l : rmap) : list desc :=
  flat_map (fun kv => if is_digest_ref (fst kv) (snd kv) && negb (mem (d_node (snd kv)) tagged)
                      then [strip (snd kv)] else []) l.
Definition save_index (c1 c2 : list nat) (m : rmap) : list desc :=
  let p1 := save_pass1 (shuffle c1 m) in
  p1 ++ save_pass2 (map d_node p1) (shuffle c2 m).

(* iteration orders of the Go maps an operation ranges over: the two passes of saveIndex,
   the two passes of gcIndex, and, per iteration of Delete's queue loop, the predecessor
   set read by registry.Referrers and the successor set read by graph.Memory.Remove *)
Record orders := mkOrd { o_save1 : list nat; o_save2 : list nat; o_gc1 : list nat;
                         o_gc2 : list (list nat);          (* one per round of the referrer pass *)
                         o_del : list (list nat * list nat) }.
Definition ord0 := mkOrd [] [] [] [] [].

Inductive result := ROk | RAlreadyExists | RNotFound | RInvalidReference | RHang | ROutOfFuel | RBadContent.

Inductive rdig := DPlain (k : nat) | DFull (d : desc) | DBlob (k : nat) | DNotFound.

Section Universe.
  Variable N : nat.
  Variable mf : nat -> bool.
  Variable succs : nat -> list nat.
  Variable subj : nat -> option nat.
  Variable sk : nat -> bool.
  Variable bad : nat -> bool.
  Variable dflt : nat -> bool.
  Variable fixF2 fixA fixF1 fixHold fixRef : bool.

  (* ---------- graph.Memory.IndexAll into a node set ---------- *)
  Fixpoint visit (fuel : nat) (present : nat -> bool) (n : nat) (g : list nat) : list nat :=
    match fuel with
    | 0 => g
    | S f =>
      if mem n g then g
      else if mf n then
             (if present n then fold_left (fun acc c => visit f present c acc) (succs n) (n :: g)
              else g)                      (* Successors: fetch fails with NotFound: skipped *)
           else n :: g                     (* non-manifest: Successors = nil without fetching *)
    end.
  Definition index_all (blobs : list nat) (root : nat) (g : list nat) : list nat :=
    visit (S N) (fun k => mem k blobs) root g.

  Definition predecessors (g : list nat) (n : nat) : list nat :=
    filter (fun p => mem p g && mem n (succs p)) (seq 0 N).

  (* graph.Memory.Remove: new node set and the danglings *)
  Definition has_pred (g : list nat) (n : nat) : bool := existsb (fun p => mem n (succs p)) g.
  Definition graph_remove (k : nat) (g : list nat) : list nat * list nat :=
    if mem k g then
      let g' := del k g in
      (g', filter (fun s => mem s g' && negb (has_pred g' s)) (nodup Nat.eq_dec (succs k)))
    else (g, []).

  (* ---------- the store ---------- *)
  Record store := mkStore {
    blobs : list nat;          (* blobs/<alg>/<hex> files *)
    res : resolver;            (* tagResolver *)
    gr : list nat;             (* graph (node set) *)
    disk : list desc           (* index.json: Manifests, ref name in d_refann *)
  }.
  Record config := mkCfg { autosave : bool; autogc : bool }.

  Definition store_empty := mkStore [] res_empty [] [].

  Definition do_save (o : orders) (s : store) : store :=
    mkStore (blobs s) (res s) (gr s) (save_index (o_save1 o) (o_save2 o) (r_index (res s))).
  Definition maybe_save (cfg : config) (o : orders) (s : store) : store :=
    if autosave cfg then do_save o s else s.

  (* Store.tag *)
  Definition st_tag (cfg : config) (o : orders) (d : desc) (r : ref) (s : store) : store :=
    let m0 := res s in
    let m1 := if is_digest_ref r d then m0 else res_tag d (RDig (d_node d)) m0 in
    let m2 := res_tag d r m1 in
    maybe_save cfg o (mkStore (blobs s) m2 (gr s) (disk s)).

  (* Store.Push with descriptor d (the digest entry of a manifest keeps what d carries) *)
  Definition st_push_desc (cfg : config) (o : orders) (d : desc) (s : store) : store * result :=
    let k := d_node d in
    if mem k (blobs s) then (s, RAlreadyExists)
    else if bad k then (s, RBadContent)    (* graph.Index fails: the blob is removed again *)
    else
      let s1 := mkStore (k :: blobs s) (res s) (add k (gr s)) (disk s) in
      if mf k then (st_tag cfg o d (RDig k) s1, ROk) else (s1, ROk).
  (* ... with the plain descriptor of node k *)
  Definition st_push (cfg : config) (o : orders) (k : nat) (s : store) : store * result :=
    st_push_desc cfg o (plain k) s.

  (* Store.Tag (reference non-empty) *)
  Definition st_tagop (cfg : config) (o : orders) (d : desc) (r : ref) (s : store) : store * result :=
    if fixRef && negb (match r with RDig k => Nat.eqb k (d_node d) | RTag _ => true end)
    then (s, RInvalidReference)
    else if mem (d_node d) (blobs s) then (st_tag cfg o d r s, ROk) else (s, RNotFound).

  (* Store.Untag (reference non-empty) *)
  Definition st_untag (cfg : config) (o : orders) (r : ref) (s : store) : store * result :=
    match lookup r (r_index (res s)) with
    | None => (s, RNotFound)
    | Some d =>
      if is_digest_ref r d then (s, RInvalidReference)
      else (maybe_save cfg o (mkStore (blobs s) (res_untag r (res s)) (gr s) (disk s)), ROk)
    end.

  (* Store.delete of node k (content.Equal = same node).  The untag loop ranges over the
     resolver map; its result does not depend on the order (each step filters one key). *)
  Definition delete1 (cfg : config) (o : orders) (k : nat) (s : store) : store * list nat * bool :=
    let refs := map fst (filter (fun kv => Nat.eqb (d_node (snd kv)) k) (r_index (res s))) in
    let m := fold_left (fun m r => res_untag r m) refs (res s) in
    let gd := graph_remove k (gr s) in
    let s1 := mkStore (blobs s) m (fst gd) (disk s) in
    let s2 := match refs with [] => s1 | _ => maybe_save cfg o s1 end in
    if mem k (blobs s) then (mkStore (del k (blobs s)) (res s2) (gr s2) (disk s2), snd gd, true)
    else (s2, snd gd, false).

  (* Store.isTagged *)
  Definition is_tagged (k : nat) (s : store) : bool :=
    let ts := tagset k (res s) in
    if existsb (ref_eqb (RDig k)) ts then Nat.ltb 1 (length ts) else Nat.ltb 0 (length ts).

  (* registry.Referrers through Predecessors *)
  Definition referrers (s : store) (k : nat) : list nat :=
    filter (fun p => match subj p with Some x => Nat.eqb x k | None => false end) (predecessors (gr s) k).

  (* the queue of Store.Delete with the set of nodes ever queued *)
  Definition enqueue (x : nat) (qq : list nat * list nat) : list nat * list nat :=
    if mem x (snd qq) then qq else (fst qq ++ [x], x :: snd qq).

  (* Store.heldBySurvivor: a predecessor that is not queued and links to p other than as its
     subject *)
  Definition held (s : store) (queued : list nat) (p : nat) : bool :=
    existsb (fun q => negb (mem q queued) &&
                      negb (match subj q with Some x => Nat.eqb x p | None => false end))
            (predecessors (gr s) p).

  Fixpoint delete_loop (fuel : nat) (cfg : config) (o : orders) (ds : list (list nat * list nat))
                       (qq : list nat * list nat) (pending : list nat) (s : store) : store * result :=
    match fuel with
    | 0 => (s, ROutOfFuel)
    | S f =>
      match fst qq with
      | [] => (s, ROk)
      | head :: q =>
        let cs := hd ([], []) ds in
        let qq0 := (q, snd qq) in
        let refs := if autogc cfg && mf head
                    then filter (fun p => negb (is_tagged p s)) (shuffle (fst cs) (referrers s head))
                    else [] in
        let qq1 := if fixHold then qq0 else fold_left (fun a p => enqueue p a) refs qq0 in
        let pend1 := if fixHold then pending ++ refs else pending in
        match delete1 cfg o head s with
        | (s', _, false) => (s', RNotFound)
        | (s', dang, true) =>
          let qq2 := if autogc cfg
                     then fold_left (fun a d => if is_tagged d s' then a
                                                else if mem d (blobs s') then enqueue d a else a)
                                    (shuffle (snd cs) dang) qq1
                     else qq1 in
          let cand := filter (fun p => negb (mem p (snd qq2))) pend1 in
          let ready := filter (fun p => negb (held s' (snd qq2) p)) cand in
          let waiting := filter (fun p => held s' (snd qq2) p) cand in
          delete_loop f cfg o (tl ds) (fold_left (fun a p => enqueue p a) ready qq2) waiting s'
        end
      end
    end.
  Definition st_delete (cfg : config) (o : orders) (k : nat) (s : store) : store * result :=
    delete_loop (S (S N)) cfg o (o_del o) ([k], [k]) [] s.

  (* ---------- gcIndex ---------- *)
  Record gcacc := mkGc { g_res : resolver; g_gr : list nat; g_tagged : list nat }.

  Definition gc_pass1 (bl : list nat) (l : rmap) (a : gcacc) : gcacc :=
    fold_left (fun a kv =>
      let r := fst kv in let d := snd kv in
      if is_digest_ref r d then a
      else mkGc (res_tag d r (res_tag (strip d) (RDig (d_node d)) (g_res a)))
                (index_all bl (d_node d) (g_gr a))
                (d_node d :: g_tagged a)) l a.

  (* None = the referrer walk never returns (the shadowed `subject` is re-read forever);
     Some (a, false) = Subject could not fetch the manifest (GC returns the error) *)
  Fixpoint gc_pass2_old (bl : list nat) (l : rmap) (a : gcacc) : option (gcacc * bool) :=
    match l with
    | [] => Some (a, true)
    | (r, d) :: l' =>
      if negb (is_digest_ref r d) || mem (d_node d) (g_tagged a) then gc_pass2_old bl l' a
      else if sk (d_node d) && negb (mem (d_node d) bl) then Some (a, false)
      else match subj (d_node d) with
           | None => gc_pass2_old bl l' a
           | Some sb =>
             if mem sb (g_gr a)
             then gc_pass2_old bl l' (mkGc (res_tag (strip d) (RDig (d_node d)) (g_res a))
                                       (index_all bl (d_node d) (g_gr a)) (g_tagged a))
             else None
           end
    end.

  (* the repaired referrer pass.  [chain_hits]: walking manifestutil.Subject from node k,
     is a subject met that is already in the rebuilt graph?  A manifest that is not in the
     storage (NotFound) or a node without subject ends the walk. *)
  Fixpoint chain_hits (fuel : nat) (bl g : list nat) (cur : nat) : bool :=
    match fuel with
    | 0 => false
    | S f =>
      if sk cur && negb (mem cur bl) then false
      else match subj cur with
           | None => false
           | Some sb => if mem sb g then true else chain_hits f bl g sb
           end
    end.

  (* one range over the map; g_tagged also collects the kept referrers; the flag says
     whether anything was kept in this round *)
  Definition gc_round (bl : list nat) (l : rmap) (a : gcacc) : gcacc * bool :=
    fold_left (fun ac kv =>
      let a := fst ac in let r := fst kv in let d := snd kv in
      if negb (is_digest_ref r d) || mem (d_node d) (g_tagged a) then ac
      else if chain_hits (S N) bl (g_gr a) (d_node d)
           then (mkGc (res_tag (strip d) (RDig (d_node d)) (g_res a))
                      (index_all bl (d_node d) (g_gr a)) (d_node d :: g_tagged a), true)
           else ac) l (a, false).

  Fixpoint gc_rounds (fuel : nat) (bl : list nat) (m : rmap) (os : list (list nat)) (a : gcacc) : gcacc :=
    match fuel with
    | 0 => a
    | S f =>
      let ab := gc_round bl (shuffle (hd [] os) m) a in
      if snd ab then gc_rounds f bl m (tl os) (fst ab) else fst ab
    end.

  Definition gc_pass2 (bl : list nat) (m : rmap) (o : orders) (a : gcacc) : option (gcacc * bool) :=
    if fixF1 then Some (gc_rounds (S (length m)) bl m (o_gc2 o) a, true)
    else gc_pass2_old bl (shuffle (hd [] (o_gc2 o)) m) a.

  Definition gc_pass3 (l : rmap) (a : gcacc) : gcacc :=
    fold_left (fun a kv =>
      let r := fst kv in let d := snd kv in
      if is_digest_ref r d && mem (d_node d) (g_gr a) then
        match lookup r (r_index (g_res a)) with
        | None => mkGc (res_tag (strip d) r (g_res a)) (g_gr a) (g_tagged a)
        | Some _ => a
        end
      else a) l a.

  (* Store.GC *)
  Definition st_gc (cfg : config) (o : orders) (s : store) : store * result :=
    let m := r_index (res s) in
    let a1 := gc_pass1 (blobs s) (shuffle (o_gc1 o) m) (mkGc res_empty [] []) in
    match gc_pass2 (blobs s) m o a1 with
    | None => (s, RHang)
    | Some (_, false) => (s, RNotFound)
    | Some (a2, true) =>
      let a3 := if fixA then gc_pass3 m a2 else a2 in
      let s1 := mkStore (blobs s) (g_res a3) (g_gr a3) (disk s) in
      let s2 := if fixF2 then maybe_save cfg o s1 else s1 in
      (mkStore (filter (fun k => mem k (g_gr a3)) (blobs s2)) (res s2) (gr s2) (disk s2), ROk)
    end.

  (* ---------- loadIndex / reopening ---------- *)
  Definition load_entry (bl : list nat) (a : resolver * list nat) (e : desc) : resolver * list nat :=
    let m1 := res_tag (strip e) (RDig (d_node e)) (fst a) in
    let m2 := match d_refann e with Some r => res_tag e r m1 | None => m1 end in
    (m2, index_all bl (d_node e) (snd a)).
  Definition load_index (bl : list nat) (ents : list desc) : resolver * list nat :=
    fold_left (load_entry bl) ents (res_empty, []).
  Definition reopen (s : store) : store :=
    let a := load_index (blobs s) (disk s) in
    mkStore (blobs s) (fst a) (snd a) (disk s).

  (* ---------- operations and histories ---------- *)
  Inductive op :=
  | OPush (k : nat)
  | OPushX (d : desc)      (* Push with a descriptor that carries annotations etc. *)
  | OTag (d : desc) (r : ref)
  | OUntag (r : ref)
  | ODelete (k : nat)
  | OGC
  | OSave
  | OReopen        (* close and oci.New on the same directory *)
  | OSetAutoGC (b : bool)  (* assignment to the public field Store.AutoGC *)
  | OInject (k : nat).  (* not a store operation: node k's bytes are written as a blob file
                           behind the store's back ("garbage whose metadata is not stored") *)

  Definition step (cfg : config) (s : store) (oo : op * orders) : store * result :=
    let o := snd oo in
    match fst oo with
    | OPush k => st_push cfg o k s
    | OPushX d => st_push_desc cfg o d s
    | OTag d r => st_tagop cfg o d r s
    | OUntag r => st_untag cfg o r s
    | ODelete k => st_delete cfg o k s
    | OGC => st_gc cfg o s
    | OSave => (do_save o s, ROk)
    | OReopen => (reopen s, ROk)
    | OSetAutoGC _ => (s, ROk)     (* the field lives in [config]: see [next_cfg] *)
    | OInject k => (if mem k (blobs s) then s else mkStore (k :: blobs s) (res s) (gr s) (disk s), ROk)
    end.

  (* AutoGC may be changed between operations (AutoSaveIndex is fixed per history: after
     switching it on, index.json is only current after the next save) *)
  Definition next_cfg (cfg : config) (o : op) : config :=
    match o with OSetAutoGC b => mkCfg (autosave cfg) b | _ => cfg end.

  Fixpoint run (cfg : config) (h : list (op * orders)) (s : store) : store :=
    match h with
    | [] => s
    | oo :: h' => run (next_cfg cfg (fst oo)) h' (fst (step cfg s oo))
    end.

  (* ---------- observations (public API) ---------- *)
  Definition obs_tags (T : nat) (s : store) : list nat :=
    filter (fun t => match lookup (RTag t) (r_index (res s)) with
                     | Some d => negb (is_digest_ref (RTag t) d) | None => false end) (seq 0 T).
  (* Tags(last, fn): the tags after [last]; [f] is the pool index of the first name that is
     greater than last (listTags skips tag <= last) *)
  Definition obs_tags_from (T f : nat) (s : store) : list nat :=
    filter (fun t => Nat.leb f t) (obs_tags T s).
  (* Resolve of a tag name *)
  Definition obs_resolve_tag (s : store) (t : nat) : option desc := lookup (RTag t) (r_index (res s)).
  (* Resolve of the digest string of node k *)
  Definition obs_resolve_dig (s : store) (k : nat) : rdig :=
    match lookup (RDig k) (r_index (res s)) with
    | Some d => if Nat.eqb k (d_node d) then DPlain (d_node d) else DFull d
    | None => if mem k (blobs s) then (if dflt k then DPlain k else DBlob k) else DNotFound
    end.
  Definition obs_exists (s : store) (k : nat) : bool := mem k (blobs s).
  Definition obs_preds (s : store) (k : nat) : list nat := predecessors (gr s) k.

  (* descriptors are compared up to the ref-name annotation *)
  Definition desc_eqb_mod (a b : desc) : bool := Nat.eqb (d_node a) (d_node b) && Nat.eqb (d_extra a) (d_extra b).

  (* index.json validity: every entry points to an existing blob *)
  Definition disk_valid (s : store) : bool := forallb (fun e => mem (d_node e) (blobs s)) (disk s).

  (* ---------- files under blobs/ that are no content of the store (GC's sweep) ---------- *)
  Inductive stray := SValidName      (* blobs/<known alg>/<valid encoded digest>: removed by GC *)
                   | SInvalidName    (* blobs/<known alg>/<not an encoded digest>: skipped *)
                   | SUnknownAlg     (* blobs/<unknown algorithm>/<anything>: directory skipped *)
                   | SBlobsFile.     (* a plain file directly under blobs/: skipped *)
  Definition gc_sweeps_stray (k : stray) : bool := match k with SValidName => true | _ => false end.

  (* ---------- vocabulary of the C08 statements (definitions only) ---------- *)
  (* a reference in digest form names the descriptor's own content (enforced by Tag when
     fixRef; the hypothesis of the pre-fix instance) *)
  Definition wf_tag (d : desc) (r : ref) : Prop := match r with RDig k => k = d_node d | RTag _ => True end.
  (* only non-manifest content is ever put into blobs/ behind the store's back *)
  Definition wf_op (o : op) : Prop :=
    match o with OInject k => mf k = false | _ => True end.
  Definition wf_history (h : list (op * orders)) : Prop := Forall (fun oo => wf_op (fst oo)) h.
  Definition no_reopen (h : list (op * orders)) : Prop := Forall (fun oo => fst oo <> OReopen) h.

  (* every read-write reopen happens right after a SaveIndex (or another reopen, or on the
     fresh store): what "AutoSaveIndex off + SaveIndex" allows *)
  Fixpoint reopen_after_save (saved : bool) (h : list (op * orders)) : Prop :=
    match h with
    | [] => True
    | oo :: h' =>
      match fst oo with
      | OReopen => saved = true /\ reopen_after_save true h'
      | OSave => reopen_after_save true h'
      | _ => reopen_after_save false h'
      end
    end.

  (* store [a] answers every public query like store [b]: tag list, tag -> descriptor up
     to the ref-name annotation, Resolve by digest, Exists/Fetch, Predecessors
     (for every tag name below T and every node, also outside the universe bound) *)
  Record obs_equiv (T : nat) (a b : store) : Prop := {
    oe_tags : obs_tags T a = obs_tags T b;
    oe_tags_from : forall f, obs_tags_from T f a = obs_tags_from T f b;
    oe_rtag : forall t, match obs_resolve_tag a t, obs_resolve_tag b t with
                        | Some x, Some y => desc_eqb_mod x y = true
                        | None, None => True
                        | _, _ => False
                        end;
    oe_rdig : forall k, obs_resolve_dig a k = obs_resolve_dig b k;
    oe_exists : forall k, obs_exists a k = obs_exists b k;
    oe_preds : forall k, obs_preds a k = obs_preds b k }.
End Universe.
