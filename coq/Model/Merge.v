(* C14 — the update protocol of ONE referrers tag as a labelled transition
   system over caller threads:

     internal/syncutil/pool.go    Pool.Get / release (reference counting)
     internal/syncutil/merge.go   Merge.Do = assign, <-status, prepare, commit,
                                  resolve, complete
     registry/remote/repository.go  updateReferrersIndex: prepare = GET index by
                                  tag, update = applyReferrerChanges, PUT the new
                                  index under the tag, DELETE the old one

   State = the Merge fields [committed items pending], the "main" status
   message sitting in the buffered status channel ([token]; m.status == nil
   iff items = []), the Pool entry (reference count), the registry cell of the
   tag (current index + index manifests present) and one program counter per
   caller.  Every lock region and every HTTP exchange is one event, so a trace
   is an interleaving; failures of the three exchanges are event parameters.
   Abstraction (tied to the real Merge by the harness, "M" cases): complete()
   hands the result to all members of the batch in one step (in Go: close of the
   status channel / len(items)-1 buffered sends, received later by the waiters).
   Several tags = independent copies (Pool keys, registry tags and Merge objects
   are disjoint), see Proofs/Merge.v.

   Ghost fields (never read by a guard or an effect of a non-ghost field): the
   thread id paired with each item, [arg], [lin] (order in which calls took
   effect), [applied], [junk] (index manifests that were already there at the
   start, or were left behind by a failed / skipped deletion).  No proofs in this file. *)
From Oras Require Import Base.Prelude Model.Referrers.

Definition tid := nat.
Definition index := list desc.

(* RLost: the caller gets a plain error (like RErr) although the index PUT took effect
   (the response was lost); a ghost distinction - the caller sees RErr *)
Inductive result := ROk | RIdxDel | RErr | RLost.
(* what the caller sees: nil, the index-delete error, or a plain error *)
Definition seen (r : result) : result := match r with RLost => RErr | _ => r end.

Inductive pc :=
| Idle                                  (* updateReferrersIndex not called (yet) *)
| Got (c : change)                      (* Pool.Get done *)
| Wait                                  (* assigned; blocked in <-m.assign(item) *)
| Prep                                  (* status.main: about to call prepare *)
| Prepared (old : option (option index))(* prepare returned; None = error *)
| NeedPut (new : index) (old : option index)
| NeedDel (old : index) (applied : bool)
| Completing (r : result)               (* about to run complete(err) *)
| Ret (r : result)                      (* Do returned, release function pending *)
| Done (r : result).

Record state := mkSt {
  pool : option nat;        (* Pool entry of the tag: reference count *)
  committed : bool;
  items : list (tid * change);
  token : bool;             (* mergeStatus{main: true} buffered in m.status *)
  pending : list (tid * change);
  pcs : tid -> pc;
  reg : option index;       (* index manifest under the referrers tag *)
  store : list index;       (* index manifests present in the registry *)
  arg : tid -> change;      (* ghost *)
  lin : list tid;           (* ghost *)
  junk : list index;        (* ghost *)
  applied : bool            (* ghost: the current batch took effect *)
}.

Inductive event :=
| EGet (t : tid) (c : change)
| EAssign (t : tid)
| ERecvMain (t : tid)
| EPrepare (t : tid) (fail : bool)
| ECommit (t : tid)
| EPut (t : tid) (fail : bool)
| EPutLost (t : tid)              (* the PUT takes effect, its response is lost (5xx / broken connection) *)
| EDel (t : tid) (fail : bool)
| EDelLost (t : tid)              (* the DELETE takes effect, its response is lost *)
| EComplete (t : tid)
| EDone (t : tid)
| EExtDrop.

Definition upd {A} (f : nat -> A) (k : nat) (v : A) : nat -> A :=
  fun x => if Nat.eqb x k then v else f x.

Definition desc_eqb (a b : desc) : bool :=
  (dkey a =? dkey b) && (dart a =? dart b) && (dpay a =? dpay b).
Fixpoint index_eqb (a b : index) : bool :=
  match a, b with
  | [], [] => true
  | x :: a', y :: b' => desc_eqb x y && index_eqb a' b'
  | _, _ => false
  end.

Definition idx (o : option index) : index := match o with Some l => l | None => [] end.
Definition is_nil {A} (l : list A) : bool := match l with [] => true | _ => false end.
Definition batch (s : state) : list tid := map fst (items s).
Definition mem (t : tid) (l : list tid) : bool := existsb (Nat.eqb t) l.

Definition set_pc (s : state) (t : tid) (p : pc) : state :=
  mkSt (pool s) (committed s) (items s) (token s) (pending s) (upd (pcs s) t p)
       (reg s) (store s) (arg s) (lin s) (junk s) (applied s).

(* ghost step: the current batch takes effect *)
Definition add_lin (s : state) : state :=
  mkSt (pool s) (committed s) (items s) (token s) (pending s) (pcs s)
       (reg s) (store s) (arg s) (lin s ++ batch s) (junk s) true.

Definition set_reg (s : state) (r : option index) (st : list index) (j : list index) : state :=
  mkSt (pool s) (committed s) (items s) (token s) (pending s) (pcs s)
       r st (arg s) (lin s) j (applied s).

Definition set_committed (s : state) : state :=
  mkSt (pool s) true (items s) (token s) (pending s) (pcs s)
       (reg s) (store s) (arg s) (lin s) (junk s) (applied s).

(* what follows a successful PUT: step 4 of update *)
Definition after_put (skipgc : bool) (old : option index) : pc :=
  if skipgc then Completing ROk
  else match old with
       | None => Completing ROk
       | Some oi => NeedDel oi true
       end.

Definition step (skipgc : bool) (s : state) (e : event) : option state :=
  match e with
  | EGet t c =>
      (* merge, done := pool.Get(referrersTag) *)
      match pcs s t with
      | Idle =>
          if is_empty (cdesc c) then None else
          match pool s with
          | None =>   (* a fresh (zero) Merge is created *)
              Some (mkSt (Some 1%nat) false [] false [] (upd (pcs s) t (Got c))
                         (reg s) (store s) (upd (arg s) t c) (lin s) (junk s) false)
          | Some rc =>
              Some (mkSt (Some (S rc)) (committed s) (items s) (token s) (pending s) (upd (pcs s) t (Got c))
                         (reg s) (store s) (upd (arg s) t c) (lin s) (junk s) (applied s))
          end
      | _ => None
      end
  | EAssign t =>
      (* m.assign(item) *)
      match pcs s t with
      | Got c =>
          if committed s then
            Some (mkSt (pool s) true (items s) (token s) (pending s ++ [(t, c)]) (upd (pcs s) t Wait)
                       (reg s) (store s) (arg s) (lin s) (junk s) (applied s))
          else
            (* m.status == nil iff no item yet: create it and buffer the main status *)
            Some (mkSt (pool s) false (items s ++ [(t, c)]) (if is_nil (items s) then true else token s)
                       (pending s) (upd (pcs s) t Wait)
                       (reg s) (store s) (arg s) (lin s) (junk s) (applied s))
      | _ => None
      end
  | ERecvMain t =>
      (* a member of the current batch receives mergeStatus{main: true} *)
      match pcs s t with
      | Wait =>
          if token s && mem t (batch s) then
            Some (mkSt (pool s) (committed s) (items s) false (pending s) (upd (pcs s) t Prep)
                       (reg s) (store s) (arg s) (lin s) (junk s) (applied s))
          else None
      | _ => None
      end
  | EPrepare t fail =>
      (* GET <referrers tag>; 404 = no index yet *)
      match pcs s t with
      | Prep => Some (set_pc s t (Prepared (if fail then None else Some (reg s))))
      | _ => None
      end
  | ECommit t =>
      (* items := m.commit(); then the pure part of update() *)
      match pcs s t with
      | Prepared old =>
          let s' := set_committed s in
          match old with
          | None => Some (set_pc s' t (Completing RErr))
          | Some o =>
              match apply_changes (idx o) (map snd (items s)) with
              | NoUpdate => Some (set_pc (add_lin s') t (Completing ROk))
              | Updated new =>
                  if negb (is_nil new) || skipgc then Some (set_pc s' t (NeedPut new o))
                  else match o with
                       | None => Some (set_pc (add_lin s') t (Completing ROk))
                       | Some oi => Some (set_pc s' t (NeedDel oi false))
                       end
              end
          end
      | _ => None
      end
  | EPut t fail =>
      (* PUT the new index under the tag *)
      match pcs s t with
      | NeedPut new old =>
          if fail then Some (set_pc s t (Completing RErr))
          else
            let j := if skipgc then match old with Some oi => oi :: junk s | None => junk s end else junk s in
            Some (set_pc (add_lin (set_reg s (Some new) (new :: store s) j)) t (after_put skipgc old))
      | _ => None
      end
  | EPutLost t =>
      (* the registry stores the new index and moves the tag; the client sees an error,
         update() returns it: the old index is not deleted *)
      match pcs s t with
      | NeedPut new old =>
          let j := match old with Some oi => oi :: junk s | None => junk s end in
          Some (set_pc (add_lin (set_reg s (Some new) (new :: store s) j)) t (Completing RLost))
      | _ => None
      end
  | EDel t fail =>
      (* DELETE the old index by digest (a registry also drops tags pointing at it) *)
      match pcs s t with
      | NeedDel oi ap =>
          if fail then
            Some (set_pc (set_reg s (reg s) (store s) (oi :: junk s)) t
                         (Completing (if ap then RIdxDel else RErr)))
          else
            let r' := match reg s with
                      | Some cur => if index_eqb cur oi then None else Some cur
                      | None => None
                      end in
            let s' := set_reg s r' (filter (fun x => negb (index_eqb x oi)) (store s)) (junk s) in
            Some (set_pc (if ap then s' else add_lin s') t (Completing ROk))
      | _ => None
      end
  | EDelLost t =>
      (* the registry deletes the old index (and drops tags pointing at it); the client sees an
         error: after a PUT it is the index-delete error, otherwise (the deletion WAS the
         update) a plain error although the update took effect *)
      match pcs s t with
      | NeedDel oi ap =>
          let r' := match reg s with
                    | Some cur => if index_eqb cur oi then None else Some cur
                    | None => None
                    end in
          let s' := set_reg s r' (filter (fun x => negb (index_eqb x oi)) (store s)) (junk s) in
          Some (if ap then set_pc s' t (Completing RIdxDel) else set_pc (add_lin s') t (Completing RLost))
      | _ => None
      end
  | EComplete t =>
      (* m.complete(err): every member of the batch gets the result; the
         pending batch moves to the stage and gets the main status *)
      match pcs s t with
      | Completing r =>
          let b := batch s in
          Some (mkSt (pool s) false (pending s) (negb (is_nil (pending s))) []
                     (fun x => if Nat.eqb x t then Ret r else if mem x b then Ret r else pcs s x)
                     (reg s) (store s) (arg s) (lin s) (junk s) false)
      | _ => None
      end
  | EExtDrop =>
      (* index manifests are content-addressed: an index without a single (non-empty)
         referrer - e.g. the empty index - can be the SAME manifest under several referrers
         tags.  When the update of another tag deletes it, the registry drops this tag too *)
      match reg s with
      | Some x =>
          if forallb is_empty x
          then Some (set_reg s None (filter (fun y => negb (index_eqb y x)) (store s)) (junk s))
          else None
      | None => None
      end
  | EDone t =>
      (* the release function of Pool.Get *)
      match pcs s t, pool s with
      | Ret r, Some rc =>
          Some (mkSt (if Nat.leb (rc - 1) 0 then None else Some (rc - 1)%nat)
                     (committed s) (items s) (token s) (pending s) (upd (pcs s) t (Done r))
                     (reg s) (store s) (arg s) (lin s) (junk s) (applied s))
      | _, _ => None
      end
  end.

(* ---------- Pool.Get / release as a reference count ----------
   What [step] does to the [pool] field at EGet / EDone, as functions of their own: Get
   creates the entry (a fresh, zero Merge) iff there is none; the release function of the
   last holder removes it.  [pool_trace] replays a sequence of Get (true) / release (false)
   in lock order and says for every Get whether a fresh Merge was created (P lines). *)
Definition pool_get (p : option nat) : option nat * bool :=
  match p with None => (Some 1%nat, true) | Some rc => (Some (S rc), false) end.
Definition pool_put (p : option nat) : option nat :=
  match p with
  | Some rc => if Nat.leb (rc - 1) 0 then None else Some (rc - 1)%nat
  | None => None
  end.
Fixpoint pool_trace (p : option nat) (ops : list bool) : list bool :=
  match ops with
  | [] => []
  | true :: r => let (p', fr) := pool_get p in fr :: pool_trace p' r
  | false :: r => pool_trace (pool_put p) r
  end.

Fixpoint run (skipgc : bool) (s : state) (tr : list event) : option state :=
  match tr with
  | [] => Some s
  | e :: tr' => match step skipgc s e with Some s' => run skipgc s' tr' | None => None end
  end.

Definition is_cur (r : option index) (x : index) : bool :=
  match r with Some c => index_eqb x c | None => false end.

(* junk starts as the index manifests that are already dangling (not the current one) *)
Definition init (reg0 : option index) (store0 : list index) : state :=
  mkSt None false [] false [] (fun _ => Idle) reg0 store0 (fun _ => Add empty_desc) []
       (filter (fun x => negb (is_cur reg0 x)) store0) false.

Fixpoint dedup_idx (l : list index) : list index :=
  match l with
  | [] => []
  | x :: t => if existsb (index_eqb x) t then dedup_idx t else x :: dedup_idx t
  end.
(* index manifests of this tag in the registry other than the current one *)
Definition dangling (s : state) : nat :=
  length (dedup_idx (filter (fun x => negb (is_cur (reg s) x)) (store s))).

(* set view of an index: non-empty keys *)
Definition memb (r : option index) (k : N) : bool := negb (k =? 0) && has_key k (idx r).

Definition is_main (p : pc) : bool :=
  match p with
  | Prep | Prepared _ | NeedPut _ _ | NeedDel _ _ | Completing _ => true
  | _ => false
  end.

Definition holding (p : pc) : bool :=
  match p with Idle | Done _ => false | _ => true end.

Definition quiescent (s : state) : Prop :=
  forall t, pcs s t = Idle \/ exists r, pcs s t = Done r.

(* ---------- manifest layer ----------
   A push PUTs the referrer manifest BEFORE it calls updateReferrersIndex, a delete
   DELETEs it AFTER; these two exchanges decide which manifests are live. *)
Inductive mevent := MPut (k : N) | MDel (k : N) | MIdx (e : event).
Definition mstate := (state * list N)%type.   (* + keys of the live referrer manifests *)
Definition is_live (k : N) (m : mstate) : bool := existsb (N.eqb k) (snd m).
Definition mstep (sg : bool) (m : mstate) (e : mevent) : option mstate :=
  match e with
  | MPut k => Some (fst m, k :: snd m)
  | MDel k => Some (fst m, filter (fun x => negb (x =? k)) (snd m))
  | MIdx e' => match step sg (fst m) e' with Some s' => Some (s', snd m) | None => None end
  end.
Fixpoint mrun (sg : bool) (m : mstate) (tr : list mevent) : option mstate :=
  match tr with
  | [] => Some m
  | e :: tr' => match mstep sg m e with Some m' => mrun sg m' tr' | None => None end
  end.

(* sequential histories: one operation at a time, each running to completion without a
   failure: Push = manifest PUT, then the index update with [Add d]; Delete = the index
   update with [Remove d], then the manifest DELETE *)
Definition seq_op (st : option index * list N) (c : change) : option index * list N :=
  let (r, live) := st in
  let r' := match apply_changes (idx r) [c] with
            | Updated l => Some l      (* new index pushed (an empty one is deleted: same set) *)
            | NoUpdate => r
            end in
  match c with
  | Add d => (r', dkey d :: live)
  | Remove d => (r', filter (fun x => negb (x =? dkey d)) live)
  end.

(* ---------- replay of a visible schedule ----------
   What the harness sees between two quiescent points of the real code: a caller
   starts (VG), the main caller's index GET / PUT / DELETE is answered (VP / VU / VD,
   flag = failed).  The lock regions in between are inserted where the code performs
   them; [obs] logs the batch handed to update and the body of every PUT. *)
Inductive vis := VG (t : tid) | VP (t : tid) (f : bool) | VU (t : tid) (f : bool) | VD (t : tid) (f : bool)
             | VX    (* the tag was dropped by another tag's deletion of a shared index *)
             | VL (t : tid)    (* PUT answered with an error although it took effect *)
             | VK (t : tid).   (* DELETE of the old index answered with an error although it took effect *)
Inductive obs := OBatch (main : tid) (ms : list tid) | OPut (main : tid) (new : index).

(* complete / release for callers 0..n-1 (ascending), one pass *)
Fixpoint settle_pass (sg : bool) (n : nat) (s : state) : option (state * bool) :=
  match n with
  | O => Some (s, false)
  | S k =>
      match settle_pass sg k s with
      | None => None
      | Some (s1, ch) =>
          match pcs s1 k with
          | Completing _ => match step sg s1 (EComplete k) with Some s2 => Some (s2, true) | None => None end
          | Ret _ => match step sg s1 (EDone k) with Some s2 => Some (s2, true) | None => None end
          | _ => Some (s1, ch)
          end
      end
  end.

Fixpoint settle (sg : bool) (n fuel : nat) (s : state) : option state :=
  match fuel with
  | O => Some s
  | S f => match settle_pass sg n s with
           | None => None
           | Some (s1, true) => settle sg n f s1
           | Some (s1, false) => Some s1
           end
  end.

Definition vis_step (sg : bool) (changes : list change) (acc : state * list obs) (v : vis)
  : option (state * list obs) :=
  let (s, log) := acc in
  let n := length changes in
  let r :=
    match v with
    | VG t => match run sg s [EGet t (nth t changes (Add empty_desc)); EAssign t] with
              | Some s1 => Some (s1, log) | None => None end
    | VP t f =>
        match run sg s [ERecvMain t; EPrepare t f] with
        | Some s1 =>
            let log1 := match pcs s1 t with
                        | Prepared (Some _) => log ++ [OBatch t (batch s1)]
                        | _ => log
                        end in
            match step sg s1 (ECommit t) with Some s2 => Some (s2, log1) | None => None end
        | None => None
        end
    | VU t f =>
        let log1 := match pcs s t with NeedPut nw _ => log ++ [OPut t nw] | _ => log end in
        match step sg s (EPut t f) with Some s1 => Some (s1, log1) | None => None end
    | VL t =>
        let log1 := match pcs s t with NeedPut nw _ => log ++ [OPut t nw] | _ => log end in
        match step sg s (EPutLost t) with Some s1 => Some (s1, log1) | None => None end
    | VD t f => match step sg s (EDel t f) with Some s1 => Some (s1, log) | None => None end
    | VK t => match step sg s (EDelLost t) with Some s1 => Some (s1, log) | None => None end
    | VX => match step sg s EExtDrop with Some s1 => Some (s1, log) | None => None end
    end in
  match r with
  | Some (s1, log1) => match settle sg n (2 * n + 2) s1 with Some s2 => Some (s2, log1) | None => None end
  | None => None
  end.

Fixpoint run_vis (sg : bool) (changes : list change) (acc : state * list obs) (vs : list vis)
  : option (state * list obs) :=
  match vs with
  | [] => Some acc
  | v :: vs' => match vis_step sg changes acc v with
                | Some acc' => run_vis sg changes acc' vs'
                | None => None
                end
  end.

Definition res_of (p : pc) : option result := match p with Done r => Some r | _ => None end.

(* results of the callers, final index (keys), logged observations *)
Definition vis_summary (sg : bool) (r0 : option index) (changes : list change) (vs : list vis)
  : option (list (option result) * option (list N) * list obs * nat) :=
  match run_vis sg changes (init r0 (match r0 with Some x => [x] | None => [] end), []) vs with
  | Some (s, log) =>
      Some (map (fun t => res_of (pcs s t)) (seq 0 (length changes)),
            match reg s with Some l => Some (map dkey l) | None => None end, log, dangling s)
  | None => None
  end.

(* ---------- SetReferrersCapability: compare-and-swap on a 3-valued state ---------- *)
Inductive cap := CapUnknown | CapSupported | CapUnsupported.
Definition cap_of (b : bool) : cap := if b then CapSupported else CapUnsupported.
Definition cap_eqb (a b : cap) : bool :=
  match a, b with
  | CapUnknown, CapUnknown | CapSupported, CapSupported | CapUnsupported, CapUnsupported => true
  | _, _ => false
  end.
(* returns the new state and whether ErrReferrersCapabilityAlreadySet is returned *)
Definition set_cap (s : cap) (capable : bool) : cap * bool :=
  match s with
  | CapUnknown => (cap_of capable, false)
  | _ => (s, negb (cap_eqb s (cap_of capable)))
  end.
Fixpoint set_caps (s : cap) (l : list bool) : list (cap * bool) :=
  match l with
  | [] => []
  | b :: l' => let r := set_cap s b in r :: set_caps (fst r) l'
  end.
