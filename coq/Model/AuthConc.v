(* C16 -- Client.Do under concurrency.

   [do_request_rd] is Client.Do with the three cache reads (GetScheme, the first
   GetToken, the GetToken of the second cached attempt) as ORACLES and the cache
   write (Set after a successful fetch) as an output: in a concurrent execution
   the reads of one call see the cache at three different moments, between which
   other calls store their tokens.  [do_request] is the special case in which all
   reads see the same cache and the write is applied at once
   (Proofs/AuthConc.v: do_request_rd_eq).

   [csys] is the system of any number of concurrent calls over one shared cache:
   atomic steps are "call j looks at the cache" (one of its three reads, recorded as
   a snapshot) and "call j finishes" (its sends are emitted, its write is applied).
   sync.Map operations are atomic; concurrentCache.store is treated as one atomic
   write (its intermediate state -- new scheme, token not yet stored -- is a cache in
   which the lookup fails, which every theorem allows as an oracle answer).
   No proofs in this file. *)
From Oras Require Import Base.Prelude Model.Scopes Model.Challenge Model.AuthClient.

Definition store_op := option (scheme * str * secret).

Definition apply_op (f : flavour) (c : cc) (h : host) (op : store_op) : cc :=
  match op with
  | Some (s, k, v) => cache_store f c h s k v
  | None => c
  end.

Definition do_request_rd (clean : list str -> list str) (parse : str -> scheme * params)
           (cf : config) (rq : request)
           (osch : option scheme) (otok1 : option secret) (otok2 : str -> option secret)
           (script : list answer) : list event * store_op * result :=
  let h := rq_host rq in
  let hinted := get_all_scopes clean (rq_hints_host rq) (rq_hints_global rq) in
  let '(attempted, a1) :=
    match osch with
    | Some SchBasic => ([], match otok1 with Some t => ABasic t | None => NoAuth end)
    | Some SchBearer => (join [c_space] hinted, match otok1 with Some t => ABearer t | None => NoAuth end)
    | _ => ([], NoAuth)
    end in
  let s1 := SReg h a1 false in
  match script with
  | [] => ([], None, RBad)
  | AOk :: _ => ([(s1, AOk)], None, RResp false)
  | AErr :: _ => ([(s1, AErr)], None, RErr ETransport)
  | A401 hdr :: script1 =>
    let ev1 := (s1, A401 hdr) in
    match parse hdr with
    | (SchUnknown, _) => ([ev1], None, RResp true)
    | (SchBasic, _) =>
      match fetch_basic cf h with
      | inl r => ([ev1], None, r)
      | inr tok =>
        let op := Some (SchBasic, [], tok) in
        if rewind_ok (rq_body rq) then
          let (evs, r) := final_send (SReg h (ABasic tok) true) script1 in
          (ev1 :: evs, op, r)
        else ([ev1], op, RErr ERewind)
      end
    | (SchBearer, ps) =>
      let pscope := get_param s_scope ps in
      let scopes :=
        if is_empty pscope then hinted
        else clean (hinted ++ split_on c_space pscope) in
      let key := join [c_space] scopes in
      let second :=
        if str_eqb key attempted then None
        else otok2 key in
      let continue_ (evs0 : list event) (script2 : list answer) :=
        let realm := get_param s_realm ps in
        let service := get_param s_service ps in
        let finish (evs1 : list event) (tok : secret) (script3 : list answer) :=
          let op := Some (SchBearer, key, tok) in
          if rewind_ok (rq_body rq) then
            let (evs, r) := final_send (SReg h (ABearer tok) true) script3 in
            (evs0 ++ evs1 ++ evs, op, r)
          else (evs0 ++ evs1, op, RErr ERewind) in
        match fetch_bearer_plan cf h realm service scopes with
        | FPDirect tok => finish [] tok script2
        | FPErr e => (evs0, None, RErr e)
        | FPSend s =>
          match script2 with
          | ATok id :: script3 => finish [(s, ATok id)] (SIssued h id) script3
          | AShare id :: script3 => finish [] (SIssued h id) script3
          | AShareFail :: _ => (evs0, None, RErr EShared)
          | AFail :: _ => (evs0 ++ [(s, AFail)], None, RErr EFetch)
          | AErr :: _ => (evs0 ++ [(s, AErr)], None, RErr ETransport)
          | _ => (evs0, None, RBad)
          end
        end in
      match second with
      | None => continue_ [ev1] script1
      | Some tok =>
        if rewind_ok (rq_body rq) then
          let s2 := SReg h (ABearer tok) false in
          match script1 with
          | AOk :: _ => ([ev1; (s2, AOk)], None, RResp false)
          | AErr :: _ => ([ev1; (s2, AErr)], None, RErr ETransport)
          | A401 hdr2 :: script2 => continue_ [ev1; (s2, A401 hdr2)] script2
          | _ => ([ev1], None, RBad)
          end
        else ([ev1], None, RErr ERewind)
      end
    end
  | _ => ([], None, RBad)
  end.

(* the reads of a call against one cache *)
Definition rd_scheme (f : flavour) (c : cc) (rq : request) : option scheme :=
  cache_get_scheme f c (rq_host rq).

Definition rd_tok1 (clean : list str -> list str) (f : flavour) (c : cc) (rq : request) (osch : option scheme) : option secret :=
  match osch with
  | Some SchBasic => cache_get_token f c (rq_host rq) SchBasic []
  | Some SchBearer =>
    cache_get_token f c (rq_host rq) SchBearer
      (join [c_space] (get_all_scopes clean (rq_hints_host rq) (rq_hints_global rq)))
  | _ => None
  end.

Definition rd_tok2 (f : flavour) (c : cc) (rq : request) (k : str) : option secret :=
  cache_get_token f c (rq_host rq) SchBearer k.

(* ---------- the concurrent system ---------- *)
Record thread := mkT {
  t_rq : request;
  t_script : list answer;
  t_s1 : option cc;      (* the cache as GetScheme saw it *)
  t_s2 : option cc;      (* ... as the first GetToken saw it *)
  t_s3 : option cc;      (* ... as the second GetToken saw it *)
  t_done : bool;
}.

Record csys := mkSys {
  y_cache : cc;
  y_threads : list (N * thread);
  y_out : list (N * (host * list event * result));   (* finished calls: the host they addressed, their sends, their outcome *)
}.

Fixpoint th_get (m : list (N * thread)) (j : N) : option thread :=
  match m with
  | [] => None
  | (j', t) :: m' => if j =? j' then Some t else th_get m' j
  end.

Inductive cevent2 :=
| YStart (j : N) (rq : request) (script : list answer)
| YLook (j : N) (which : nat)     (* 1 GetScheme, 2 first GetToken, 3 second GetToken *)
| YFinish (j : N).

Definition snap (o : option cc) (now : cc) : cc := match o with Some c => c | None => now end.

Definition ystep (clean : list str -> list str) (parse : str -> scheme * params) (cf : config)
           (y : csys) (e : cevent2) : option csys :=
  match e with
  | YStart j rq script =>
    match th_get (y_threads y) j with
    | Some _ => None
    | None => Some (mkSys (y_cache y) ((j, mkT rq script None None None false) :: y_threads y) (y_out y))
    end
  | YLook j w =>
    match th_get (y_threads y) j with
    | Some t =>
      if t_done t then None else
      let c := y_cache y in
      let t' := match w with
                | 1%nat => mkT (t_rq t) (t_script t) (Some c) (t_s2 t) (t_s3 t) false
                | 2%nat => mkT (t_rq t) (t_script t) (t_s1 t) (Some c) (t_s3 t) false
                | _ => mkT (t_rq t) (t_script t) (t_s1 t) (t_s2 t) (Some c) false
                end in
      Some (mkSys c ((j, t') :: y_threads y) (y_out y))
    | None => None
    end
  | YFinish j =>
    match th_get (y_threads y) j with
    | Some t =>
      if t_done t then None else
      let f := cf_flavour cf in
      let c := y_cache y in
      let rq := t_rq t in
      let osch := rd_scheme f (snap (t_s1 t) c) rq in
      let '(evs, op, r) :=
        do_request_rd clean parse cf rq osch
          (rd_tok1 clean f (snap (t_s2 t) c) rq osch)
          (rd_tok2 f (snap (t_s3 t) c) rq) (t_script t) in
      Some (mkSys (apply_op f c (rq_host rq) op)
                  ((j, mkT rq (t_script t) (t_s1 t) (t_s2 t) (t_s3 t) true) :: y_threads y)
                  ((j, (rq_host rq, evs, r)) :: y_out y))
    | None => None
    end
  end.

Fixpoint yrun (clean : list str -> list str) (parse : str -> scheme * params) (cf : config)
         (y : csys) (tr : list cevent2) : option csys :=
  match tr with
  | [] => Some y
  | e :: tr' => match ystep clean parse cf y e with Some y' => yrun clean parse cf y' tr' | None => None end
  end.

Definition yinit : csys := mkSys [] [] [].
