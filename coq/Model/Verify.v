(* Executable model of the verification path of oras-go (property C05):
     content/reader.go        VerifyReader.Read / Verify, NewVerifyReader, ReadAll, ensureEOF
     internal/ioutil/io.go    CopyBuffer (io.CopyBuffer loop + Verify)
     content/limitedstorage.go LimitedStorage.Push
     internal/cas/memory.go   Memory.Push / Exists / Fetch
     content/oci/storage.go   Storage.Push (stat, ingest temp, verify, rename)
     content/file/file.go     Store.push / pushFile / saveFile (named; a failed push removes its file) and the fallback
   together with the pieces of the Go standard library they are built from
   (io.LimitedReader, io.TeeReader, io.ReadFull = io.ReadAtLeast, io.CopyBuffer).

   A reader is a *script*: the list of answers it gives to successive Read calls
   (arbitrary chunking, 0-byte reads, an error at any offset, data together with
   EOF/error in one call).  The digest function [H] is a parameter with no
   assumption.  No proofs in this file. *)
From Oras Require Import Base.Prelude Generated.GC05.

(* ------------------------------------------------------------------ errors *)
Inductive rerr :=
| EEof | EInjected | EUnexpEof | EBadDigest | ETrailing | EMismatch | EEarly
| EInvalidSize | EExists | ETooBig | ENotFound | EDupName | EFuel
| EWrite | EShortWrite | ETraversal | EOverwrite.

Definition is_eof (e : rerr) : bool := match e with EEof => true | _ => false end.

(* ------------------------------------------------------------------ go-digest *)
Definition c_colon : N := 58.
Definition hexlower (c : N) : bool := ((48 <=? c) && (c <=? 57)) || ((97 <=? c) && (c <=? 102)).
Definition alg_table : list (str * nat) :=
  [(b "sha256", 64%nat); (b "sha384", 96%nat); (b "sha512", 128%nat)].

Definition split_colon (s : str) : option (str * str) :=
  match index_of c_colon s with
  | Some i => Some (firstn i s, skipn (S i) s)
  | None => None
  end.

(* Digest.Validate with sha256/sha384/sha512 registered (go-digest v1.0.0) *)
Definition valid_digest (s : str) : bool :=
  match split_colon s with
  | None => false
  | Some (alg, enc) =>
      match find (fun p => str_eqb (fst p) alg) alg_table with
      | Some (_, n) => Nat.eqb (length enc) n && forallb hexlower enc
      | None => false
      end
  end.

Definition alg_of (dg : str) : str :=
  match split_colon dg with Some (a, _) => a | None => [] end.

(* ------------------------------------------------------------------ scripted reader *)
Inductive ev := Data (bs : str) | Zero | Fail.

Definition rres := (str * option rerr)%type.

Fixpoint stream (evs : list ev) : str :=
  match evs with
  | [] => []
  | Data bs :: r => bs ++ stream r
  | _ :: r => stream r
  end.

(* number of injected failures left in a script *)
Fixpoint nfail (evs : list ev) : nat :=
  match evs with
  | [] => 0%nat
  | Fail :: r => S (nfail r)
  | _ :: r => nfail r
  end.

(* bytes a script delivers before its first injected failure *)
Fixpoint avail (evs : list ev) : nat :=
  match evs with
  | [] => 0%nat
  | Fail :: _ => 0%nat
  | Data bs :: r => (length bs + avail r)%nat
  | Zero :: r => avail r
  end.

Fixpoint ev_weight (evs : list ev) : nat :=
  match evs with
  | [] => 0%nat
  | Data bs :: r => (S (length bs) + ev_weight r)%nat
  | _ :: r => S (ev_weight r)
  end.

(* One Read(p) with len(p) = k.  [comb]: a chunk that is delivered completely and
   is followed by the end of the script / a Fail is returned together with io.EOF /
   the error in the same call. *)
Definition script_read (comb : bool) (evs : list ev) (k : nat) : rres * list ev :=
  match evs with
  | [] => (([], Some EEof), [])
  | Zero :: r => (([], None), r)
  | Fail :: r => (([], Some EInjected), r)
  | Data bs :: r =>
      if (length bs <=? k)%nat then
        if comb then
          match r with
          | [] => ((bs, Some EEof), [])
          | Fail :: r' => ((bs, Some EInjected), r')
          | _ => ((bs, None), r)
          end
        else ((bs, None), r)
      else ((firstn k bs, None), Data (skipn k bs) :: r)
  end.

(* the reader handed to Push/ReadAll: the script, possibly inside one io.LimitReader *)
Record base := mkBase { b_evs : list ev; b_lim : option Z }.

Definition clamp (k : nat) (n : Z) : nat :=
  if (Z.of_nat k >? n)%Z then Z.to_nat n else k.

Definition base_read (comb : bool) (s : base) (k : nat) : rres * base :=
  match b_lim s with
  | None =>
      let '(r, evs') := script_read comb (b_evs s) k in (r, mkBase evs' None)
  | Some n =>
      if (n <=? 0)%Z then (([], Some EEof), s)
      else
        let '((bs, e), evs') := script_read comb (b_evs s) (clamp k n) in
        ((bs, e), mkBase evs' (Some (n - Z.of_nat (length bs))%Z))
  end.

(* ------------------------------------------------------------------ io.ReadFull *)
Section ReadFull.
  Context {S : Type}.
  Variable rd : S -> nat -> rres * S.

  (* io.ReadAtLeast(r, buf, min) with len(buf) = min = want; [acc] = buf[:n] *)
  Fixpoint read_full (fuel : nat) (s : S) (want : nat) (acc : str) : rres * S :=
    if (want <=? length acc)%nat then ((acc, None), s)
    else
      match fuel with
      | O => ((acc, Some EFuel), s)
      | Datatypes.S f =>
          let '((bs, e), s') := rd s (want - length acc)%nat in
          let acc' := acc ++ bs in
          match e with
          | None => read_full f s' want acc'
          | Some e0 =>
              if (want <=? length acc')%nat then ((acc', None), s')
              else if (0 <? length acc')%nat && is_eof e0 then ((acc', Some EUnexpEof), s')
              else ((acc', Some e0), s')
          end
      end.
End ReadFull.

Section WithH.
  (* H alg data = the encoded (hex) digest of data under algorithm alg *)
  Variable H : str -> str -> str.
  Variable comb : bool.

  Definition digest_of (alg data : str) : str := alg ++ [c_colon] ++ H alg data.

  (* hashVerifier.Verified() *)
  Definition verified (dg hashed : str) : bool := str_eqb dg (digest_of (alg_of dg) hashed).

  (* ---------------------------------------------------------------- VerifyReader *)
  (* v_base: the source below the TeeReader; v_hashed: everything written to the
     verifier so far; v_N: LimitedReader.N; v_err, v_verified as in the Go struct *)
  Record vrd := mkVr { v_base : base; v_N : Z; v_hashed : str; v_err : option rerr; v_verified : bool }.

  Definition set_err (v : vrd) (e : rerr) : vrd :=
    mkVr (v_base v) (v_N v) (v_hashed v) (Some e) (v_verified v).

  (* NewVerifyReader.  [fixed] = with the negative-size repair (see C05 finding). *)
  Definition new_vr_gen (fixed : bool) (src : base) (dg : str) (sz : Z) : vrd :=
    if negb (valid_digest dg) then mkVr src sz [] (Some EBadDigest) false
    else if fixed && (sz <? 0)%Z then mkVr src sz [] (Some EInvalidSize) false
    else mkVr src sz [] None false.

  (* VerifyReader.Read over io.LimitedReader over io.TeeReader *)
  Definition vr_read (v : vrd) (k : nat) : rres * vrd :=
    match v_err v with
    | Some e => (([], Some e), v)
    | None =>
        if (v_N v <=? 0)%Z then (([], Some EEof), set_err v EEof)
        else
          let '((bs, e), b') := base_read comb (v_base v) (clamp k (v_N v)) in
          let n' := (v_N v - Z.of_nat (length bs))%Z in
          let v' := mkVr b' n' (v_hashed v ++ bs) None (v_verified v) in
          match e with
          | None => ((bs, None), v')
          | Some e0 =>
              let e1 := if is_eof e0 && (n' >? 0)%Z then EUnexpEof else e0 in
              ((bs, Some e1), set_err v' e1)
          end
    end.

  (* the TeeReader seen by ensureEOF *)
  Definition tee_read (st : base * str) (k : nat) : rres * (base * str) :=
    let '((bs, e), b') := base_read comb (fst st) k in ((bs, e), (b', snd st ++ bs)).

  (* ensureEOF(vr.base.R): true = io.EOF and no byte *)
  Definition ensure_eof (fuel : nat) (st : base * str) : bool * (base * str) :=
    let '((_, e), st') := read_full tee_read fuel st 1 [] in
    (match e with Some EEof => true | _ => false end, st').

  (* VerifyReader.Verify *)
  Definition vr_verify (fuel : nat) (dg : str) (v : vrd) : option rerr * vrd :=
    if v_verified v then (None, v)
    else
      let stop := match v_err v with
                  | None => if (v_N v >? 0)%Z then Some EEarly else None
                  | Some EEof => None
                  | Some e => Some e
                  end in
      match stop with
      | Some e => (Some e, v)
      | None =>
          let '(ok, (b', h')) := ensure_eof fuel (v_base v, v_hashed v) in
          let v1 := mkVr b' (v_N v) h' (v_err v) false in
          if negb ok then (Some ETrailing, set_err v1 ETrailing)
          else if verified dg h' then (None, mkVr b' (v_N v) h' (Some EEof) true)
          else (Some EMismatch, set_err v1 EMismatch)
      end.

  (* "bs is exactly the bytes the descriptor (dg, sz) names" *)
  Definition matches_desc (dg : str) (sz : Z) (bs : str) : Prop :=
    Z.of_nat (length bs) = sz /\ dg = digest_of (alg_of dg) bs /\ valid_digest dg = true.

  (* an arbitrary use of a VerifyReader: any sequence of Read(k) and Verify calls;
     [out] collects the bytes the Reads returned *)
  Inductive vop := OpRead (k : nat) | OpVerify.

  Fixpoint vr_run (fuel : nat) (dg : str) (ops : list vop) (v : vrd) (out : str) : vrd * str :=
    match ops with
    | [] => (v, out)
    | OpRead k :: r => let '((bs, _), v') := vr_read v k in vr_run fuel dg r v' (out ++ bs)
    | OpVerify :: r => let '(_, v') := vr_verify fuel dg v in vr_run fuel dg r v' out
    end.

  Section Fixed.
  Variable fixed : bool.
  Definition new_vr := new_vr_gen fixed.

  (* ---------------------------------------------------------------- content.ReadAll *)
  Definition read_all (fuel : nat) (src : base) (dg : str) (sz : Z) : (option rerr * str) * vrd :=
    if (sz <? 0)%Z then ((Some EInvalidSize, []), new_vr src dg sz)
    else
      let v := new_vr src dg sz in
      let '((buf, e), v') := read_full vr_read fuel v (Z.to_nat sz) [] in
      match e with
      | Some e0 => ((Some e0, buf), v')
      | None => let '(e1, v'') := vr_verify fuel dg v' in ((e1, buf), v'')
      end.

  (* ---------------------------------------------------------------- ioutil.CopyBuffer *)
  (* io.CopyBuffer loop with a destination that never fails; [out] = bytes written *)
  Fixpoint copy_loop (fuel : nat) (v : vrd) (bufsz : nat) (out : str) : (option rerr * str) * vrd :=
    match fuel with
    | O => ((Some EFuel, out), v)
    | Datatypes.S f =>
        let '((bs, e), v') := vr_read v bufsz in
        let out' := out ++ bs in
        match e with
        | None => copy_loop f v' bufsz out'
        | Some EEof => ((None, out'), v')
        | Some e0 => ((Some e0, out'), v')
        end
    end.

  Definition copy_buffer (fuel : nat) (src : base) (bufsz : nat) (dg : str) (sz : Z)
    : (option rerr * str) * vrd :=
    let v := new_vr src dg sz in
    let '((e, out), v') := copy_loop fuel v bufsz [] in
    match e with
    | Some e0 => ((Some e0, out), v')
    | None => let '(e1, v'') := vr_verify fuel dg v' in ((e1, out), v'')
    end.

  (* ---------------------------------------------------------------- CopyBuffer into a destination that may fail *)
  (* the destination accepts [w_left] more bytes; then, depending on [w_mode], a Write
     returns the accepted prefix with an error (WFail) or without one (WShort: io.Copy
     answers io.ErrShortWrite); w_mode = None: it never fails *)
  Inductive wmode := WFail | WShort.
  Record writer := mkW { w_mode : option wmode; w_left : nat }.

  Definition w_write (w : writer) (bs : str) : (str * option rerr) * writer :=
    match w_mode w with
    | None => ((bs, None), w)
    | Some m =>
        if (length bs <=? w_left w)%nat then ((bs, None), mkW (w_mode w) (w_left w - length bs))
        else ((firstn (w_left w) bs, Some (match m with WFail => EWrite | WShort => EShortWrite end)),
              mkW (w_mode w) 0)
    end.

  (* io.CopyBuffer: a write fault ends the loop before the read error is looked at *)
  Fixpoint copy_loop_w (fuel : nat) (v : vrd) (bufsz : nat) (out : str) (w : writer)
    : ((option rerr * str) * vrd) * writer :=
    match fuel with
    | O => (((Some EFuel, out), v), w)
    | Datatypes.S f =>
        let '((bs, e), v') := vr_read v bufsz in
        let '((acc, we), w') := match bs with [] => (([], None), w) | _ => w_write w bs end in
        let out' := out ++ acc in
        match we with
        | Some werr => (((Some werr, out'), v'), w')
        | None =>
            match e with
            | None => copy_loop_w f v' bufsz out' w'
            | Some EEof => (((None, out'), v'), w')
            | Some e0 => (((Some e0, out'), v'), w')
            end
        end
    end.

  Definition copy_buffer_w (fuel : nat) (src : base) (bufsz : nat) (dg : str) (sz : Z) (w : writer)
    : ((option rerr * str) * vrd) * writer :=
    let v := new_vr src dg sz in
    let '(((e, out), v'), w') := copy_loop_w fuel v bufsz [] w in
    match e with
    | Some e0 => (((Some e0, out), v'), w')
    | None => let '(e1, v'') := vr_verify fuel dg v' in (((e1, out), v''), w')
    end.

  (* ---------------------------------------------------------------- descriptors *)
  Record desc := mkDesc { d_mt : str; d_dg : str; d_sz : Z }.

  Definition desc_eqb (x y : desc) : bool :=
    str_eqb (d_mt x) (d_mt y) && str_eqb (d_dg x) (d_dg y) && (d_sz x =? d_sz y)%Z.

  (* ---------------------------------------------------------------- cas.Memory *)
  Definition mem := list (desc * str).

  Fixpoint mem_get (m : mem) (d : desc) : option str :=
    match m with
    | [] => None
    | (k, v) :: r => if desc_eqb k d then Some v else mem_get r d
    end.

  Definition mem_push (fuel : nat) (m : mem) (d : desc) (src : base) : option rerr * mem :=
    match mem_get m d with
    | Some _ => (Some EExists, m)
    | None =>
        match read_all fuel src (d_dg d) (d_sz d) with
        | ((Some e, _), _) => (Some e, m)
        | ((None, buf), _) => (None, (d, buf) :: m)
        end
    end.

  (* ---------------------------------------------------------------- LimitedStorage *)
  Definition limited_push {St} (push : St -> desc -> base -> option rerr * St)
             (limit : Z) (st : St) (d : desc) (evs : list ev) : option rerr * St :=
    if (d_sz d >? limit)%Z then (Some ETooBig, st)
    else push st d (mkBase evs (Some (d_sz d))).

  (* ---------------------------------------------------------------- oci.Storage *)
  (* blobs/<alg>/<encoded> keyed by the digest string; ingest/ is empty between
     pushes in a sequential history (the temp file is removed or renamed) *)
  Definition oci := list (str * str).
  Definition oci_bufsz : nat := 32768.  (* os.File.ReadFrom -> io.Copy's 32 KiB buffer *)

  Fixpoint oci_get (s : oci) (dg : str) : option str :=
    match s with
    | [] => None
    | (k, v) :: r => if str_eqb k dg then Some v else oci_get r dg
    end.

  Definition oci_push (fuel : nat) (s : oci) (d : desc) (src : base) : option rerr * oci :=
    if negb (valid_digest (d_dg d)) then (Some EBadDigest, s)
    else
      match oci_get s (d_dg d) with
      | Some _ => (Some EExists, s)
      | None =>
          match copy_buffer fuel src oci_bufsz (d_dg d) (d_sz d) with
          | ((Some e, _), _) => (Some e, s)
          | ((None, out), _) => (None, (d_dg d, out) :: s)
          end
      end.

  Definition oci_exists (s : oci) (d : desc) : option rerr * bool :=
    if negb (valid_digest (d_dg d)) then (Some EBadDigest, false)
    else (None, match oci_get s (d_dg d) with Some _ => true | None => false end).

  (* ---------------------------------------------------------------- file.Store *)
  (* f_files: what is on disk under each path (a failed push removes its partial
     file); f_names: nameStatus.exists; f_d2p: digestToPath; f_fb: fallback *)
  Record fstore := mkFs { f_files : list (str * str); f_names : list str;
                          f_d2p : list (str * str); f_fb : mem }.

  Definition name_in (n : str) (l : list str) : bool := existsb (str_eqb n) l.

  Fixpoint assoc_get (l : list (str * str)) (k : str) : option str :=
    match l with
    | [] => None
    | (k', v) :: r => if str_eqb k' k then Some v else assoc_get r k
    end.

  Definition assoc_set (l : list (str * str)) (k v : str) : list (str * str) :=
    (k, v) :: filter (fun p => negb (str_eqb (fst p) k)) l.

  Definition assoc_del (l : list (str * str)) (k : str) : list (str * str) :=
    filter (fun p => negb (str_eqb (fst p) k)) l.

  Definition file_bufsz : nat := 32768.

  (* [path] = resolveWritePath name: the cleaned absolute path the name resolves to
     (path/filepath is not modelled: the resolved path is an input).  nameStatus is
     keyed by the NAME STRING, the file and digestToPath by the PATH: two names of one
     path ("a", "./a") alias each other. *)
  Definition file_push (fuel : nat) (s : fstore) (name path : str) (d : desc) (evs : list ev)
    : option rerr * fstore :=
    match name with
    | [] =>
        let '(e, fb') := limited_push (mem_push fuel) defaultFallbackPushSizeLimit (f_fb s) d evs in
        (e, mkFs (f_files s) (f_names s) (f_d2p s) fb')
    | _ =>
        if name_in name (f_names s) then (Some EDupName, s)
        else
          match copy_buffer fuel (mkBase evs None) file_bufsz (d_dg d) (d_sz d) with
          | ((Some e, out), _) =>
              (* pushFile removes the partially written file again (os.Create truncated
                 whatever was there) *)
              (Some e, mkFs (assoc_del (f_files s) path) (f_names s) (f_d2p s) (f_fb s))
          | ((None, out), _) =>
              (None, mkFs (assoc_set (f_files s) path out) (name :: f_names s)
                          (assoc_set (f_d2p s) (d_dg d) path) (f_fb s))
          end
    end.

  (* ---------------------------------------------------------------- resolveWritePath *)
  (* filepath.Clean on a relative slash-separated name (lexical): empty and "."
     segments vanish, ".." removes the previous segment or counts as a leading "..".
     resolveWritePath (AllowPathTraversalOnWrite = false) refuses a name whose cleaned
     form leaves the working directory.  Absolute names are refused as well: the
     harness only generates absolute names outside its working directory. *)
  Fixpoint split_slash (s cur : str) : list str :=
    match s with
    | [] => [rev cur]
    | c :: s' => if (c =? 47)%N then rev cur :: split_slash s' [] else split_slash s' (c :: cur)
    end.

  Fixpoint lexclean (segs : list str) (ups : nat) (st : list str) : nat * list str :=
    match segs with
    | [] => (ups, rev st)
    | seg :: r =>
        match seg with
        | [] => lexclean r ups st
        | [46%N] => lexclean r ups st
        | [46%N; 46%N] => match st with
                          | _ :: st' => lexclean r ups st'
                          | [] => lexclean r (S ups) []
                          end
        | _ => lexclean r ups (seg :: st)
        end
    end.

  Fixpoint join_slash (ns : list str) : str :=
    match ns with
    | [] => []
    | [n] => n
    | n :: r => n ++ [47%N] ++ join_slash r
    end.

  (* the path, relative to the working directory, a name is written to; None = refused *)
  Definition resolve_name (name : str) : option str :=
    match name with
    | 47%N :: _ => None
    | _ =>
        match lexclean (split_slash name []) 0 [] with
        | (O, []) => Some [46%N]
        | (O, ns) => Some (join_slash ns)
        | (S _, _) => None
        end
    end.

  (* Store.push for a name: duplicate-name check, resolveWritePath, pushFile *)
  Definition file_push_name (fuel : nat) (s : fstore) (name : str) (d : desc) (evs : list ev)
    : option rerr * fstore :=
    match name with
    | [] => file_push fuel s [] [] d evs
    | _ =>
        if name_in name (f_names s) then (Some EDupName, s)
        else match resolve_name name with
             | None => (Some ETraversal, s)
             | Some path => file_push fuel s name path d evs
             end
    end.

  (* Store options that matter for non-manifest content: DisableOverwrite (resolveWritePath
     refuses a path that exists), IgnoreNoName (unnamed content is discarded, Push
     returns nil without reading it), the fallback storage's push limit
     (NewWithFallbackStorage with an unlimited cas.Memory = None); ForceCAS only affects
     manifests *)
  Record fopts := mkOpts { o_disable_overwrite : bool; o_ignore_noname : bool; o_fb_limit : option Z }.
  Definition default_opts : fopts := mkOpts false false (Some defaultFallbackPushSizeLimit).

  Definition file_push_opt (o : fopts) (fuel : nat) (s : fstore) (name : str) (d : desc) (evs : list ev)
    : option rerr * fstore :=
    match name with
    | [] =>
        if o_ignore_noname o then (None, s)
        else
          let '(e, fb') := match o_fb_limit o with
                           | Some l => limited_push (mem_push fuel) l (f_fb s) d evs
                           | None => mem_push fuel (f_fb s) d (mkBase evs None)
                           end in
          (e, mkFs (f_files s) (f_names s) (f_d2p s) fb')
    | _ =>
        if name_in name (f_names s) then (Some EDupName, s)
        else match resolve_name name with
             | None => (Some ETraversal, s)
             | Some path =>
                 if o_disable_overwrite o && (match assoc_get (f_files s) path with Some _ => true | None => false end)
                 then (Some EOverwrite, s)
                 else file_push fuel s name path d evs
             end
    end.

  Definition file_exists (s : fstore) (name : str) (d : desc) : bool :=
    match name with
    | [] => match assoc_get (f_d2p s) (d_dg d) with
            | Some _ => true
            | None => match mem_get (f_fb s) d with Some _ => true | None => false end
            end
    | _ => if negb (name_in name (f_names s)) then false
           else match assoc_get (f_d2p s) (d_dg d) with
                | Some _ => true
                | None => match mem_get (f_fb s) d with Some _ => true | None => false end
                end
    end.

  (* Store.Fetch: the bytes the returned reader yields *)
  Definition file_fetch (s : fstore) (name : str) (d : desc) : option str :=
    if negb (match name with [] => true | _ => name_in name (f_names s) end) then None
    else match assoc_get (f_d2p s) (d_dg d) with
         | Some p => assoc_get (f_files s) p
         | None => mem_get (f_fb s) d
         end.

  End Fixed.
End WithH.

(* ------------------------------------------------------------------ content.FetchAll *)
(* what a store's Fetch hands out (bytes.Reader / os.File): the bytes, then io.EOF *)
Definition serve_script (bs : str) : list ev := match bs with [] => [] | _ => [Data bs] end.

Section FetchAll.
  Variable H : str -> str -> str.

  (* FetchAll(ctx, fetcher, desc) = Fetch, then ReadAll of the served stream;
     [fetched] = None: Fetch answered not found *)
  Definition fetch_all (fetched : option str) (d : desc) : option rerr * str :=
    match fetched with
    | None => (Some ENotFound, [])
    | Some c =>
        let evs := serve_script c in
        fst (read_all H false true (S (S (S (ev_weight evs)))) (mkBase evs None) (d_dg d) (d_sz d))
    end.

  Definition mem_fetch_all (m : mem) (d : desc) := fetch_all (mem_get m d) d.
  Definition oci_fetch_all (s : oci) (d : desc) :=
    if negb (valid_digest (d_dg d)) then (Some EBadDigest, []) else fetch_all (oci_get s (d_dg d)) d.
  Definition file_fetch_all (s : fstore) (name : str) (d : desc) := fetch_all (file_fetch s name d) d.
End FetchAll.

(* ------------------------------------------------------------------ histories *)
(* every state a store can reach from empty by any sequence of pushes (any
   descriptor, any reader script, any fuel), sequentially *)
Section Histories.
  Variable H : str -> str -> str.

  Inductive mem_reach : mem -> Prop :=
  | mem_reach_nil : mem_reach []
  | mem_reach_push comb fuel m d src e m' :
      mem_reach m -> mem_push H comb true fuel m d src = (e, m') -> mem_reach m'
  | mem_reach_limited comb fuel limit m d evs e m' :
      mem_reach m -> limited_push (mem_push H comb true fuel) limit m d evs = (e, m') -> mem_reach m'.

  Inductive oci_reach : oci -> Prop :=
  | oci_reach_nil : oci_reach []
  | oci_reach_push comb fuel s d src e s' :
      oci_reach s -> oci_push H comb true fuel s d src = (e, s') -> oci_reach s'
  | oci_reach_limited comb fuel limit s d evs e s' :
      oci_reach s -> limited_push (oci_push H comb true fuel) limit s d evs = (e, s') -> oci_reach s'.

  (* the pushed name does not alias a path that already serves visible content *)
  Definition path_free (s : fstore) (path : str) : Prop :=
    forall dg p, assoc_get (f_d2p s) dg = Some p -> str_eqb path p = false.

  (* histories of the file store in which no push aliases a visible path *)
  Inductive file_reach : fstore -> Prop :=
  | file_reach_nil : file_reach (mkFs [] [] [] [])
  | file_reach_push comb fuel s name path d evs e s' :
      file_reach s -> (name <> [] -> path_free s path) ->
      file_push H comb true fuel s name path d evs = (e, s') -> file_reach s'.

  (* histories of the file store given by names only: no pushed name resolves to the
     path of another name that is already in use *)
  Definition no_alias (s : fstore) (name : str) : Prop :=
    forall n, name_in n (f_names s) = true -> resolve_name n = resolve_name name -> n = name.

  Inductive file_reach_names : fstore -> Prop :=
  | file_reach_names_nil : file_reach_names (mkFs [] [] [] [])
  | file_reach_names_push comb fuel s name d evs e s' :
      file_reach_names s -> no_alias s name ->
      file_push_name H comb true fuel s name d evs = (e, s') -> file_reach_names s'.

  (* histories of a file store with DisableOverwrite: ANY names, aliases included *)
  Inductive file_reach_do : fstore -> Prop :=
  | file_reach_do_nil : file_reach_do (mkFs [] [] [] [])
  | file_reach_do_push o comb fuel s name d evs e s' :
      file_reach_do s -> o_disable_overwrite o = true ->
      file_push_opt H comb true o fuel s name d evs = (e, s') -> file_reach_do s'.

  (* ---------------------------------------------------------------- concurrent pushes into one OCI layout *)
  (* Each push is a thread: Stat, CreateTemp, a sequence of Writes to its own
     ingest file (any split of what CopyBuffer writes), then either Remove (the
     verification failed) or Chmod+Rename onto blobs/<alg>/<encoded>.  A schedule
     is a list of (thread, chunk size) choices; any interleaving is a schedule. *)
  Inductive pc :=
  | PStart
  | PIngest (written todo : str) (res : option rerr)   (* the ingest file holds [written] *)
  | PDone (r : option rerr).

  Record thr := mkThr { t_d : desc; t_evs : list ev; t_comb : bool; t_fuel : nat; t_pc : pc }.
  Record cstate := mkC { c_blobs : oci; c_thr : list thr }.

  Fixpoint set_nth {A} (l : list A) (i : nat) (x : A) : list A :=
    match l, i with
    | [], _ => []
    | _ :: r, O => x :: r
    | y :: r, S j => y :: set_nth r j x
    end.

  Definition with_pc (t : thr) (p : pc) : thr := mkThr (t_d t) (t_evs t) (t_comb t) (t_fuel t) p.

  Definition cstep (st : cstate) (i n : nat) : option cstate :=
    match nth_error (c_thr st) i with
    | None => None
    | Some t =>
        let upd p := set_nth (c_thr st) i (with_pc t p) in
        match t_pc t with
        | PDone _ => None
        | PStart =>
            if negb (valid_digest (d_dg (t_d t))) then Some (mkC (c_blobs st) (upd (PDone (Some EBadDigest))))
            else match oci_get (c_blobs st) (d_dg (t_d t)) with
                 | Some _ => Some (mkC (c_blobs st) (upd (PDone (Some EExists))))
                 | None =>
                     let '((e, out), _) := copy_buffer H (t_comb t) true (t_fuel t) (mkBase (t_evs t) None)
                                                       oci_bufsz (d_dg (t_d t)) (d_sz (t_d t)) in
                     Some (mkC (c_blobs st) (upd (PIngest [] out e)))
                 end
        | PIngest w todo e =>
            match todo with
            | _ :: _ =>
                let k := S (Nat.min n (length todo - 1)) in
                Some (mkC (c_blobs st) (upd (PIngest (w ++ firstn k todo) (skipn k todo) e)))
            | [] =>
                match e with
                | Some er => Some (mkC (c_blobs st) (upd (PDone (Some er))))           (* os.Remove(ingest) *)
                | None => Some (mkC ((d_dg (t_d t), w) :: c_blobs st) (upd (PDone None))) (* Chmod; Rename *)
                end
            end
        end
    end.

  Fixpoint crun (st : cstate) (sched : list (nat * nat)) : option cstate :=
    match sched with
    | [] => Some st
    | (i, n) :: r => match cstep st i n with Some st' => crun st' r | None => None end
    end.

  (* files under ingest/ at this instant *)
  Definition ingest_files (st : cstate) : list str :=
    flat_map (fun t => match t_pc t with PIngest w _ _ => [w] | _ => [] end) (c_thr st).

  (* all terminal states reachable from [st] when every Write step takes the whole
     remainder (n = big): the Writes only touch the thread's own ingest file, so the
     order of the Stat and Rename/Remove steps is what matters *)
  Fixpoint explore (fuel : nat) (big : nat) (st : cstate) : list cstate :=
    match fuel with
    | O => []
    | S f =>
        let nexts := flat_map (fun i => match cstep st i big with Some st' => [st'] | None => [] end)
                              (seq 0 (length (c_thr st))) in
        match nexts with
        | [] => [st]
        | _ => flat_map (explore f big) nexts
        end
    end.

  (* what an observer sees of a state: each thread's result and the blobs by digest *)
  Fixpoint visible_blobs (seen : list str) (s : oci) : oci :=
    match s with
    | [] => []
    | (k, v) :: r => if existsb (str_eqb k) seen then visible_blobs seen r
                     else (k, v) :: visible_blobs (k :: seen) r
    end.

  Definition thread_results (st : cstate) : list (option (option rerr)) :=
    map (fun t => match t_pc t with PDone r => Some r | _ => None end) (c_thr st).
  (* ---------------------------------------------------------------- concurrent pushes into one cas.Memory *)
  (* Memory.Push = Load (exists?) ; ReadAll (thread-local) ; LoadOrStore (atomic).
     [m_lim] = Some l: the push goes through LimitedStorage with push limit l. *)
  Inductive mpc :=
  | MStart
  | MRead (res : option rerr) (buf : str)
  | MDone (r : option rerr).

  Record mthr := mkMthr { m_d : desc; m_evs : list ev; m_comb : bool; m_fuel : nat; m_lim : option Z; m_pc : mpc }.
  Record mstate := mkM { ms_mem : mem; ms_thr : list mthr }.

  Definition with_mpc (t : mthr) (p : mpc) : mthr :=
    mkMthr (m_d t) (m_evs t) (m_comb t) (m_fuel t) (m_lim t) p.

  Definition mstep (st : mstate) (i : nat) : option mstate :=
    match nth_error (ms_thr st) i with
    | None => None
    | Some t =>
        let upd p := set_nth (ms_thr st) i (with_mpc t p) in
        match m_pc t with
        | MDone _ => None
        | MStart =>
            let too_big := match m_lim t with Some l => (d_sz (m_d t) >? l)%Z | None => false end in
            if too_big then Some (mkM (ms_mem st) (upd (MDone (Some ETooBig))))
            else match mem_get (ms_mem st) (m_d t) with
                 | Some _ => Some (mkM (ms_mem st) (upd (MDone (Some EExists))))
                 | None =>
                     let src := mkBase (m_evs t) (match m_lim t with Some _ => Some (d_sz (m_d t)) | None => None end) in
                     let '((e, buf), _) := read_all H (m_comb t) true (m_fuel t) src (d_dg (m_d t)) (d_sz (m_d t)) in
                     Some (mkM (ms_mem st) (upd (MRead e buf)))
                 end
        | MRead (Some e) _ => Some (mkM (ms_mem st) (upd (MDone (Some e))))
        | MRead None buf =>
            match mem_get (ms_mem st) (m_d t) with        (* LoadOrStore *)
            | Some _ => Some (mkM (ms_mem st) (upd (MDone (Some EExists))))
            | None => Some (mkM ((m_d t, buf) :: ms_mem st) (upd (MDone None)))
            end
        end
    end.

  Fixpoint mrun (st : mstate) (sched : list nat) : option mstate :=
    match sched with
    | [] => Some st
    | i :: r => match mstep st i with Some st' => mrun st' r | None => None end
    end.
  (* ---------------------------------------------------------------- concurrent named pushes into one file.Store *)
  (* Store.push for a name: lock the name's status; duplicate?; resolveWritePath;
     os.Create(target) (truncates); CopyBuffer into it (thread-local; what is on disk
     meanwhile is not reachable through the store: the name does not exist yet and
     digestToPath does not point there); then either digestToPath.Store + status.exists
     (one step here) or os.Remove(target); unlock.  A thread whose name is locked by
     another thread cannot start. *)
  Inductive fpc :=
  | FStart
  | FWrite (res : option rerr) (out path : str)     (* holds the lock of its name *)
  | FDone (r : option rerr).

  Record fthr := mkFthr { ft_name : str; ft_d : desc; ft_evs : list ev; ft_comb : bool; ft_fuel : nat; ft_pc : fpc }.
  Record fcstate := mkFC { fc_st : fstore; fc_thr : list fthr }.

  Definition with_fpc (t : fthr) (p : fpc) : fthr :=
    mkFthr (ft_name t) (ft_d t) (ft_evs t) (ft_comb t) (ft_fuel t) p.

  Definition writing (t : fthr) : bool := match ft_pc t with FWrite _ _ _ => true | _ => false end.
  Definition locked (thr : list fthr) (n : str) : bool :=
    existsb (fun t => writing t && str_eqb (ft_name t) n) thr.

  Definition fstep (st : fcstate) (i : nat) : option fcstate :=
    match nth_error (fc_thr st) i with
    | None => None
    | Some t =>
        let s := fc_st st in
        let upd p := set_nth (fc_thr st) i (with_fpc t p) in
        match ft_pc t with
        | FDone _ => None
        | FStart =>
            match ft_name t with
            | [] => None                                  (* unnamed pushes: the memory system *)
            | _ =>
                if locked (fc_thr st) (ft_name t) then None
                else if name_in (ft_name t) (f_names s) then Some (mkFC s (upd (FDone (Some EDupName))))
                else match resolve_name (ft_name t) with
                     | None => Some (mkFC s (upd (FDone (Some ETraversal))))
                     | Some path =>
                         let '((e, out), _) := copy_buffer H (ft_comb t) true (ft_fuel t) (mkBase (ft_evs t) None)
                                                           file_bufsz (d_dg (ft_d t)) (d_sz (ft_d t)) in
                         Some (mkFC (mkFs (assoc_set (f_files s) path []) (f_names s) (f_d2p s) (f_fb s))
                                    (upd (FWrite e out path)))
                     end
            end
        | FWrite (Some er) _ path =>
            Some (mkFC (mkFs (assoc_del (f_files s) path) (f_names s) (f_d2p s) (f_fb s)) (upd (FDone (Some er))))
        | FWrite None out path =>
            Some (mkFC (mkFs (assoc_set (f_files s) path out) (ft_name t :: f_names s)
                             (assoc_set (f_d2p s) (d_dg (ft_d t)) path) (f_fb s))
                       (upd (FDone None)))
        end
    end.

  Fixpoint frun (st : fcstate) (sched : list nat) : option fcstate :=
    match sched with
    | [] => Some st
    | i :: r => match fstep st i with Some st' => frun st' r | None => None end
    end.

  Fixpoint explore_f (fuel : nat) (st : fcstate) : list fcstate :=
    match fuel with
    | O => []
    | S f =>
        let nexts := flat_map (fun i => match fstep st i with Some st' => [st'] | None => [] end)
                              (seq 0 (length (fc_thr st))) in
        match nexts with
        | [] => [st]
        | _ => flat_map (explore_f f) nexts
        end
    end.

  Definition fthread_results (st : fcstate) : list (option (option rerr)) :=
    map (fun t => match ft_pc t with FDone r => Some r | _ => None end) (fc_thr st).

  Fixpoint explore_m (fuel : nat) (st : mstate) : list mstate :=
    match fuel with
    | O => []
    | S f =>
        let nexts := flat_map (fun i => match mstep st i with Some st' => [st'] | None => [] end)
                              (seq 0 (length (ms_thr st))) in
        match nexts with
        | [] => [st]
        | _ => flat_map (explore_m f) nexts
        end
    end.

  Definition mthread_results (st : mstate) : list (option (option rerr)) :=
    map (fun t => match m_pc t with MDone r => Some r | _ => None end) (ms_thr st).
End Histories.

(* ------------------------------------------------------------------ cas.Proxy *)
(* Proxy.Fetch with a cas.Memory cache, optionally behind LimitedStorage
   (NewProxyWithLimit).  The caller is a list of Read sizes followed by Close.  The
   io.Pipe between the TeeReader and the cache push is synchronous, so the
   session is deterministic: the push sees the caller's non-empty reads as the
   chunks of its reader and EOF at Close; a Write succeeds iff the push (or, after a
   successful push, the drain loop) consumed all of it, otherwise it returns the
   consumed prefix together with the push error (pr.CloseWithError). *)
Section Proxy.
  Variable H : str -> str -> str.

  Fixpoint rc_reads (comb : bool) (evs : list ev) (ks : list nat) : list rres :=
    match ks with
    | [] => []
    | k :: r => let '(res, evs') := script_read comb evs k in res :: rc_reads comb evs' r
    end.

  Definition nonempty (s : str) : bool := match s with [] => false | _ => true end.
  Definition writes_of (rs : list rres) : list str := filter nonempty (map fst rs).

  (* Cache.Push(target, pipe reader): result, new cache, bytes taken from the pipe *)
  Definition cache_push (limit : option Z) (m : mem) (d : desc) (ws : list str) : (option rerr * mem) * nat :=
    let evs := map Data ws in
    let fuel := S (S (S (ev_weight evs))) in
    let inner (lim : option Z) :=
      match mem_get m d with
      | Some _ => ((Some EExists, m), 0%nat)
      | None =>
          let '((e, buf), v) := read_all H false true fuel (mkBase evs lim) (d_dg d) (d_sz d) in
          let c := (length (stream evs) - length (stream (b_evs (v_base v))))%nat in
          match e with
          | Some e0 => ((Some e0, m), c)
          | None => ((None, (d, buf) :: m), c)
          end
      end in
    match limit with
    | Some l => if (d_sz d >? l)%Z then ((Some ETooBig, m), 0%nat) else inner (Some (d_sz d))
    | None => inner None
    end.

  (* what the TeeReader returns for each Read of the caller *)
  Fixpoint tee_results (perr : option rerr) (c off : nat) (rs : list rres) : list rres :=
    match rs with
    | [] => []
    | (bs, e) :: r =>
        match bs with
        | [] => (bs, e) :: tee_results perr c off r
        | _ =>
            let off' := (off + length bs)%nat in
            match perr with
            | None => (bs, e) :: tee_results perr c off' r
            | Some pe =>
                if (off' <=? c)%nat then (bs, e) :: tee_results perr c off' r
                else (firstn (c - off) bs, Some pe) :: tee_results perr c off' r
            end
        end
    end.

  (* one Fetch + reads + Close: (results of the reads, result of Close, cache afterwards) *)
  Definition proxy_fetch (limit : option Z) (stop : bool) (m : mem) (d : desc)
             (comb : bool) (evs : list ev) (ks : list nat) : (list rres * option rerr) * mem :=
    match mem_get m d with
    | Some bs => ((rc_reads false (serve_script bs) ks, None), m)
    | None =>
        if stop then ((rc_reads comb evs ks, None), m)
        else
          let rs := rc_reads comb evs ks in
          let '((pe, m'), c) := cache_push limit m d (writes_of rs) in
          ((tee_results pe c 0 rs, pe), m')
    end.
  (* every cache state a proxy can reach from an empty cache by any sequence of fetches
     (any descriptors, base contents, caller read patterns, limits, StopCaching settings) *)
  Inductive proxy_reach : mem -> Prop :=
  | proxy_reach_nil : proxy_reach []
  | proxy_reach_fetch limit stop m d comb evs ks rs ce m' :
      proxy_reach m -> proxy_fetch limit stop m d comb evs ks = ((rs, ce), m') -> proxy_reach m'.
End Proxy.
