(* Model/RemoteClient.v -- registry/remote Repository / blobStore / manifestStore:
   the requests each operation emits and the result it derives from the
   responses.  Generic in the server ([srv], [exch]); executable, no proofs.

   Mirrors registry/remote/repository.go: blobStore.{Fetch,Push,Mount,Resolve,
   Exists,Delete}, manifestStore.{Fetch,Push,PushReference,Resolve,FetchReference,
   Tag,Exists,Delete}, generateDescriptor, generateBlobDescriptor,
   verifyContentDigest, Repository.delete, pushWithIndexing/deleteWithIndexing
   (subject-less manifests; with a subject only against a registry that
   answers OCI-Subject), Predecessors over the Referrers API; and
   internal/httputil/seek.go readSeekCloser. *)
From Oras Require Import Base.Prelude Base.Regex Generated.GC20 Generated.GC13 Model.Reference Model.Registry.

Inductive err := ENotFound | EInvalidRef | EOther | EUnmodelled.

Inductive result :=
| ROk
| RBool (x : bool)
| RDesc (d : desc)
| RBytes (c : str)
| RDescBytes (d : desc) (c : str)
| RDescs (l : list desc)
| RErr (e : err).

Inductive op :=
| OPush (d : desc) (c : str)
| OFetch (d : desc)
| OExists (d : desc)
| ODelete (d : desc)
| OResolve (s : str)
| OFetchRef (s : str)
| OTag (d : desc) (s : str)
| OPushRef (d : desc) (c : str) (s : str)
| OMount (d : desc) (getc : option str)   (* from the sibling repository; getContent or nil *)
| OPreds (d : desc)
| OBlobResolve (s : str)
| OBlobFetchRef (s : str).

Definition trace := list (request * response).

(* media types *)
Definition mt_oci_manifest := b "application/vnd.oci.image.manifest.v1+json".
(* registry/remote/manifest.go defaultManifestMediaTypes (regenerated from the source) *)
Definition default_mts : list str := defaultManifestMediaTypes.

Definition mem_str (x : str) (l : list str) : bool := existsb (str_eqb x) l.

Fixpoint join_comma (l : list str) : str :=
  match l with
  | [] => []
  | [x] => x
  | x :: r => x ++ b ", " ++ join_comma r
  end.

(* the first case list of the switch in pushWithIndexing / deleteWithIndexing
   (regenerated from the source) *)
Definition indexable (mt : str) : bool := existsb (str_eqb mt) indexed_on_push.
Definition indexable_del (mt : str) : bool := existsb (str_eqb mt) indexed_on_delete.

(* referrersState *)
Inductive rstate := RSUnknown | RSSupported | RSUnsupported.
Definition rs_supported (s : rstate) : bool := match s with RSSupported => true | _ => false end.
(* SetReferrersCapability: compare-and-swap from unknown *)
Definition rs_set (s : rstate) (capable : bool) : rstate :=
  match s with RSUnknown => if capable then RSSupported else RSUnsupported | _ => s end.

(* registry/remote/utils.go defaultMaxMetadataBytes (regenerated) and the effective limit *)
Definition eff_limit (max_metadata_bytes : N) : N :=
  if max_metadata_bytes =? 0 then Z.to_N c13_defaultMaxMetadataBytes else max_metadata_bytes.

Definition zero_digest : str := zeroDigest.              (* registry/remote/referrers.go *)

(* the first n bytes (io.LimitReader), without going through unary numbers *)
Fixpoint take_n (l : str) (n : N) : str :=
  match l with
  | [] => []
  | x :: r => if n =? 0 then [] else x :: take_n r (n - 1)
  end.

Definition is_nil {A} (l : list A) : bool := match l with [] => true | _ => false end.
Definition is_nil_str (s : str) : bool := is_nil s.

(* ---------- the referrers tag schema (registries without the Referrers API) ---------- *)

(* decimal digits of a number (strconv / encoding/json) *)
Fixpoint dec_aux (fuel : nat) (n : N) (acc : str) : str :=
  match fuel with
  | O => acc
  | S f => if n <? 10 then (48 + n) :: acc else dec_aux f (n / 10) ((48 + n mod 10) :: acc)
  end.
Definition dec_of_N (n : N) : str := dec_aux (S (N.size_nat n)) n [].

Definition json_str (s : str) : str := [34] ++ s ++ [34].   (* media types and digests need no escaping *)

(* encoding/json of an ocispec.Descriptor without optional fields *)
Definition desc_json (d : desc) : str :=
  b "{""mediaType"":" ++ json_str (d_mt d) ++ b ",""digest"":" ++ json_str (d_dg d)
  ++ b ",""size"":" ++ dec_of_N (d_sz d) ++ b "}".

Fixpoint join_with (sep : str) (l : list str) : str :=
  match l with
  | [] => []
  | [x] => x
  | x :: r => x ++ sep ++ join_with sep r
  end.

(* generateIndex: {"schemaVersion":2,"mediaType":<image index>,"manifests":[...]} *)
Definition gen_index (l : list desc) : str :=
  b "{""schemaVersion"":2,""mediaType"":" ++ json_str mt_index ++ b ",""manifests"":["
  ++ join_with (b ",") (map desc_json l) ++ b "]}".

Definition desc_eqb (x y : desc) : bool :=
  str_eqb (d_mt x) (d_mt y) && str_eqb (d_dg x) (d_dg y) && (d_sz x =? d_sz y).
Definition desc_zero (x : desc) : bool := is_nil_str (d_mt x) && is_nil_str (d_dg x) && (d_sz x =? 0).

(* first occurrences only, empty descriptors dropped (the first loop of applyReferrerChanges) *)
Fixpoint clean_refs (seen l : list desc) : list desc :=
  match l with
  | [] => []
  | x :: r => if desc_zero x || existsb (desc_eqb x) seen then clean_refs seen r
              else x :: clean_refs (x :: seen) r
  end.

Inductive rchange := RAdd (d : desc) | RRemove (d : desc).

(* applyReferrerChanges with at most one change; None = errNoReferrerUpdate *)
Definition apply_change (old : list desc) (ch : option rchange) : option (list desc) :=
  let cl := clean_refs [] old in
  let dirty := negb (length cl =? length old)%nat in
  match ch with
  | None => if dirty then Some cl else None
  | Some (RAdd d) =>
      if existsb (desc_eqb d) cl then (if dirty then Some cl else None) else Some (cl ++ [d])
  | Some (RRemove d) =>
      if existsb (desc_eqb d) cl then Some (filter (fun x => negb (desc_eqb d x)) cl)
      else (if dirty then Some cl else None)
  end.

(* utils.go decodeJSON, as the translator reads it from the source: the body is read through
   content.ReadAll (exactly desc.Size bytes whose digest is desc.Digest) before it is decoded *)
Fixpoint strs_eqb (x y : list str) : bool :=
  match x, y with
  | [], [] => true
  | a :: x', c :: y' => str_eqb a c && strs_eqb x' y'
  | _, _ => false
  end.
Definition decode_json_verifies : bool :=
  strs_eqb decodeJSON_calls [b "content.ReadAll"; b "json.Unmarshal"].

(* buildReferrersTag: <alg>-<encoded> *)
Definition ref_tag (dg : str) : str := map (fun c => if c =? 58 then 45 else c) dg.

Definition nstr (o : option str) : str := match o with Some s => s | None => [] end.

Section Client.
  Variable H : str -> str.
  Variable parse_mt : str -> option str.         (* mime.ParseMediaType: None = error *)
  (* JSON view of a manifest: None = not decodable; Some None = no subject *)
  Variable subject_of : str -> option (option desc).
  Variable main other : str.
  Variable user_mts : list str.                  (* Repository.ManifestMediaTypes *)
  (* effective Repository.MaxMetadataBytes (the regenerated default when <= 0): limitSize on
     the descriptor of a manifest the client decodes, and the bound on the body it hashes *)
  Variable limit : N.
  Variable skip_gc : bool.                       (* Repository.SkipReferrersGC *)
  (* encoding/json of a referrers index: its "manifests" (None = not decodable) *)
  Variable index_of : str -> option (list desc).

  Variable srv : Type.
  Variable exch : srv -> request -> srv * response.

  Definition mts : list str := match user_mts with [] => default_mts | _ => user_mts end.
  Definition is_manifest (d : desc) : bool := mem_str (d_mt d) mts.

  (* Repository.ParseReference (C20), reference part only; references without '/' *)
  Definition resolve_ref (s : str) : option str :=
    match repo_parse (fun _ => false) (b "registry.example") main s with
    | Some r => Some (r_reference r)
    | None => None
    end.

  Definition req (m : meth) (repo : str) (e : endpoint) : request :=
    mkReq m repo e None None None None None None [].

  Definition status_err (r : response) : result :=
    RErr EOther.                                  (* errutil.ParseErrorResponse *)

  (* verifyContentDigest *)
  Definition verify_digest (r : response) (expected : str) : bool :=
    match nstr (r_dig r) with
    | [] => true
    | s => valid_digest s && str_eqb s expected
    end.

  (* generateBlobDescriptor *)
  Definition gen_blob_desc (r : response) (refd : str) : option desc :=
    let mt := match parse_mt (nstr (r_ctype r)) with
              | Some ((_ :: _) as m) => m
              | _ => ct_octet
              end in
    match r_clen r with
    | None => None
    | Some n => if verify_digest r refd then Some (mkDesc mt refd n) else None
    end.

  (* what calculateDigestFromResponse reads, hashes and leaves as the response body *)
  Definition hashed_body (r : response) : str := take_n (r_body r) limit.

  (* manifestStore.generateDescriptor; [hd] = the request was a HEAD *)
  Definition gen_desc (r : response) (rf : str) (hd : bool) : option desc :=
    match parse_mt (nstr (r_ctype r)) with
    | None => None
    | Some mt =>
        match r_clen r with
        | None => None
        | Some n =>
            let refd := if valid_digest rf then rf else [] in
            let srvd := nstr (r_dig r) in
            if match srvd with [] => false | _ => negb (valid_digest srvd) end then None
            else
              let cd : option str :=
                match srvd with
                | [] => if hd then (match refd with [] => None | _ => Some refd end)
                        (* calculateDigestFromResponse: a response whose Content-Length is over the
                           limit is refused up front; otherwise the body is read through
                           limitReader (at most [limit] bytes, C15) and those bytes are hashed *)
                        else if limit <? n then None else Some (H (hashed_body r))
                | _ => Some srvd
                end in
              match cd with
              | None => None
              | Some cd =>
                  if match refd with [] => false | _ => negb (str_eqb refd cd) end then None
                  else Some (mkDesc mt cd n)
              end
        end
    end.

  (* ---- blobStore ---- *)

  Definition blob_fetch (repo : str) (s : srv) (d : desc) : srv * trace * result :=
    let q := req GET repo (EBlob (d_dg d)) in
    let '(s1, r) := exch s q in
    (s1, [(q, r)],
     if r_status r =? 200 then
       if match r_clen r with Some n => negb (n =? d_sz d) | None => false end then RErr EOther
       else if verify_digest r (d_dg d) then RBytes (r_body r) else RErr EOther
     else if r_status r =? 404 then RErr ENotFound
     else status_err r).

  (* completePushAfterInitialPost; [sized] = the content reader has a known length *)
  Definition complete_push (s : srv) (r1 : response) (d : desc) (c : str) (sized : bool)
    : srv * trace * result :=
    match r_loc r1 with
    | None => (s, [], RErr EOther)
    | Some (lrepo, lep) =>
        if sized && negb (len c =? d_sz d) then (s, [], RErr EOther)
        else
          let q := mkReq PUT lrepo lep (Some (d_dg d)) None None (Some ct_octet) (Some (d_sz d)) None c in
          let '(s2, r2) := exch s q in
          (s2, [(q, r2)],
           if r_status r2 =? 201 then
             (* a well-formed digest reported for the uploaded blob must be the expected one *)
             if valid_digest (nstr (r_dig r2)) && negb (str_eqb (nstr (r_dig r2)) (d_dg d)) then RErr EOther
             else ROk
           else status_err r2)
    end.

  Definition blob_push (s : srv) (d : desc) (c : str) : srv * trace * result :=
    let q := req POST main EUploads in
    let '(s1, r1) := exch s q in
    if r_status r1 =? 202 then
      let '(s2, t2, res) := complete_push s1 r1 d c true in
      (s2, (q, r1) :: t2, res)
    else (s1, [(q, r1)], status_err r1).

  Definition blob_mount (s : srv) (d : desc) (getc : option str) : srv * trace * result :=
    let q := mkReq POST main EUploads None (Some (d_dg d, other)) None None None None [] in
    let '(s1, r1) := exch s q in
    if r_status r1 =? 201 then
      (s1, [(q, r1)], if verify_digest r1 (d_dg d) then ROk else RErr EOther)
    else if r_status r1 =? 202 then
      match getc with
      | Some c =>
          let '(s2, t2, res) := complete_push s1 r1 d c false in
          (s2, (q, r1) :: t2, res)
      | None =>
          let '(s2, t2, res) := blob_fetch other s1 d in
          match res with
          | RBytes c =>
              let '(s3, t3, res3) := complete_push s2 r1 d c false in
              (s3, (q, r1) :: t2 ++ t3, res3)
          | _ => (s2, (q, r1) :: t2, res)
          end
      end
    else (s1, [(q, r1)], status_err r1).

  Definition blob_resolve (s : srv) (rs : str) : srv * trace * result :=
    match resolve_ref rs with
    | None => (s, [], RErr EInvalidRef)
    | Some rf =>
        if negb (valid_digest rf) then (s, [], RErr EOther)
        else
          let q := req HEAD main (EBlob rf) in
          let '(s1, r) := exch s q in
          (s1, [(q, r)],
           if r_status r =? 200 then
             match gen_blob_desc r rf with Some d => RDesc d | None => RErr EOther end
           else if r_status r =? 404 then RErr ENotFound
           else status_err r)
    end.

  Definition blob_fetchref (s : srv) (rs : str) : srv * trace * result :=
    match resolve_ref rs with
    | None => (s, [], RErr EInvalidRef)
    | Some rf =>
        if negb (valid_digest rf) then (s, [], RErr EOther)
        else
          let q := req GET main (EBlob rf) in
          let '(s1, r) := exch s q in
          if r_status r =? 200 then
            match r_clen r with
            | None =>
                let '(s2, t2, res) := blob_resolve s1 rs in
                (s2, (q, r) :: t2,
                 match res with
                 | RDesc d => (* the body comes from the GET: its digest header must not contradict *)
                     if verify_digest r (d_dg d) then RDescBytes d (r_body r) else RErr EOther
                 | _ => res
                 end)
            | Some _ =>
                (s1, [(q, r)],
                 match gen_blob_desc r rf with Some d => RDescBytes d (r_body r) | None => RErr EOther end)
            end
          else (s1, [(q, r)], if r_status r =? 404 then RErr ENotFound else status_err r)
    end.

  Definition exists_of (res : result) : result :=
    match res with
    | RDesc _ => RBool true
    | RErr ENotFound => RBool false
    | _ => res
    end.

  (* Repository.delete *)
  Definition delete_req (s : srv) (d : desc) (man : bool) : srv * trace * result :=
    let q := req DELETE main (if man then EManifest (d_dg d) else EBlob (d_dg d)) in
    let '(s1, r) := exch s q in
    (s1, [(q, r)],
     if r_status r =? 202 then (if verify_digest r (d_dg d) then ROk else RErr EOther)
     else if r_status r =? 404 then RErr ENotFound
     else status_err r).

  (* ---- manifestStore ---- *)

  Definition man_fetch (s : srv) (d : desc) : srv * trace * result :=
    let q := mkReq GET main (EManifest (d_dg d)) None None (Some (d_mt d)) None None None [] in
    let '(s1, r) := exch s q in
    (s1, [(q, r)],
     if r_status r =? 200 then
       match parse_mt (nstr (r_ctype r)) with
       | None => RErr EOther
       | Some mt =>
           if negb (str_eqb mt (d_mt d)) then RErr EOther
           else if match r_clen r with Some n => negb (n =? d_sz d) | None => false end then RErr EOther
           else if verify_digest r (d_dg d) then RBytes (r_body r) else RErr EOther
       end
     else if r_status r =? 404 then RErr ENotFound
     else status_err r).

  Definition man_resolve (s : srv) (rs : str) : srv * trace * result :=
    match resolve_ref rs with
    | None => (s, [], RErr EInvalidRef)
    | Some rf =>
        let q := mkReq HEAD main (EManifest rf) None None (Some (join_comma mts)) None None None [] in
        let '(s1, r) := exch s q in
        (s1, [(q, r)],
         if r_status r =? 200 then
           match gen_desc r rf true with Some d => RDesc d | None => RErr EOther end
         else if r_status r =? 404 then RErr ENotFound
         else status_err r)
    end.

  Definition man_fetchref (s : srv) (rs : str) : srv * trace * result :=
    match resolve_ref rs with
    | None => (s, [], RErr EInvalidRef)
    | Some rf =>
        let q := mkReq GET main (EManifest rf) None None (Some (join_comma mts)) None None None [] in
        let '(s1, r) := exch s q in
        if r_status r =? 200 then
          match r_clen r with
          | None =>
              let '(s2, t2, res) := man_resolve s1 rs in
              (s2, (q, r) :: t2,
               match res with
               | RDesc d => if verify_digest r (d_dg d) then RDescBytes d (r_body r) else RErr EOther
               | _ => res
               end)
          | Some _ =>
              (s1, [(q, r)],
               match gen_desc r rf false with
               | Some d =>
                   (* without a digest header the body was consumed for hashing and replaced *)
                   RDescBytes d (match nstr (r_dig r) with [] => hashed_body r | _ => r_body r end)
               | None => RErr EOther
               end)
          end
        else (s1, [(q, r)], if r_status r =? 404 then RErr ENotFound else status_err r)
    end.

  (* manifestStore.push; returns the new referrers state (checkOCISubjectHeader) *)
  Definition man_put (s : srv) (rst : rstate) (d : desc) (c : str) (sized : bool) (rf : str)
    : srv * rstate * trace * result :=
    if sized && negb (len c =? d_sz d) then (s, rst, [], RErr EOther)
    else
      let q := mkReq PUT main (EManifest rf) None None None (Some (d_mt d)) (Some (d_sz d)) None c in
      let '(s1, r) := exch s q in
      if r_status r =? 201 then
        let rst1 := match nstr (r_subj r) with [] => rst | _ => rs_set rst true end in
        (s1, rst1, [(q, r)], if verify_digest r (d_dg d) then ROk else RErr EOther)
      else (s1, rst, [(q, r)], status_err r).

  (* pingReferrers *)
  Definition ping_referrers (s : srv) (rst : rstate) : srv * rstate * trace * option bool :=
    match rst with
    | RSSupported => (s, rst, [], Some true)
    | RSUnsupported => (s, rst, [], Some false)
    | RSUnknown =>
        let q := req GET main (EReferrers zero_digest) in
        let '(s1, r) := exch s q in
        if r_status r =? 200 then
          let sup := str_eqb (nstr (r_ctype r)) mt_index in
          (s1, rs_set rst sup, [(q, r)], Some sup)
        else if r_status r =? 404 then
          (* repository not found: an error, the capability stays unknown *)
          if str_eqb (r_body r) name_unknown then (s1, rst, [(q, r)], None)
          else (s1, rs_set rst false, [(q, r)], Some false)
        else (s1, rst, [(q, r)], None)
    end.

  Definition lift (x : srv * trace * result) (rst : rstate) : srv * rstate * trace * result :=
    let '(s, t, r) := x in (s, rst, t, r).

  (* referrersFromIndex: FetchReference(referrers tag) + limitSize + decodeJSON, which reads the
     body through content.ReadAll: exactly desc.Size bytes whose digest is desc.Digest *)
  Definition referrers_from_index (s : srv) (tag : str)
    : srv * trace * result * option (desc * list desc) :=
    let '(s1, t1, res) := man_fetchref s tag in
    match res with
    | RDescBytes d body =>
        if limit <? d_sz d then (s1, t1, RErr EOther, None)
        else if decode_json_verifies && (negb (len body =? d_sz d) || negb (str_eqb (H body) (d_dg d)))
        then (s1, t1, RErr EOther, None)
        else match index_of body with
             | Some l => (s1, t1, ROk, Some (d, l))
             | None => (s1, t1, RErr EOther, None)
             end
    | _ => (s1, t1, res, None)
    end.

  (* updateReferrersIndex (Merge.Do with one change = prepare; update) *)
  Definition update_referrers_index (s : srv) (rst : rstate) (subj : desc) (ch : rchange)
    : srv * rstate * trace * result :=
    if negb (valid_digest (d_dg subj)) then (s, rst, [], RErr EOther)
    else
      let tag := ref_tag (d_dg subj) in
      let '(s1, t1, res, old) := referrers_from_index s tag in
      let proceed (oldd : option desc) (oldl : list desc) :=
        match apply_change oldl (Some ch) with
        | None => (s1, rst, t1, ROk)
        | Some upd =>
            let '(s2, rst2, t2, res2) :=
              if negb (is_nil upd) || skip_gc then
                let j := gen_index upd in
                man_put s1 rst (mkDesc mt_index (H j) (len j)) j true tag
              else (s1, rst, [], ROk) in
            match res2 with
            | ROk =>
                match oldd with
                | Some od => if skip_gc then (s2, rst2, t1 ++ t2, ROk)
                             else let '(s3, t3, res3) := delete_req s2 od true in (s3, rst2, t1 ++ t2 ++ t3, res3)
                | None => (s2, rst2, t1 ++ t2, ROk)
                end
            | _ => (s2, rst2, t1 ++ t2, res2)
            end
        end in
      match res, old with
      | ROk, Some (od, l) => proceed (Some od) l
      | RErr ENotFound, _ => proceed None []
      | _, _ => (s1, rst, t1, res)
      end.

  (* the same, also telling whether ONLY the clean-up of the dangling old index failed after a new
     index was pushed (ReferrersError.IsReferrersIndexDelete): deleteWithIndexing then finishes *)
  Definition update_referrers_index_x (s : srv) (rst : rstate) (subj : desc) (ch : rchange)
    : srv * rstate * trace * result * bool :=
    if negb (valid_digest (d_dg subj)) then (s, rst, [], RErr EOther, false)
    else
      let tag := ref_tag (d_dg subj) in
      let '(s1, t1, res, old) := referrers_from_index s tag in
      let proceed (oldd : option desc) (oldl : list desc) :=
        match apply_change oldl (Some ch) with
        | None => (s1, rst, t1, ROk, false)
        | Some upd =>
            let '(s2, rst2, t2, res2) :=
              if negb (is_nil upd) || skip_gc then
                let j := gen_index upd in
                man_put s1 rst (mkDesc mt_index (H j) (len j)) j true tag
              else (s1, rst, [], ROk) in
            match res2 with
            | ROk =>
                match oldd with
                | Some od => if skip_gc then (s2, rst2, t1 ++ t2, ROk, false)
                             else let '(s3, t3, res3) := delete_req s2 od true in
                                  (s3, rst2, t1 ++ t2 ++ t3, res3,
                                   match res3 with ROk => false | _ => negb (is_nil upd) end)
                | None => (s2, rst2, t1 ++ t2, ROk, false)
                end
            | _ => (s2, rst2, t1 ++ t2, res2, false)
            end
        end in
      match res, old with
      | ROk, Some (od, l) => proceed (Some od) l
      | RErr ENotFound, _ => proceed None []
      | _, _ => (s1, rst, t1, res, false)
      end.

  (* referrersByTagSchema (artifactType "") *)
  Definition tag_schema_referrers (s : srv) (d : desc) : srv * trace * result :=
    if negb (valid_digest (d_dg d)) then (s, [], RErr EOther)
    else
      let '(s1, t1, res, old) := referrers_from_index s (ref_tag (d_dg d)) in
      match res, old with
      | ROk, Some (_, l) => (s1, t1, RDescs (clean_refs [] l))
      | RErr ENotFound, _ => (s1, t1, RDescs [])
      | _, _ => (s1, t1, res)
      end.

  (* pushWithIndexing *)
  Definition man_push (s : srv) (rst : rstate) (d : desc) (c : str) (rf : str)
    : srv * rstate * trace * result :=
    if indexable (d_mt d) && negb (rs_supported rst) then
      (* limitSize(expected); content.ReadAll(r, expected) *)
      if limit <? d_sz d then (s, rst, [], RErr EOther)
      else if negb (len c =? d_sz d) || negb (str_eqb (H c) (d_dg d)) then (s, rst, [], RErr EOther)
      else
        let '(s1, rst1, t1, res) := man_put s rst d c true rf in
        match res with
        | ROk =>
            if rs_supported rst1 then (s1, rst1, t1, ROk)
            else match subject_of c with
                 | None => (s1, rst1, t1, RErr EOther)
                 | Some None => (s1, rst1, t1, ROk)
                 | Some (Some sj) =>
                     (* the registry did not process the subject: referrers tag schema *)
                     let '(s2, rst2, t2, res2) := update_referrers_index s1 (rs_set rst1 false) sj (RAdd d) in
                     (s2, rst2, t1 ++ t2, res2)
                 end
        | _ => (s1, rst1, t1, res)
        end
    else man_put s rst d c true rf.

  (* deleteWithIndexing *)
  Definition man_delete (s : srv) (rst : rstate) (d : desc) : srv * rstate * trace * result :=
    if indexable_del (d_mt d) && negb (rs_supported rst) then
      if limit <? d_sz d then (s, rst, [], RErr EOther) else       (* limitSize(target) *)
      let '(s1, t1, res) := man_fetch s d in
      match res with
      | RBytes c =>
          (* content.FetchAll verifies size and digest *)
          if negb (len c =? d_sz d) || negb (str_eqb (H c) (d_dg d)) then (s1, rst, t1, RErr EOther)
          else
            match subject_of c with
            | None => (s1, rst, t1, RErr EOther)
            | Some None =>
                let '(s2, t2, res2) := delete_req s1 d true in (s2, rst, t1 ++ t2, res2)
            | Some (Some sj) =>
                let '(s2, rst2, t2, ok) := ping_referrers s1 rst in
                match ok with
                | None => (s2, rst2, t1 ++ t2, RErr EOther)
                | Some true =>
                    let '(s3, t3, res3) := delete_req s2 d true in (s3, rst2, t1 ++ t2 ++ t3, res3)
                | Some false =>
                    let '(s3, rst3, t3, res3, cleanup) := update_referrers_index_x s2 rst2 sj (RRemove d) in
                    match res3 with
                    | ROk => let '(s4, t4, res4) := delete_req s3 d true in (s4, rst3, t1 ++ t2 ++ t3 ++ t4, res4)
                    | _ =>
                        if cleanup then
                          (* the index is updated, only the dangling old index stayed: finish the
                             deletion, report the clean-up error afterwards *)
                          let '(s4, t4, res4) := delete_req s3 d true in
                          (s4, rst3, t1 ++ t2 ++ t3 ++ t4, match res4 with ROk => res3 | _ => res4 end)
                        else (s3, rst3, t1 ++ t2 ++ t3, res3)
                    end
                end
            end
      | _ => (s1, rst, t1, res)
      end
    else
      let '(s1, t1, res) := delete_req s d true in (s1, rst, t1, res).

  Definition man_tag (s : srv) (rst : rstate) (d : desc) (rs : str) : srv * rstate * trace * result :=
    match resolve_ref rs with
    | None => (s, rst, [], RErr EInvalidRef)
    | Some rf =>
        let '(s1, t1, res) := man_fetch s d in
        match res with
        | RBytes c =>
            let '(s2, rst2, t2, res2) := man_put s1 rst d c false rf in
            (s2, rst2, t1 ++ t2, res2)
        | _ => (s1, rst, t1, res)
        end
    end.

  (* Predecessors through the Referrers API (single page; pagination: C15) *)
  Definition predecessors (s : srv) (rst : rstate) (d : desc) : srv * rstate * trace * result :=
    match rst with
    | RSUnsupported => lift (tag_schema_referrers s d) rst
    | _ =>
        let q := req GET main (EReferrers (d_dg d)) in
        let '(s1, r) := exch s q in
        (* ErrUnsupported from the API with the capability unknown: fall back to the tag schema *)
        let fallback :=
          match rst with
          | RSSupported => (s1, rst, [(q, r)], RErr EOther)
          | _ => let '(s2, t2, res2) := tag_schema_referrers s1 d in (s2, rs_set rst false, (q, r) :: t2, res2)
          end in
        if r_status r =? 200 then
          if str_eqb (nstr (r_ctype r)) mt_index then (s1, rs_set rst true, [(q, r)], RDescs (r_refs r))
          else fallback
        else if r_status r =? 404 then
          if str_eqb (r_body r) name_unknown then (s1, rst, [(q, r)], RErr EOther)   (* NAME_UNKNOWN *)
          else fallback
        else (s1, rst, [(q, r)], status_err r)
    end.

  (* ---- Repository: routing by media type ---- *)

  Definition run_op (s : srv) (rst : rstate) (o : op) : srv * rstate * trace * result :=
    match o with
    | OPush d c => if is_manifest d then man_push s rst d c (d_dg d) else lift (blob_push s d c) rst
    | OFetch d => lift (if is_manifest d then man_fetch s d else blob_fetch main s d) rst
    | OExists d =>
        let '(s1, t, r) := (if is_manifest d then man_resolve s (d_dg d) else blob_resolve s (d_dg d)) in
        (s1, rst, t, exists_of r)
    | ODelete d => if is_manifest d then man_delete s rst d else lift (delete_req s d false) rst
    | OResolve rs => lift (man_resolve s rs) rst
    | OFetchRef rs => lift (man_fetchref s rs) rst
    | OTag d rs => man_tag s rst d rs
    | OPushRef d c rs =>
        match resolve_ref rs with
        | None => (s, rst, [], RErr EInvalidRef)
        | Some rf => man_push s rst d c rf
        end
    | OMount d getc => lift (blob_mount s d getc) rst
    | OPreds d => predecessors s rst d
    | OBlobResolve rs => lift (blob_resolve s rs) rst
    | OBlobFetchRef rs => lift (blob_fetchref s rs) rst
    end.

  Fixpoint run_ops (s : srv) (rst : rstate) (os : list op) : srv * rstate * list (trace * result) :=
    match os with
    | [] => (s, rst, [])
    | o :: rest =>
        let '(s1, rst1, t, r) := run_op s rst o in
        let '(s2, rst2, out) := run_ops s1 rst1 rest in
        (s2, rst2, (t, r) :: out)
    end.
End Client.

(* ---------- registry/remote/url.go: the URL a request is sent to ---------- *)
(* scheme://host/v2/<repository>/... built by the C20 URL builders (Model/Reference.v); the mount
   query is written verbatim (fmt.Sprintf), the digest of the upload PUT and the referrers page
   size go through url.Values.Encode (':' escaped).  [sess_path id] is the Location the registry
   model hands out for an upload session. *)
Definition esc_colon (s : str) : str := flat_map (fun c => if c =? 58 then b "%3A" else [c]) s.

Definition request_url (plain : bool) (host : str) (ref_page : N) (q : request) : str :=
  let rf (x : str) := mkRef host (q_repo q) x in
  (match q_ep q with
   | EBlob d => url_blob plain (rf d)
   | EManifest r => url_manifest plain (rf r)
   | EUploads =>
       url_upload plain (rf []) ++
       match q_mount q with Some (d, from) => b "?mount=" ++ d ++ b "&from=" ++ from | None => [] end
   | ESession id => url_upload plain (rf []) ++ dec_of_N id
   | EReferrers d =>
       (* pingReferrers (the zero digest) never sends the page size *)
       url_referrers plain (rf d) ++
       (if (ref_page =? 0) || str_eqb d zero_digest then [] else b "?n=" ++ dec_of_N ref_page)
   end)
  (* the final PUT of an upload: the Location it was given plus the digest *)
  ++ match q_digest q with Some d => b "?digest=" ++ esc_colon d | None => [] end.

(* ---------- response corruption (harness: one field of one response) ---------- *)

Inductive corruption :=
| KDigOther (d : str) | KDigGarbage | KDigDrop
| KLenInc | KLenDrop
| KTypeOther | KTypeGarbage | KTypeDrop
| KStatus (st : N)
| KLocDrop
| KNameUnknown.            (* 404 with error code NAME_UNKNOWN *)

Definition corrupt (k : corruption) (r : response) : response :=
  let '(mkResp st ct cl dg loc ar sj rf body) := r in
  match k with
  | KDigOther d => mkResp st ct cl (Some d) loc ar sj rf body
  | KDigGarbage => mkResp st ct cl (Some (b "garbage")) loc ar sj rf body
  | KDigDrop => mkResp st ct cl None loc ar sj rf body
  | KLenInc => mkResp st ct (match cl with Some n => Some (n + 1) | None => None end) dg loc ar sj rf body
  | KLenDrop => mkResp st ct None dg loc ar sj rf body
  | KTypeOther => mkResp st (Some (b "application/vnd.verif.other")) cl dg loc ar sj rf body
  | KTypeGarbage => mkResp st (Some (b "garbage/;=")) cl dg loc ar sj rf body
  | KTypeDrop => mkResp st None cl dg loc ar sj rf body
  | KStatus s => mkResp s ct cl dg loc ar sj rf body
  | KLocDrop => mkResp st ct cl dg None ar sj rf body
  | KNameUnknown => mkResp 404 ct cl dg loc ar sj rf name_unknown
  end.

(* server = registry + request counter; the k-th exchange is corrupted *)
Section Run.
  Variable H : str -> str.
  Variable parse_mt : str -> option str.
  Variable subject_of : str -> option (option desc).
  Variable main other : str.
  Variable user_mts : list str.
  Variable limit : N.
  Variable skip_gc : bool.
  Variable index_of : str -> option (list desc).
  Variable p : profile.
  Variable kor : option (N * corruption).

  Definition subj_of (c : str) : option desc :=
    match subject_of c with Some (Some d) => Some d | _ => None end.

  Definition cexch (s : reg * N) (q : request) : (reg * N) * response :=
    let '(g, n) := s in
    let '(g1, r) := handle H subj_of main other p g q in
    let r1 := match kor with
              | Some (k, c) => if n =? k then corrupt c r else r
              | None => r
              end in
    ((g1, n + 1), r1).

  Definition run_history (other_blobs : list (str * str)) (rst : rstate) (os : list op)
    : reg * list (trace * result) :=
    let '(s, _, out) := run_ops H parse_mt subject_of main other user_mts limit skip_gc index_of (reg * N) cexch
                                (reg0 other_blobs, 0) rst os in
    (fst s, out).
End Run.

(* ---------- internal/httputil/seek.go: readSeekCloser ---------- *)

(* How a response body hands out its bytes (io.Reader leaves this open): at most
   [bm_chunk] bytes per Read call (0 = no limit: short reads otherwise), and the final
   bytes either together with io.EOF in one call ([bm_eofd], what net/http does for a
   Content-Length body) or followed by a separate (0, io.EOF). *)
Record bmode := mkBm { bm_chunk : N; bm_eofd : bool }.

Definition read_len (m : bmode) (n avail : N) : N :=
  let a := N.min n avail in
  if bm_chunk m =? 0 then a else N.min a (bm_chunk m).


(* one Read(p) with len(p) = n on a body with remaining bytes [rc]: (bytes, rest, EOF?) *)
Definition read_chunk (m : bmode) (n : N) (rc : str) : str * str * bool :=
  let l := N.to_nat (read_len m n (len rc)) in
  let got := firstn l rc in
  let rest := skipn l rc in
  (got, rest, match rc with [] => true | _ => bm_eofd m && negb (is_nil got) && is_nil rest end).

(* k_bi: index of the body being read (the i-th body the server produced behaves as
   [modes i]); k_nb: bodies produced so far; k_rq: Range requests sent so far *)
Record rsc := mkRsc { k_rc : str; k_size : N; k_off : N; k_closed : bool; k_bi : nat; k_nb : nat; k_rq : nat }.

Inductive whence := SeekStart | SeekCurrent | SeekEnd.
Inductive sop := SRead (n : N) | SSeek (off : Z) (w : whence) | SClose.
Inductive sout :=
| SData (c : str) (eof : bool)   (* one Read call: the bytes and whether io.EOF came with them *)
| SPos (n : N)                   (* Seek result *)
| SErr
| SClosed.

(* offset arithmetic is Go's int64: a sum that overflows wraps around *)
Definition wrap64 (z : Z) : Z := ((z + 9223372036854775808) mod 18446744073709551616 - 9223372036854775808)%Z.

Definition is_body_status (st : N) : bool := (st =? 200) || (st =? 206).

Section Seek.
  Variable modes : nat -> bmode.
  (* the answer to the i-th Range request "bytes=a-b" *)
  Variable srv : nat -> N -> N -> response.

  Definition rsc_step (k : rsc) (o : sop) : rsc * list (N * N) * sout :=
    match o with
    | SClose => (mkRsc (k_rc k) (k_size k) (k_off k) true (k_bi k) (k_nb k) (k_rq k), [], SClosed)
    | SRead n =>
        if k_closed k then (k, [], SErr)
        else
          let '(got, rest, eof) := read_chunk (modes (k_bi k)) n (k_rc k) in
          (* rsc.offset += int64(n), whatever err is *)
          (mkRsc rest (k_size k) (k_off k + len got) false (k_bi k) (k_nb k) (k_rq k), [], SData got eof)
    | SSeek off w =>
        if k_closed k then (k, [], SErr)
        else
          let tgt : Z := match w with
                         | SeekStart => off
                         | SeekCurrent => wrap64 (off + Z.of_N (k_off k))
                         | SeekEnd => wrap64 (off + Z.of_N (k_size k))
                         end in
          if (tgt <? 0)%Z then (k, [], SErr)
          else
            let t := Z.to_N tgt in
            if t =? k_off k then (k, [], SPos t)
            else if k_size k <=? t then (mkRsc [] (k_size k) t false (k_bi k) (k_nb k) (k_rq k), [], SPos t)
            else
              let r := srv (k_rq k) t (k_size k - 1) in
              let nb := if is_body_status (r_status r) then S (k_nb k) else k_nb k in
              let failed := mkRsc (k_rc k) (k_size k) (k_off k) false (k_bi k) nb (S (k_rq k)) in
              if negb (r_status r =? 206) then (failed, [(t, k_size k - 1)], SErr)
              (* a Content-Length that is not the length of the requested range is refused *)
              else if match r_clen r with Some n => negb (n =? k_size k - t) | None => false end
              then (failed, [(t, k_size k - 1)], SErr)
              else (mkRsc (r_body r) (k_size k) t false (k_nb k) nb (S (k_rq k)), [(t, k_size k - 1)], SPos t)
    end.

  Fixpoint rsc_run (k : rsc) (os : list sop) : list (list (N * N) * sout) :=
    match os with
    | [] => []
    | o :: rest =>
        let '(k1, rq, out) := rsc_step k o in
        (rq, out) :: rsc_run k1 rest
    end.
End Seek.

Definition rsc_open (content : str) (size : N) : rsc := mkRsc content size 0 false 0 1 0.

(* the registry model's answer to "GET blob d, Range: bytes=a-b" (Registry.handle), possibly
   with the j-th answer corrupted in one field *)
Definition range_srv (p : profile) (d content : str) (kor : option (nat * corruption))
  : nat -> N -> N -> response :=
  fun i a bb =>
    let r := blob_resp p false d (Some content) (Some (a, bb)) in
    match kor with
    | Some (j, c) => if Nat.eqb i j then corrupt c r else r
    | None => r
    end.

(* What blobStore.Fetch / blobStore.FetchReference hand back when the response says
   Accept-Ranges: bytes -- httputil.NewReadSeekCloser(client, req, resp.Body, SIZE) with SIZE
   = target.Size resp. desc.Size of the descriptor FetchReference derived (not the
   Content-Length of the GET, which may be unknown); otherwise the plain body. *)
Definition seeker_of (res : result) (size_of_fetch : N) : option rsc :=
  match res with
  | RBytes c => Some (rsc_open c size_of_fetch)         (* Fetch(target): target.Size *)
  | RDescBytes d c => Some (rsc_open c (d_sz d))        (* FetchReference: desc.Size *)
  | _ => None
  end.
